"""MTVRP units (C01–C06): real `MTVRPEnv` vs `Rl4co.Mtvrp` model vs `Rl4co.Spec.Mtvrp`.

One adapter covers all 16 variants: an instance carries the feature valuation (open routes O, time
windows TW, distance limit L, backhauls B) and batches mix rows of different variants.

Exact stream: coordinates from `geom` (integral point sets on the 2^-10 grid), demands `k/C` with `C` a
power of two, capacities 1.0 or 2.0, speeds 1, 2 or 1/2, times on the 2^-11 grid ("tu"), so that every
float32 value the real code computes is exact and every constraint can be met with equality.
"""
from __future__ import annotations

import itertools
import os
from typing import List, Optional

import envcorr
import geom
import rl
from common import LEAN_DIR, Theorem, Unit, register
from leanio import parse_fields
from rl import TensorDict, torch

TU_BITS = 11  # time unit 2^-11
TU = 1 << TU_BITS
TICKS_PER_TU = 1 << (20 - TU_BITS)
INF = float("inf")
INF_SENTINEL = -(1 << 62)  # protocol encoding of `inf` (see lean/Rl4co/Driver/Mtvrp.lean)

VARIANT_NAMES = {}
for _o, _b, _l, _tw in itertools.product([0, 1], repeat=4):
    _nm = "CVRP" if not (_o or _b or _l or _tw) else ("O" if _o else "") + "VRP" + ("B" if _b else "") + ("L" if _l else "") + ("TW" if _tw else "")
    VARIANT_NAMES[(_o, _b, _l, _tw)] = _nm
assert len(set(VARIANT_NAMES.values())) == 16


# ------------------------------------------------------------------------------------------------
# exact instance arithmetic (mirrors nothing in the repo: plain integer arithmetic on the grids)
# ------------------------------------------------------------------------------------------------
def Dg(inst) -> List[List[int]]:
    return geom.dist_matrix(inst["pts"])  # grid units (2^-10)


def T_tu(inst) -> List[List[int]]:
    """travel time D / speed in time units (2^-11): D_grid * 2 / 2^e, e in {-1, 0, 1} (always integral)"""
    e = inst["speed_exp"]
    assert e in (-1, 0, 1)
    return [[(d * 2) >> e if e >= 0 else (d * 2) << -e for d in row] for row in Dg(inst)]


def le_inf(x, b):
    return True if b is None else x <= b


def lt_inf(x, b):
    return True if b is None else x < b


def servable(inst, j, D, T) -> bool:
    """python mirror of `Rl4co.Mtvrp.servable` (deadlines may be met with equality)"""
    op = inst["open"]
    ok_c = le_inf(T[0][j], inst["late"][j])
    ret = 0 if op else max(T[0][j], inst["early"][j]) + inst["service"][j] + T[j][0]
    ok_d = le_inf(ret, inst["late"][0])
    cap = inst["C"] * inst["capmul"]
    ok_dem = (0 < inst["dL"][j] <= cap and inst["dB"][j] == 0) or (0 < inst["dB"][j] <= cap and inst["dL"][j] == 0)
    ok_l = le_inf(D[0][j] + (0 if op else D[j][0]), inst["limit"])
    return ok_c and ok_d and ok_dem and ok_l


def is_wf(inst) -> bool:
    D, T = Dg(inst), T_tu(inst)
    return all(servable(inst, j, D, T) for j in range(1, inst["n"] + 1))


def variant_of(inst) -> str:
    tw = any(l is not None for l in inst["late"])
    b = any(d != 0 for d in inst["dB"])
    return VARIANT_NAMES[(int(inst["open"]), int(b), int(inst["limit"] is not None), int(tw))]


def route_len(D, route, op) -> int:
    seq = [0] + route + ([] if op else [0])
    return sum(D[a][b] for a, b in zip(seq, seq[1:]))


def route_clock(inst, T, route):
    """(service end time after the last customer, arrival times) along depot → route"""
    t, cur, arr = 0, 0, []
    for a in route:
        at = t + T[cur][a]
        arr.append(at)
        t = max(at, inst["early"][a]) + inst["service"][a]
        cur = a
    return t, arr


class MtvrpAdapter(envcorr.Adapter):
    name = "mtvrp"

    def make_env(self, **kw):
        from rl4co.envs.routing.mtvrp.env import MTVRPEnv

        return MTVRPEnv(generator_params=dict(num_loc=5, variant_preset="all"), check_solution=False)

    def n_of(self, inst):
        return inst["n"]

    def kinds(self):
        return ["random", "boundary", "boundary"]

    # ---- instance generation -------------------------------------------------------------------
    def gen_instance(self, rng, n, kind="random", flags=None, capmul=None):
        for attempt in range(200):
            inst = self._gen(rng, n, kind, flags, capmul)
            if is_wf(inst):
                return inst
        raise RuntimeError("could not generate a well-formed MTVRP instance")

    def _gen(self, rng, n, kind, flags, capmul):
        O, B, L, TW = flags if flags is not None else [rng.random() < 0.5 for _ in range(4)]
        pts = geom.gen_points(rng, n + 1)
        inst = {"kind": kind, "n": n, "pts": pts, "open": bool(O)}
        inst["speed_exp"] = rng.choice([0, 0, 0, 1, -1])
        D, T = Dg(inst), T_tu(inst)
        C = rng.choice([4, 8, 16, 32])
        cm = capmul if capmul is not None else rng.choice([1, 1, 1, 2])
        cap = C * cm
        inst["C"], inst["capmul"] = C, cm
        if kind == "boundary":
            pool = [cap // 2, cap // 4, cap // 4, cap // 2, cap, cap - 1, 1, cap // 2 + 1, cap // 2 - 1]
            dem = [max(1, rng.choice(pool)) for _ in range(n)]
        else:
            dem = [rng.randint(1, min(9, cap)) for _ in range(n)]
        back = [bool(B) and rng.random() < 0.45 for _ in range(n)]
        if B and n >= 1 and not any(back):
            back[rng.randrange(n)] = True
        inst["dL"] = [0] + [0 if bk else d for d, bk in zip(dem, back)]
        inst["dB"] = [0] + [d if bk else 0 for d, bk in zip(dem, back)]
        # time windows (time units of 2^-11)
        if TW:
            early, late, service = [0] * (n + 1), [None] * (n + 1), [0] * (n + 1)
            for j in range(1, n + 1):
                service[j] = rng.choice([0, 0, 8, 64, 300])
                early[j] = rng.choice([0, 0, rng.randint(0, 3000), T[0][j], T[0][j] + rng.randint(0, 200)])
                direct = T[0][j]
                lt = None
                if kind == "boundary" and j >= 2 and rng.random() < 0.7:
                    k = rng.randrange(1, j)  # deadline = exact arrival when coming from customer k
                    arr = max(T[0][k], early[k]) + service[k] + T[k][j]
                    if arr >= direct and arr > early[j]:
                        lt = arr
                if lt is None:
                    slack = rng.choice([0, 0, rng.randint(1, 2500)]) if kind == "boundary" else rng.randint(0, 2500)
                    lt = max(early[j] + 1, direct + slack)  # window start < end; direct arrival == deadline allowed
                late[j] = lt
            need0 = max([0] + [max(T[0][j], early[j]) + service[j] + T[j][0] for j in range(1, n + 1)])
            l0 = None
            if kind == "boundary" and n >= 2 and rng.random() < 0.7:
                a, b = rng.sample(range(1, n + 1), 2)  # depot deadline = exact return time of route [a, b]
                t, _ = route_clock({"early": early, "service": service}, T, [a, b])
                if t + T[b][0] >= max(need0, 1):
                    l0 = t + T[b][0]
            if l0 is None:
                if O and rng.random() < 0.5:
                    # open routes: the mask does not look at the way back; keep the checker's own static
                    # assumption (early + d_j0 / speed + service <= late_0) but nothing more
                    stat = max([1] + [early[j] + T[j][0] + service[j] for j in range(1, n + 1)])
                    l0 = max(1, stat + rng.choice([0, 1, 50, -1]))
                else:
                    l0 = max(1, need0 + rng.choice([0, 0, 1, 100, 3000]))
            late[0] = l0
            inst["early"], inst["late"], inst["service"] = early, late, service
        else:
            inst["early"], inst["late"], inst["service"] = [0] * (n + 1), [None] * (n + 1), [0] * (n + 1)
        # distance limit (grid units)
        if L:
            need = max([0] + [D[0][j] + (0 if O else D[j][0]) for j in range(1, n + 1)])
            lim = None
            if kind == "boundary" and n >= 2 and rng.random() < 0.8:
                k = rng.choice([2, 2, 3]) if n >= 3 else 2
                r = rng.sample(range(1, n + 1), k)  # limit = exact length of route r
                if route_len(D, r, O) >= need:
                    lim = route_len(D, r, O)
            if lim is None:
                lim = need + rng.choice([0, 0, 1, rng.randint(0, 400), 2048])
            inst["limit"] = lim
        else:
            inst["limit"] = None
        return inst

    # ---- real side -------------------------------------------------------------------------------
    def to_td(self, insts):
        B = len(insts)
        f32 = torch.float32

        def opt(v, unit):
            return INF if v is None else v / unit

        td = TensorDict(
            {
                "locs": torch.tensor([geom.to_unit(i["pts"]) for i in insts], dtype=f32),
                "demand_linehaul": torch.tensor([[d / i["C"] for d in i["dL"]] for i in insts], dtype=f32),
                "demand_backhaul": torch.tensor([[d / i["C"] for d in i["dB"]] for i in insts], dtype=f32),
                "distance_limit": torch.tensor([[opt(i["limit"], geom.GRID)] for i in insts], dtype=f32),
                "time_windows": torch.tensor(
                    [[[e / TU, opt(l, TU)] for e, l in zip(i["early"], i["late"])] for i in insts], dtype=f32),
                "service_time": torch.tensor([[s / TU for s in i["service"]] for i in insts], dtype=f32),
                "vehicle_capacity": torch.tensor([[float(i["capmul"])] for i in insts], dtype=f32),
                "capacity_original": torch.tensor([[float(i["C"] * i["capmul"])] for i in insts], dtype=f32),
                "open_route": torch.tensor([[bool(i["open"])] for i in insts], dtype=torch.bool),
                "speed": torch.tensor([[2.0 ** i["speed_exp"]] for i in insts], dtype=f32),
            },
            batch_size=[B],
        )
        return td

    # ---- Lean side -------------------------------------------------------------------------------
    def sections(self, inst, actions) -> str:
        n, C = inst["n"], inst["C"]
        du = rl.SCALE // C
        g = geom.TICKS_PER_GRID

        def opt(v, unit):
            return INF_SENTINEL if v is None else v * unit

        D = [[d * g for d in row] for row in Dg(inst)]
        T = [[t * TICKS_PER_TU for t in row] for row in T_tu(inst)]
        secs = [
            [n, inst["capmul"] * rl.SCALE, int(inst["open"]), opt(inst["limit"], g)],
            [d * du for d in inst["dL"]],
            [d * du for d in inst["dB"]],
            [e * TICKS_PER_TU for e in inst["early"]],
            [opt(l, TICKS_PER_TU) for l in inst["late"]],
            [s * TICKS_PER_TU for s in inst["service"]],
            [v for row in D for v in row],
            [v for row in T for v in row],
            list(actions),
        ]
        return " | ".join(" ".join(map(str, s)) for s in secs)

    def line(self, op, inst, actions):
        return f"mtvrp.{op} " + self.sections(inst, actions)

    def step_bound(self, inst):
        return 2 * inst["n"] + 1

    # ---- candidate solutions -------------------------------------------------------------------
    def handbuilt(self, rng, inst):
        n = inst["n"]
        perm = list(range(1, n + 1))
        rng.shuffle(perm)
        single = []
        for c in perm:
            single += [c, 0]
        # linehauls first, then backhauls, in one route
        lb = [j for j in perm if inst["dB"][j] == 0] + [j for j in perm if inst["dB"][j] != 0]
        return [("each-own-route-no-final-depot", single[:-1]),
                ("each-own-route-trailing-depots", single + [0, 0]),
                ("leading-depot", [0] + single),
                ("one-route-never-returns", perm),
                ("one-route-linehauls-first", lb + [0]),
                ("two-routes", perm[: n // 2] + [0] + perm[n // 2:] + [0])]

    def enumerate_solutions(self, inst):
        n = inst["n"]
        for perm in itertools.permutations(range(1, n + 1)):
            for cuts in itertools.product([0, 1], repeat=n - 1):
                sol = []
                for k, c in enumerate(perm):
                    sol.append(c)
                    if k < n - 1 and cuts[k]:
                        sol.append(0)
                if not any(cuts):
                    sol.append(0)
                yield sol


AD = MtvrpAdapter()


def ask_chunked(ctx, lines, ch=48):
    """`ctx.driver.ask_many` in small chunks: the driver only flushes at the end of a chunk, so the replies of
    one chunk must fit into the pipe buffer (a larger chunk can dead-lock writer against writer)"""
    out = []
    for k in range(0, len(lines), ch):
        out += ctx.driver.ask_many(lines[k: k + ch])
    return out


def emit(ctx, key, what, witness, per_key=3):
    """record a violation; at most `per_key` records per failure class so that a frequent (known) class
    cannot crowd a different one out of the capped violation list — every occurrence is still counted"""
    n = ctx.counts.get("violation-class." + key, 0)
    ctx.count("violation-class." + key)
    if n < per_key:
        ctx.violation(key, what, witness)


def _count_variants(ctx, insts):
    for i in insts:
        ctx.count(f"mtvrp.variant={variant_of(i)}")
        ctx.count(f"mtvrp.speed=2^{i['speed_exp']}")
        ctx.count(f"mtvrp.capmul={i['capmul']}")


class CountingAdapter(MtvrpAdapter):
    """adapter that reports the distribution of generated instances into the run context"""

    def __init__(self, ctx):
        self.ctx = ctx

    def gen_instance(self, rng, n, kind="random", flags=None, capmul=None):
        inst = super().gen_instance(rng, n, kind, flags, capmul)
        _count_variants(self.ctx, [inst])
        return inst


# ------------------------------------------------------------------------------------------------
# boundary sweeps shared by the units: every variant once, equality cases hit and counted
# ------------------------------------------------------------------------------------------------
def equality_hits(inst, actions) -> List[str]:
    """which constraints the executed solution meets with equality (for the input-distribution report)"""
    D, T = Dg(inst), T_tu(inst)
    hits = set()
    route = []
    cap = inst["C"] * inst["capmul"]
    for a in list(actions) + [0]:
        if a != 0:
            route.append(a)
            continue
        if route:
            if sum(inst["dL"][j] for j in route) == cap:
                hits.add("linehaul-load==capacity")
            if sum(inst["dB"][j] for j in route) == cap:
                hits.add("backhaul-load==capacity")
            if inst["limit"] is not None and route_len(D, route, inst["open"]) == inst["limit"]:
                hits.add("route-length==limit")
            t, arr = route_clock(inst, T, route)
            for j, at in zip(route, arr):
                if inst["late"][j] is not None and at == inst["late"][j]:
                    hits.add("arrival==deadline")
                if at == inst["early"][j] and at > 0:
                    hits.add("arrival==window-start")
            if not inst["open"] and inst["late"][0] is not None and t + T[route[-1]][0] == inst["late"][0]:
                hits.add("depot-return==depot-deadline")
            ks = [k for k, j in enumerate(route) if inst["dB"][j] != 0]
            if ks and ks[0] > 0:
                hits.add("backhaul-after-linehaul")
        route = []
    return sorted(hits)


def all_flag_combos():
    return list(itertools.product([0, 1], repeat=4))


def _nonterminating_is_a_disagreement(ctx):
    """every instance the adapter generates is well-formed (`wf`, checked in Python and by the Lean driver), so by
    `Rl4co.Mtvrp.steps_le` the MODEL finishes within 2n+1 steps; a real episode that was given up after
    20(n+2)+50 steps therefore contradicts the model (the generic routines only count such episodes as skipped)"""
    k = ctx.counts.get("mtvrp.nonterminating-episode-skipped", 0)
    if k:
        ctx.disagreement("mtvrp: the real env does not finish episodes on well-formed instances (model: <= 2n+1 steps)",
                         {"episodes_given_up": k, "hint": "run C02 --only mtvrp for the witness instance"})


def _bfs_tiny(ctx, ad, what, insts_quick=40, insts_thorough=150, max_leaves=3000):
    """exhaustive breadth-first expansion of ALL mask-admitted action sequences of the real env on tiny instances
    (the frontier is stepped as one batch); every complete sequence is replayed by the model (masks and done flags
    of every state on the way compared), judged by the Lean Spec (C01) and measured against the 2n+1 bound (C02)"""
    env = ad.make_env()
    total = ctx.budget(insts_quick, insts_thorough)
    combos = all_flag_combos()
    for g in range(total):
        n = ctx.rng.choice([2, 3] if ctx.tier == "quick" else [2, 3, 3, 4])
        inst = ad.gen_instance(ctx.rng, n, ctx.rng.choice(ad.kinds()), flags=combos[ctx.rng.randrange(16)])
        # every second instance is expanded next to a companion row of the complementary variant (mixed batch)
        fl = (inst["open"], any(d != 0 for d in inst["dB"]), inst["limit"] is not None, any(l is not None for l in inst["late"]))
        comp = [ad.gen_instance(ctx.rng, n, "random", flags=(not fl[0], fl[1], not fl[2], not fl[3]))] if g % 2 == 0 else []
        td = env.reset(ad.to_td([inst] + comp))
        prefixes, leaves, depth = [[]], [], 0
        while prefixes and len(leaves) < max_leaves:
            mask = td["action_mask"]
            done = td["done"].reshape(len(prefixes) + len(comp)).tolist()
            idx, acts, nxt = [], [], []
            for r, pre in enumerate(prefixes):
                if done[r]:
                    leaves.append(pre)
                    continue
                feas = [j for j, b in enumerate(mask[r].tolist()) if b]
                if not feas:
                    ctx.violation("mtvrp:dead-end", "all-False mask row in an unfinished state (BFS)", {"inst": inst, "actions": pre})
                if depth > 2 * n + 1:
                    ctx.violation("mtvrp:step-bound", f"unfinished after {depth} > 2n+1 steps (BFS)", {"inst": inst, "actions": pre})
                    continue
                for a in feas:
                    idx.append(r)
                    acts.append(a)
                    nxt.append(pre + [a])
            if not nxt:
                break
            for r in range(len(prefixes), len(prefixes) + len(comp)):
                idx.append(r)
                acts.append(ctx.rng.choice([j for j, b in enumerate(mask[r].tolist()) if b]))
            td = td[torch.tensor(idx, dtype=torch.long)].clone()
            td.set("action", torch.tensor(acts, dtype=torch.long))
            td = env.step(td)["next"]
            prefixes = nxt
            depth += 1
        ctx.count(f"mtvrp.bfs.n={n}")
        ctx.count("mtvrp.bfs.leaves", len(leaves))
        ctx.count(f"mtvrp.bfs.variant={variant_of(inst)}")
        if not leaves:
            continue
        # replay every complete sequence solo to obtain its mask/done trace, in batches
        for k in range(0, len(leaves), 64):
            chunk = leaves[k: k + 64]
            L = max(len(c) for c in chunk)
            try:
                td1, ep = envcorr.run_batch(ctx, ad, env, [inst] * len(chunk), forced=chunk)
            except envcorr.EpisodeFailed:
                continue
            replies = ask_chunked(ctx, [ad.line("episode", inst, ep.actions[r][: len(chunk[r])]) for r in range(len(chunk))])
            for r, c in enumerate(chunk):
                f = envcorr.compare_trace(ctx, ad, inst, c, ep.masks[r][: len(c) + 1], ep.done[r][: len(c) + 1], replies[r], f"{what} BFS")
                ctx.case(("mtvrp", "bfs", repr(inst), tuple(c)))
                if ep.actions[r][: len(c)] != c:
                    ctx.disagreement("mtvrp: BFS leaf not reproducible solo", {"inst": inst, "leaf": c, "solo": ep.actions[r]})
                if f.get("feas") == "0":
                    ctx.violation("mtvrp:infeasible-episode", "mask-confined episode of the real env is infeasible by the Lean Spec (BFS)",
                                  {"inst": inst, "actions": c, "verdicts": f})
                if len(c) > 2 * n + 1:
                    ctx.violation("mtvrp:step-bound", f"episode of {len(c)} > 2n+1 steps (BFS)", {"inst": inst, "actions": c})
                for h in equality_hits(inst, c):
                    ctx.count(f"mtvrp.equality.{h}")


def run_c01(ctx):
    ad = CountingAdapter(ctx)
    envcorr.check_feasibility(ctx, ad, episodes_quick=300, episodes_thorough=3000)
    _variant_sweep(ctx, ad, "C01", per_variant_thorough=20)
    _bfs_tiny(ctx, ad, "C01")
    _nonterminating_is_a_disagreement(ctx)


def _variant_sweep(ctx, ad, what, extra_pad=0, per_variant_quick=4, per_variant_thorough=6):
    """one mixed batch holding all 16 variants (rows of different variants side by side), mask/done trace
    compared with the model and the Spec evaluated on the real action lists"""
    env = ad.make_env()
    reps = ctx.budget(per_variant_quick, per_variant_thorough)
    for rep in range(reps):
        n = ctx.rng.choice([3, 4, 6])
        insts = [ad.gen_instance(ctx.rng, n, ctx.rng.choice(ad.kinds()), flags=fl) for fl in all_flag_combos()]
        ctx.rng.shuffle(insts)
        try:
            td0, ep = envcorr.run_batch(ctx, ad, env, insts, extra_pad=extra_pad, nonterm_is_violation=(what == "C02"))
        except envcorr.EpisodeFailed:
            continue
        lines = [ad.line("episode", insts[r], ep.actions[r]) for r in range(len(insts))]
        replies = ctx.driver.ask_many(lines)
        # the environment built from the statement-level translation (Generated/MtvrpEnv.lean) against the real code
        for r, rep in enumerate(ctx.driver.ask_many([ad.line("episodegen", insts[r], ep.actions[r]) for r in range(len(insts))])):
            envcorr.compare_trace(ctx, ad, insts[r], ep.actions[r], ep.masks[r], ep.done[r], rep, f"{what} generated definitions")
            ctx.count("mtvrp.generated-env-traces")
        names = env.get_variant_names(td0)
        for r, inst in enumerate(insts):
            f = envcorr.compare_trace(ctx, ad, inst, ep.actions[r], ep.masks[r], ep.done[r], replies[r], f"{what} 16-variant batch")
            ctx.case(("mtvrp", repr(inst), tuple(ep.actions[r]), "sweep"))
            if names[r] != variant_of(inst):
                ctx.disagreement("mtvrp: variant name differs", {"real": names[r], "harness": variant_of(inst), "inst": inst})
            if f.get("wf") != "1":
                ctx.disagreement("mtvrp: harness WF and Lean wf differ", {"inst": inst})
            for h in equality_hits(inst, ep.actions[r]):
                ctx.count(f"mtvrp.equality.{h}")
            if what == "C01" and f.get("feas") == "0":
                ctx.violation("mtvrp:infeasible-episode", "mask-confined episode of the real env is infeasible by the Lean Spec",
                              {"inst": inst, "actions": ep.actions[r], "lean_line": lines[r], "verdicts": f})


def run_c02(ctx):
    ad = CountingAdapter(ctx)
    envcorr.check_termination(ctx, ad, episodes_quick=300, episodes_thorough=3000)
    _variant_sweep(ctx, ad, "C02", extra_pad=3, per_variant_thorough=20)
    _bfs_tiny(ctx, ad, "C02", insts_quick=20, insts_thorough=80)
    _generator_instances_finish(ctx)
    _replay_idle_witness(ctx, ad)


def _generator_instances_finish(ctx):
    """the conclusion of the chain generator ⇒ `wf` ⇒ `steps_le` (`Rl4co.Mtvrp.gen_steps_le`) on REAL generator output
    (float32, every preset, mixed batches): every mask-confined episode is finished within 2n+1 steps, no dead end, and
    each customer is servable on its own at reset (the float image of `servable`)"""
    from rl4co.envs.routing.mtvrp.env import MTVRPEnv
    from rl4co.envs.routing.mtvrp.generator import MTVRPGenerator, VARIANT_GENERATION_PRESETS

    presets = list(VARIANT_GENERATION_PRESETS.keys())
    reps = ctx.budget(1, 6)
    for rep in range(reps):
        for preset in presets:
            n = ctx.rng.choice([5, 10, 20])
            torch.manual_seed(ctx.rng.randrange(1 << 30))
            gen = MTVRPGenerator(num_loc=n, variant_preset=preset)
            env = MTVRPEnv(generator=gen, check_solution=False)
            td0 = gen(batch_size=[8])
            td = env.reset(td0.clone())
            if not bool(td["action_mask"][:, 1:].all()):
                ctx.violation("mtvrp:generated-customer-not-servable", "a customer of a generated instance is not offered at reset",
                              {"preset": preset, "n": n, "mask": [rl.mask_str(m) for m in td["action_mask"]]})
            try:
                ep = rl.run_episode(env, td0, lambda r, t, feas: ctx.rng.choice(feas), max_steps=4 * n + 10)
            except RuntimeError as e:
                ctx.violation("mtvrp:no-termination", f"generated instances (preset {preset}): {e}", {"preset": preset, "n": n})
                continue
            ctx.count(f"mtvrp.generated.preset={preset}")
            for r in range(8):
                ctx.case(("mtvrp", "generated", preset, n, rep, r))
                d = ep.done[r]
                if 1 not in d or d.index(1) > 2 * n + 1:
                    ctx.violation("mtvrp:step-bound", "generated instance not finished within 2n+1 steps",
                                  {"preset": preset, "n": n, "actions": ep.actions[r]})
            for (r, t) in ep.empty_mask_rows:
                ctx.violation("mtvrp:dead-end", "generated instance: a row is offered no action", {"preset": preset, "n": n, "row": r, "step": t})


def _replay_idle_witness(ctx, ad):
    """`Rl4co.Mtvrp.idleInst`: one customer whose direct arrival time equals its deadline.  Servable by the problem
    statement; must be offered and the episode `[1, 0]` must finish (before upstream 6a508fb the customer was never
    offered and the env idled at the depot: regression guard)."""
    inst = {"kind": "witness", "n": 1, "pts": [(0, 0), (128, 0)], "open": False, "speed_exp": 0, "C": 4, "capmul": 1,
            "dL": [0, 1], "dB": [0, 0], "limit": None, "early": [0, 0], "late": [2048, 256], "service": [0, 0]}
    env = ad.make_env()
    td = env.reset(ad.to_td([inst]))
    steps, masks, acts = 0, [], []
    while steps < 2 * inst["n"] + 1 + 5 and not bool(td["done"].reshape(-1)[0]):
        m = rl.mask_str(td["action_mask"][0])
        masks.append(m)
        feas = [j for j, c in enumerate(m) if c == "1"]
        if not feas:
            break
        acts.append(feas[-1])  # prefer a customer if one is offered
        td.set("action", torch.tensor([feas[-1]]))
        td = env.step(td)["next"]
        steps += 1
    f = parse_fields(ctx.driver.ask(ad.line("episode", inst, acts)))
    ctx.case(("mtvrp", "idle-witness"))
    if f.get("masks", "").split(",")[:len(masks)] != masks:
        ctx.disagreement("mtvrp: idle witness: model and real masks differ", {"inst": inst, "real": masks, "model": f.get("masks")})
    f2 = parse_fields(ctx.driver.ask(ad.line("check", inst, [1, 0])))
    if not bool(td["done"].reshape(-1)[0]) and f2.get("feas") == "1":
        emit(ctx, "mtvrp:no-termination:deadline-equality",
             f"a solvable instance ([1, 0] is Spec-feasible: arrival == deadline) is not finished after {steps} > 2n+1 steps: "
             "the customer is never offered, the env idles at the depot",
             {"inst": inst, "masks": masks})


def run_c03(ctx):
    ad = CountingAdapter(ctx)
    envcorr.check_reward(ctx, ad, episodes_quick=300, episodes_thorough=3000)
    _nonterminating_is_a_disagreement(ctx)


def run_c04(ctx):
    ad = CountingAdapter(ctx)
    envcorr.check_batch_independence(ctx, ad, groups_quick=60, groups_thorough=600)
    _nonterminating_is_a_disagreement(ctx)


# ------------------------------------------------------------------------------------------------
# C05: every Spec-feasible canonical solution must be admitted by the REAL mask (tiny, exhaustive)
# ------------------------------------------------------------------------------------------------
def run_c05(ctx):
    ad = CountingAdapter(ctx)
    env = ad.make_env()
    total = ctx.budget(96, 800)
    nmax = ctx.budget(4, 5)
    combos = all_flag_combos()
    for g in range(total):
        n = ctx.rng.randint(1, nmax)
        flags = combos[g % 16] if g < 64 else None
        inst = ad.gen_instance(ctx.rng, n, ctx.rng.choice(ad.kinds()), flags=flags)
        cands = list(ad.enumerate_solutions(inst))
        lines = [ad.line("episode", inst, c) for c in cands]
        replies = ask_chunked(ctx, lines)
        feas = []
        for c, rep in zip(cands, replies):
            f = parse_fields(rep)
            if f.get("feas") == "1":
                feas.append((c, f))
        ctx.count("mtvrp.candidates", len(cands))
        ctx.count("mtvrp.feasible", len(feas))
        if not feas:
            ctx.count("mtvrp.no-feasible-solution")
            continue
        best_all, best_reach = None, None
        CH = 64
        fl0 = (inst["open"], any(d != 0 for d in inst["dB"]), inst["limit"] is not None, any(l is not None for l in inst["late"]))
        companions = [ad.gen_instance(ctx.rng, n, "random", flags=(not fl0[0], fl0[1], not fl0[2], not fl0[3])),
                      ad.gen_instance(ctx.rng, n, "boundary", flags=(not fl0[0], not fl0[1], fl0[2], fl0[3]))] if g % 2 == 0 else []
        ctx.count(f"mtvrp.c05.companion-rows={len(companions)}")
        for k in range(0, len(feas), CH):
            chunk = feas[k: k + CH]
            Lmax = max(len(c) for c, _ in chunk)
            # the solutions are stepped next to companion rows of the complementary variant (open <-> closed, limit <->
            # no limit, windows <-> none), so that a batch-global shortcut in the mask cannot hide behind a homogeneous batch
            td = env.reset(ad.to_td([inst] * len(chunk) + companions))
            alive = [True] * len(chunk)
            for t in range(Lmax):
                mask = td["action_mask"]
                acts = []
                for r, (c, f) in enumerate(chunk):
                    first_ok = [j for j, b in enumerate(mask[r].tolist()) if b][0]
                    if t < len(c) and alive[r]:
                        a = c[t]
                        if not bool(mask[r, a]):
                            alive[r] = False
                            strict = f.get("feasStrict") == "1"
                            key = "mtvrp:mask-hides-feasible" + ("" if strict else ":deadline-equality")
                            emit(ctx, key,
                                          "a solution that is feasible by the Lean Spec is not offered by the real mask"
                                          + ("" if strict else " (it meets a deadline with equality)"),
                                          {"inst": inst, "variant": variant_of(inst), "solution": c, "blocked_at_step": t,
                                           "mask": rl.mask_str(mask[r]), "equalities": equality_hits(inst, c)})
                            if f.get("adm") == "1":
                                ctx.disagreement("mtvrp: model admits, real mask blocks", {"inst": inst, "solution": c, "step": t})
                            a = first_ok
                        acts.append(a)
                    else:
                        acts.append(first_ok)
                for r in range(len(chunk), len(chunk) + len(companions)):
                    acts.append(ctx.rng.choice([j for j, b in enumerate(mask[r].tolist()) if b]))
                td.set("action", torch.tensor(acts, dtype=torch.long))
                td = env.step(td)["next"]
            done = td["done"].reshape(len(chunk) + len(companions)).tolist()
            for r, (c, f) in enumerate(chunk):
                ctx.case(("mtvrp", repr(inst), tuple(c)))
                for h in equality_hits(inst, c):
                    ctx.count(f"mtvrp.equality.{h}")
                if alive[r] and not done[r]:
                    ctx.violation("mtvrp:feasible-not-done", "feasible complete solution not recognised as finished",
                                  {"inst": inst, "solution": c})
                if alive[r] and f.get("adm") != "1":
                    ctx.disagreement("mtvrp: real mask admits a feasible solution, model does not", {"inst": inst, "solution": c})
                if not alive[r] and f.get("adm") == "1":
                    pass  # reported above
                o = int(f["obj"])
                best_all = o if best_all is None else min(best_all, o)
                if alive[r]:
                    best_reach = o if best_reach is None else min(best_reach, o)
        if best_reach is None or best_reach != best_all:
            ctx.count("mtvrp.optimum-not-reachable-through-mask")
        ctx.sample({"env": "mtvrp", "variant": variant_of(inst), "inst": inst, "n_candidates": len(cands), "n_feasible": len(feas),
                    "best_objective_ticks": best_all, "best_reachable_ticks": best_reach})
    _replay_deadline_equality(ctx, ad, env)


def deadline_equality_witness():
    """minimal witness (= `Rl4co.Mtvrp.dlInst`, in time units of 2^-11): depot 0 — customer 1 at 128 — customer 2
    at 256 on a line, VRPTW, service 64 at customer 1; coming from customer 1 the vehicle reaches customer 2 at
    256 + 64 + 256 = 576 = its deadline.  `[1, 2, 0]` is feasible (and accepted by the env's own checker) and must be
    offered by the mask step by step (before upstream 6a508fb customer 2 was masked after customer 1: regression guard)."""
    inst = {"kind": "witness", "n": 2, "pts": [(0, 0), (128, 0), (256, 0)], "open": False, "speed_exp": 0,
            "C": 4, "capmul": 1, "dL": [0, 1, 1], "dB": [0, 0, 0], "limit": None,
            "early": [0, 0, 0], "late": [2048, 1024, 576], "service": [0, 64, 0]}
    return inst, [1, 2, 0]


def _replay_deadline_equality(ctx, ad, env):
    inst, sol = deadline_equality_witness()
    f = parse_fields(ctx.driver.ask(ad.line("episode", inst, sol)))
    td = env.reset(ad.to_td([inst]))
    blocked = None
    for t, a in enumerate(sol):
        if not bool(td["action_mask"][0, a]):
            blocked = t
            break
        td.set("action", torch.tensor([a]))
        td = env.step(td)["next"]
    acc = rl.checker_accepts(env, env.reset(ad.to_td([inst])), torch.tensor([sol]))
    ctx.case(("mtvrp", "deadline-equality-witness"))
    if f.get("feas") == "1" and blocked is not None:
        emit(ctx, "mtvrp:mask-hides-feasible:deadline-equality",
                      "witness replay: arrival == deadline is feasible by the Spec"
                      + (" and accepted by the env's own checker" if acc else "") + " but masked",
                      {"inst": inst, "solution": sol, "blocked_at_step": blocked, "real_checker_accepts": acc})
    if (f.get("adm") == "1") != (blocked is None):
        ctx.disagreement("mtvrp: witness replay: model and real mask differ", {"inst": inst, "solution": sol})


# ------------------------------------------------------------------------------------------------
# C06: checker vs definition
# ------------------------------------------------------------------------------------------------
def _ask_check(ctx, ad, inst, sol):
    return parse_fields(ctx.driver.ask(ad.line("check", inst, list(sol))))


def classify_reject(ctx, ad, inst, sol, f) -> str:
    """the checker raises for a Spec-feasible solution.  Known class `open-route-depot-deadline`: the instance has open
    routes and the ONLY thing the checker objects to is the depot deadline (static assert / arrival of a leg into the
    depot) — established by re-judging the same solution with the depot deadline removed: then the checker model must
    accept.  Anything else keeps the plain key and is reported fresh."""
    if inst["open"] and inst["late"][0] is not None and f.get("cSort") == "1":
        f2 = _ask_check(ctx, ad, dict(inst, late=[None] + list(inst["late"][1:])), sol)
        if f2.get("check") == "1" and f2.get("feas") == "1":
            return ":open-route-depot-deadline"
    if inst["speed_exp"] != 0 and all(f.get(k) == "1" for k in ("cSort", "cLen", "cCapL", "cCapB")):
        return ":checker-ignores-speed"  # fixed upstream (afacad0): a reappearance is reported as a fresh violation
    return ""


def classify_accept(ctx, ad, inst, sol, f) -> str:
    """the checker accepts a Spec-infeasible solution.  Known classes, each established by re-judging:
    `backhaul-order-unchecked`: the linehaul-before-backhaul order is the ONLY violated constraint;
    `final-return-leg-unchecked`: closed routes, the list does not end at the depot, every route before the last one is
    fine, and the last route violates nothing but the limit / depot deadline on its way back (with that leg not driven —
    open-route variant of the instance — the solution is feasible up to the order constraint), and the checker model does
    raise once the final depot visit is appended.  Anything else keeps the plain key and is reported fresh."""
    bad = {k for k in ("once", "load", "order", "dist", "time") if f.get(k) == "0"}
    if not bad or bad & {"once", "load"}:
        return ""
    rest = bad - {"order"}
    if not rest:
        return ":backhaul-order-unchecked"
    if not inst["open"] and sol and sol[-1] != 0:
        zs = [k for k, a in enumerate(sol) if a == 0]
        prefix = list(sol[: zs[-1] + 1]) if zs else []
        fp = _ask_check(ctx, ad, inst, prefix) if prefix else {"dist": "1", "time": "1"}
        fo = _ask_check(ctx, ad, dict(inst, open=True), sol)
        fz = _ask_check(ctx, ad, inst, list(sol) + [0])
        if (fp.get("dist") == "1" and fp.get("time") == "1" and fo.get("dist") == "1" and fo.get("time") == "1"
                and fz.get("check") == "0" and fz.get("cSort") == "1"):
            # (if the order constraint is violated as well, the acceptance is the sum of the two known defects)
            return ":final-return-leg-unchecked" + ("+backhaul-order-unchecked" if "order" in bad else "")
    if rest == {"time"} and inst["speed_exp"] != 0:
        return ":checker-ignores-speed"  # fixed upstream (afacad0): fresh if it reappears
    return ""


def c06_witnesses():
    """minimal witnesses of the known C06 findings (the Lean counterexamples, on the harness grids)"""
    def base(n, pts, **kw):
        d = {"kind": "witness", "n": n, "pts": pts, "open": False, "speed_exp": 0, "C": 4, "capmul": 1,
             "dL": [0] + [1] * n, "dB": [0] * (n + 1), "limit": None, "early": [0] * (n + 1),
             "late": [None] * (n + 1), "service": [0] * (n + 1)}
        d.update(kw)
        return d

    return [
        ("speed-2-feasible", base(1, [(0, 0), (512, 0)], speed_exp=1, late=[4096, 600]), [1, 0]),
        ("speed-half-infeasible",
         base(2, [(0, 0), (128, 0), (256, 0)], speed_exp=-1, late=[16384, 4096, 1100], service=[0, 128, 0]), [1, 2, 0]),
        ("open-route-depot-deadline", base(1, [(0, 0), (256, 0)], open=True, late=[600, 4096]), [1, 0]),
        ("backhaul-before-linehaul", base(2, [(0, 0), (128, 0), (256, 0)], dL=[0, 0, 1], dB=[0, 1, 0]), [1, 2, 0]),
        ("final-return-leg-over-limit", base(2, [(512, 0), (212, 0), (812, 0)], limit=1024), [1, 2]),
        ("final-return-leg-replayed", base(2, [(512, 0), (212, 0), (812, 0)], limit=1024), [1, 2, 0]),
    ]


def mt_corruptions(ad, rng, inst, sol):
    out = envcorr.corruptions(ad, rng, inst, sol)
    custs = [k for k, a in enumerate(sol) if a != 0]
    # a linehaul moved right behind a backhaul of the same route
    route_start = 0
    for k, a in enumerate(sol + [0]):
        if a == 0:
            seg = list(range(route_start, k))
            ls = [p for p in seg if inst["dL"][sol[p]] > 0]
            bs = [p for p in seg if inst["dB"][sol[p]] > 0]
            if ls and bs:
                p, q = ls[0], bs[-1]
                sw = list(sol)
                sw[p], sw[q] = sw[q], sw[p]
                out.append(("linehaul-after-backhaul", sw))
                break
            route_start = k + 1
    if len(custs) >= 2:
        out.append(("reversed", [a for a in reversed(sol)]))
    # one long route that never returns / returns once (the way back of the last route)
    perm = [a for a in sol if a != 0]
    rng.shuffle(perm)
    k = rng.randint(1, len(perm)) if perm else 0
    out.append(("merged-tail-no-final-depot", perm[k:] + ([0] if perm[k:] else []) + perm[:k]))
    out.append(("merged-tail-final-depot", perm[k:] + ([0] if perm[k:] else []) + perm[:k] + [0]))
    return out


def tightened(inst, sol, rng):
    """instances on which `sol` violates one constraint by exactly one unit: (label, instance)"""
    D, T = Dg(inst), T_tu(inst)
    out = []
    routes, cur = [], []
    for a in list(sol) + [0]:
        if a == 0:
            if cur:
                routes.append(cur)
            cur = []
        else:
            cur.append(a)
    if not routes:
        return out
    if inst["limit"] is not None:
        # the longest route: one unit below its length the limit is violated by that route only, and — for closed
        # routes — only through its last leg (the way back), every prefix still being within the limit
        r = max(routes, key=lambda rt: route_len(D, rt, inst["open"]))
        ln = route_len(D, r, inst["open"])
        need = max(D[0][j] + (0 if inst["open"] else D[j][0]) for j in range(1, inst["n"] + 1))
        if ln - 1 >= need:
            out.append(("limit-one-below-route-length", dict(inst, limit=ln - 1)))
        out.append(("limit-equals-route-length", dict(inst, limit=max(ln, need))))
    # load: one demand raised so that its route carries capacity + 1 (kept <= capacity for the customer itself)
    cap = inst["C"] * inst["capmul"]
    for key in ("dL", "dB"):
        cand = [(rt, j) for rt in routes for j in rt if inst[key][j] > 0 and len(rt) >= 2
                and inst[key][j] + (cap + 1 - sum(inst[key][k] for k in rt)) <= cap]
        if cand:
            rt, j = rng.choice(cand)
            load = sum(inst[key][k] for k in rt)
            d1 = list(inst[key]); d1[j] += cap + 1 - load
            out.append((f"{key}-load-one-above-capacity", dict(inst, **{key: d1})))
            d0 = list(inst[key]); d0[j] += cap - load
            out.append((f"{key}-load-equals-capacity", dict(inst, **{key: d0})))
    if any(l is not None for l in inst["late"]):
        # positions whose arrival is later than the direct arrival from the depot: the deadline can be moved onto
        # (or one unit below) the arrival time without making the customer unservable on its own
        cands = []
        for rt in routes:
            t, arr = route_clock(inst, T, rt)
            cands += [(j, at) for j, at in zip(rt, arr) if at - 1 >= T[0][j] and at - 1 > inst["early"][j]]
        if cands:
            j, at = rng.choice(cands)
            late = list(inst["late"])
            late[j] = at - 1
            out.append(("deadline-one-below-arrival", dict(inst, late=late)))
            late = list(inst["late"])
            late[j] = at
            out.append(("deadline-equals-arrival", dict(inst, late=late)))
        if not inst["open"] and inst["late"][0] is not None:
            rets = []
            for rt in routes:
                t, arr = route_clock(inst, T, rt)
                rets.append(t + T[rt[-1]][0])
            need0 = max(max(T[0][j], inst["early"][j]) + inst["service"][j] + T[j][0] for j in range(1, inst["n"] + 1))
            m = max(rets)
            if m - 1 >= max(need0, 1):
                out.append(("depot-deadline-one-below-return", dict(inst, late=[m - 1] + list(inst["late"][1:]))))
            if m >= max(need0, 1):
                out.append(("depot-deadline-equals-return", dict(inst, late=[m] + list(inst["late"][1:]))))
    return [(lab, i2) for lab, i2 in out if is_wf(i2)]


def run_c06(ctx):
    ad = CountingAdapter(ctx)
    env = ad.make_env()
    total = ctx.budget(200, 2500)
    done_eps = 0
    while done_eps < total:
        n = ctx.rng.choice(ad.sizes(ctx.tier))
        B = ctx.rng.choice([1, 2, 4])
        insts = envcorr.make_batch(ad, ctx, n, B)
        try:
            td0, ep = envcorr.run_batch(ctx, ad, env, insts, extra_pad=ctx.rng.choice([0, 0, 2]))
        except envcorr.EpisodeFailed:
            done_eps += B
            continue
        cases = []
        for r in range(B):
            cases.append((insts[r], "mask-generated", ep.actions[r]))
            for lab, sol in ad.handbuilt(ctx.rng, insts[r]):
                cases.append((insts[r], lab, sol))
            for lab, sol in mt_corruptions(ad, ctx.rng, insts[r], ep.actions[r]):
                cases.append((insts[r], lab, sol))
            for lab, i2 in tightened(insts[r], ep.actions[r], ctx.rng):
                cases.append((i2, lab, ep.actions[r]))
        _judge_cases(ctx, ad, env, cases)
        done_eps += B
    _judge_cases(ctx, ad, env, [(i, "witness:" + lab, sol) for lab, i, sol in c06_witnesses()])
    _batch_capacity_cases(ctx, ad, env)
    _mixed_batch_checker(ctx, ad, env)
    _static_assert_cases(ctx, ad, env)
    # C06 is about the CHECKER: an episode of the real env that does not finish is the mask's problem (reported by
    # C01–C05, where it is a model≠code disagreement); here it only means that one source of action lists is missing
    k = ctx.counts.get("mtvrp.nonterminating-episode-skipped", 0)
    if k:
        ctx.note(f"mtvrp: {k} mask-generated episodes did not finish and were skipped (not a checker matter; see C01/C02)")


def _judge_cases(ctx, ad, env, cases):
    """solo verdicts: real checker (one-row batch) vs checker model vs Lean Spec; returns [(real_accepts, fields)]"""
    lines = [ad.line("check", i, s) for (i, lab, s) in cases]
    replies = ask_chunked(ctx, lines)
    out = []
    for (inst, lab, sol), rep in zip(cases, replies):
        f = parse_fields(rep)
        if "check" not in f:
            ctx.disagreement("mtvrp: driver error", {"reply": rep, "inst": inst, "actions": sol})
            out.append((None, f))
            continue
        td1 = env.reset(ad.to_td([inst]))
        acc = rl.checker_accepts(env, td1, torch.tensor([sol], dtype=torch.long))
        ctx.case(("mtvrp", repr(inst), lab, tuple(sol)), nontrivial=True)
        ctx.count(f"mtvrp.{lab}.{'feasible' if f.get('feas') == '1' else 'infeasible'}")
        ctx.count(f"mtvrp.checked.variant={variant_of(inst)}")
        if (f["check"] == "1") != acc:
            ctx.disagreement("mtvrp: checker model differs from real checker",
                             {"inst": inst, "label": lab, "actions": sol, "real_accepts": acc, "model": f})
        # Lean oracle `Spec.Mtvrp.Accepted` (= Feasible with exactly the three known omissions, `check_iff`): on a
        # well-formed, statically admissible instance the REAL checker must accept exactly this set
        if f.get("wf") == "1" and f.get("cStatic") == "1" and f.get("acc") in ("0", "1") and (f["acc"] == "1") != acc:
            ctx.violation("mtvrp:checker-differs-from-accepted-set",
                          "the real checker's verdict differs from Spec.Mtvrp.Accepted (feasibility up to the three known "
                          "omissions: backhaul order, open-route depot deadline, trailing route's way back)",
                          {"inst": inst, "variant": variant_of(inst), "label": lab, "actions": sol,
                           "real_accepts": acc, "verdicts": f})
        # the repaired checker model (all three omissions repaired) decides feasibility exactly (`checkR_fixed_iff`)
        if f.get("wf") == "1" and f.get("cStaticR") == "1" and f.get("fixed") in ("0", "1"):
            ctx.count("mtvrp.repaired-checker-model-vs-spec")
            if f["fixed"] != f.get("feas"):
                ctx.disagreement("mtvrp: repaired checker model differs from the Spec (contradicts checkR_fixed_iff)",
                                 {"inst": inst, "actions": sol, "verdicts": f})
        if f.get("feas") == "1" and not acc:
            emit(ctx, "mtvrp:checker-rejects-feasible" + classify_reject(ctx, ad, inst, sol, f),
                          "the real checker raises for a solution that is feasible by the Lean Spec",
                          {"inst": inst, "variant": variant_of(inst), "label": lab, "actions": sol, "verdicts": f})
        if f.get("feas") == "0" and acc:
            emit(ctx, "mtvrp:checker-accepts-infeasible" + classify_accept(ctx, ad, inst, sol, f),
                          "the real checker accepts a solution that is infeasible by the Lean Spec",
                          {"inst": inst, "variant": variant_of(inst), "label": lab, "actions": sol, "verdicts": f})
        ctx.sample({"env": "mtvrp", "label": lab, "variant": variant_of(inst), "inst": inst, "actions": sol,
                    "real_checker_accepts": acc, "spec_feasible": f.get("feas")}, cap=4)
        out.append((acc, f))
    return out


def _mixed_flags(rng, R):
    """feature flags (O, B, L, TW) for the R rows of a mixed batch: at least one open-route row and at least one
    closed-route row with a finite distance limit, the rest random; a third row (if any) closed with time windows"""
    fl = [[rng.random() < 0.5 for _ in range(4)] for _ in range(R)]
    fl[0][0] = True
    fl[1][0], fl[1][2] = False, True
    if R >= 3:
        fl[2][0], fl[2][3] = False, True
    fl = [tuple(f) for f in fl]
    rng.shuffle(fl)
    return fl


def _mixed_batch_checker(ctx, ad, env):
    """`check_solution_validity` is called on whole batches by `get_reward`: on MIXED batches (rows of different
    variants, speeds, capacities, limits) its verdict must be the conjunction of its verdicts on the rows — all rows
    fine ⇒ accepted; exactly one faulty row (every kind of single-fault corruption of the actions, every constraint
    tightened by one unit on the instance) ⇒ rejected.  Real batched verdict vs real row verdicts vs the Lean
    `checkBatch` model, rows judged by the Lean Spec."""
    total = ctx.budget(30, 300)
    for g in range(total):
        n = ctx.rng.choice([2, 3, 4, 6])
        R = ctx.rng.choice([2, 3, 4, 5])
        insts = [ad.gen_instance(ctx.rng, n, ctx.rng.choice(ad.kinds()), flags=fl) for fl in _mixed_flags(ctx.rng, R)]
        for k, i in enumerate(insts):  # roomy limits on some rows, so that routes of several customers get tightened
            if i["limit"] is not None and ctx.rng.random() < 0.5:
                insts[k] = dict(i, limit=i["limit"] + ctx.rng.choice([300, 1000, 2048]))
        try:
            td0, ep = envcorr.run_batch(ctx, ad, env, insts, extra_pad=ctx.rng.choice([0, 0, 1]))
        except envcorr.EpisodeFailed:
            continue
        L = len(ep.actions[0])
        base = [(insts[r], list(ep.actions[r])) for r in range(R)]
        variants = [("all-rows-mask-generated", None, base)]
        closed_limited = [r for r in range(R) if not insts[r]["open"] and insts[r]["limit"] is not None]
        others = [r for r in range(R) if r not in closed_limited]
        ctx.rng.shuffle(others)
        rows = list(range(R)) if ctx.tier == "thorough" else (closed_limited + others)[:3]
        for r in rows:
            inst, sol = base[r]
            for lab, sol2 in mt_corruptions(ad, ctx.rng, inst, sol):
                if len(sol2) == L:
                    variants.append((lab, r, base[:r] + [(inst, list(sol2))] + base[r + 1:]))
            for lab, i2 in tightened(inst, sol, ctx.rng):
                variants.append((lab, r, base[:r] + [(i2, sol)] + base[r + 1:]))
        # solo verdicts of every distinct (instance, actions) pair
        keyof = lambda i, a: (repr(i), tuple(a))
        distinct = {}
        for lab, r, rws in variants:
            for (i, a) in rws:
                distinct.setdefault(keyof(i, a), (i, "batch-row:" + lab, a))
        keys = list(distinct)
        verd = dict(zip(keys, _judge_cases(ctx, ad, env, [distinct[k] for k in keys])))
        lines = ["mtvrp.checkbatch " + " | ".join(ad.sections(i, a) for (i, a) in rws) for _, _, rws in variants]
        replies = ask_chunked(ctx, lines, ch=16)
        for (lab, r, rws), rep in zip(variants, replies):
            fb = parse_fields(rep)
            solo = [verd[keyof(i, a)][0] for (i, a) in rws]
            feas = [verd[keyof(i, a)][1].get("feas") for (i, a) in rws]
            if any(v is None for v in solo):
                continue
            tdb = env.reset(ad.to_td([i for (i, a) in rws]))
            accb = rl.checker_accepts(env, tdb, torch.tensor([a for (i, a) in rws], dtype=torch.long))
            expect = all(solo)
            ctx.case(("mtvrp", "mixed-batch", lab, r, repr(rws)))
            ctx.count(f"mtvrp.checker-batch.{'accept' if expect else 'reject'}-expected")
            ctx.count(f"mtvrp.checker-batch.fault={lab}")
            ctx.count(f"mtvrp.checker-batch.R={len(rws)}")
            ctx.count(f"mtvrp.checker-batch.open-rows={sum(1 for (i, a) in rws if i['open'])}")
            if fb.get("checkBatch") != ("1" if accb else "0"):
                ctx.disagreement("mtvrp: batched checker model differs from the real batched checker (mixed batch)",
                                 {"rows": [{"inst": i, "actions": a} for (i, a) in rws], "fault": lab, "real": accb, "model": fb})
            if accb != expect:
                bad = [k for k, v in enumerate(feas) if v == "0"]
                ctx.violation("mtvrp:checker-batch-differs-from-rows",
                              "the checker's verdict on a mixed batch is not the conjunction of its verdicts on the rows"
                              + (f" (the batch is accepted although row {bad[0]} is infeasible by the Lean Spec and rejected on its own)"
                                 if accb and bad else ""),
                              {"fault": lab, "fault_row": r, "batch_accepts": accb,
                               "rows": [{"variant": variant_of(i), "inst": i, "actions": a, "solo_accepts": sv, "spec_feasible": fv}
                                        for (i, a), sv, fv in zip(rws, solo, feas)]})


def _static_assert_cases(ctx, ad, env):
    """the checker's static asserts on the instance DATA (non-negative limit / windows / service times, window
    start < end, `start + d_j0 + service <= depot end`): model vs real verdict only — these are documented
    preconditions on the data, not constraints on the solution, so the Spec is not consulted"""
    total = ctx.budget(6, 40)
    for g in range(total):
        n = ctx.rng.choice([1, 2, 4])
        inst = ad.gen_instance(ctx.rng, n, "random", flags=(ctx.rng.random() < 0.5, 0, 1, 1))
        sol = []
        for c in range(1, n + 1):
            sol += [c, 0]
        j = ctx.rng.randint(1, n)
        variants = [("ok", inst)]
        e = list(inst["early"]); e[j] = inst["late"][j]
        variants.append(("window-start==end", dict(inst, early=e)))
        e = list(inst["early"]); e[j] = inst["late"][j] - 1
        variants.append(("window-width-1", dict(inst, early=e)))
        sv = list(inst["service"]); sv[j] = -8
        variants.append(("negative-service", dict(inst, service=sv)))
        e = list(inst["early"]); e[j] = -8
        variants.append(("negative-window-start", dict(inst, early=e)))
        variants.append(("negative-limit", dict(inst, limit=-8)))
        variants.append(("zero-limit", dict(inst, limit=0)))
        e = list(inst["early"]); e[0] = 8
        variants.append(("depot-window-start>0", dict(inst, early=e)))
        l = list(inst["late"]); l[0] = max(inst["early"][k] + T_tu(inst)[k][0] + inst["service"][k] for k in range(1, n + 1)) - 1
        if l[0] > 0:
            variants.append(("depot-end-one-below-static-need", dict(inst, late=l)))
        lines = [ad.line("check", i2, sol) for _, i2 in variants]
        for (lab, i2), rep in zip(variants, ask_chunked(ctx, lines)):
            f = parse_fields(rep)
            acc = rl.checker_accepts(env, env.reset(ad.to_td([i2])), torch.tensor([sol], dtype=torch.long))
            ctx.case(("mtvrp", "static", lab, repr(i2)))
            ctx.count(f"mtvrp.static.{lab}.{'accepted' if acc else 'rejected'}")
            if (f.get("check") == "1") != acc:
                ctx.disagreement("mtvrp: checker model differs from real checker (static asserts)",
                                 {"inst": i2, "label": lab, "actions": sol, "real_accepts": acc, "model": f})


def _batch_capacity_cases(ctx, ad, env):
    """batches whose rows have different vehicle capacities: the batched checker must agree with the row-wise verdicts
    (regression guard for upstream 0be4e8c: `_check_c1` used to compare every load with every row's capacity)"""
    total = ctx.budget(6, 60)
    for g in range(total):
        n = ctx.rng.choice([2, 3, 5])
        B = ctx.rng.choice([2, 3, 4])
        caps = [ctx.rng.choice([1, 2]) for _ in range(B)]
        if g % 2 == 0:
            caps[0], caps[1] = 2, 1
        insts = [ad.gen_instance(ctx.rng, n, "boundary", capmul=c) for c in caps]
        if g == 0:  # the Lean witness: capacity 2.0 with load 1.5 next to capacity 1.0 with load 0.5
            w = c06_witnesses()[0][1]
            insts = [dict(w, speed_exp=0, late=[None, None], capmul=2, dL=[0, 6]), dict(w, speed_exp=0, late=[None, None], dL=[0, 2])]
            caps, B = [2, 1], 2
        try:
            td0, ep = envcorr.run_batch(ctx, ad, env, insts)
        except envcorr.EpisodeFailed:
            continue
        acts = rl.actions_tensor(ep)
        acc_batch = rl.checker_accepts(env, env.reset(td0.clone()), acts)
        acc_rows = [rl.checker_accepts(env, env.reset(ad.to_td([insts[r]])), acts[r: r + 1]) for r in range(B)]
        line = "mtvrp.checkbatch " + " | ".join(ad.sections(insts[r], ep.actions[r]) for r in range(B))
        f = parse_fields(ctx.driver.ask(line))
        ctx.case(("mtvrp", "batch-caps", repr(insts), tuple(map(tuple, ep.actions))))
        ctx.count(f"mtvrp.batch-caps={'equal' if len(set(caps)) == 1 else 'unequal'}")
        if f.get("checkBatch") != ("1" if acc_batch else "0"):
            ctx.disagreement("mtvrp: batched checker model differs from the real batched checker",
                             {"insts": insts, "actions": ep.actions, "real": acc_batch, "model": f})
        if f.get("solo") != "".join("1" if a else "0" for a in acc_rows):
            ctx.disagreement("mtvrp: row-wise checker model differs", {"insts": insts, "actions": ep.actions, "real": acc_rows, "model": f})
        if all(acc_rows) and f.get("feas") == "1" * B and not acc_batch:
            emit(ctx, "mtvrp:checker-cross-row-capacity",
                 "every row is feasible and accepted on its own, but the batched checker raises (cross-row capacity comparison)",
                 {"insts": insts, "capacities": caps, "actions": ep.actions})
        elif acc_batch != all(acc_rows):
            ctx.violation("mtvrp:checker-batch-differs-from-rows",
                          "the batched checker differs from the conjunction of the row-wise verdicts",
                          {"insts": insts, "actions": ep.actions, "batch": acc_batch, "rows": acc_rows})



# ------------------------------------------------------------------------------------------------
# C12 clause: forced start nodes of MTVRPEnv.select_start_nodes are feasible and distinct per instance
# ------------------------------------------------------------------------------------------------
def run_c12(ctx):
    from rl4co.utils.ops import batchify

    ad = CountingAdapter(ctx)
    env = ad.make_env()
    total = ctx.budget(40, 400)
    for g in range(total):
        n = ctx.rng.choice([1, 2, 3, 5, 8])
        B = ctx.rng.choice([1, 2, 3, 5])
        k = ctx.rng.choice([1, 2, n, n, max(1, n - 1), n + 1, 2 * n + 1])
        insts = [ad.gen_instance(ctx.rng, n, ctx.rng.choice(ad.kinds())) for _ in range(B)]
        td = env.reset(ad.to_td(insts))
        sel = env.select_start_nodes(td, k).tolist()
        f = parse_fields(ctx.driver.ask(f"mtvrp.starts {n} {B} {k}"))
        model = [int(x) for x in f.get("starts", "").split(",") if x != ""]
        ctx.case(("mtvrp", "starts", n, B, k, repr(insts)))
        ctx.count(f"mtvrp.starts.{'k<=n' if k <= n else 'k>n'}")
        if sel != model:
            ctx.disagreement("mtvrp: select_start_nodes differs from the model", {"n": n, "B": B, "k": k, "real": sel, "model": model})
            continue
        tdk = batchify(td, k)  # k-major: copy s of instance b at row s * B + b
        mask = tdk["action_mask"]
        for row, a in enumerate(sel):
            b = row % B
            if not (1 <= a <= n) or not bool(mask[row, a]):
                ctx.violation("mtvrp:start-infeasible", "a forced start node is not offered by the mask of its instance's reset state",
                              {"inst": insts[b], "row": row, "start": a, "mask": rl.mask_str(mask[row]), "n": n, "B": B, "k": k})
        if k <= n:
            for b in range(B):
                mine = [sel[s_ * B + b] for s_ in range(k)]
                if len(set(mine)) != k:
                    ctx.violation("mtvrp:start-duplicate", "forced starts of one instance are not pairwise distinct although k <= n",
                                  {"inst": insts[b], "starts": mine, "n": n, "B": B, "k": k})
        # the forced first step, then a mask-confined episode: still a feasible solution (C01 through the forced start)
        if g % 4 == 0:
            rep = [insts[r % B] for r in range(k * B)]
            try:
                td0, ep = envcorr.run_batch(ctx, ad, env, rep, forced=[[a] for a in sel])
            except envcorr.EpisodeFailed:
                continue
            replies = ask_chunked(ctx, [ad.line("episode", rep[r], ep.actions[r]) for r in range(len(rep))])
            for r in range(len(rep)):
                fr = envcorr.compare_trace(ctx, ad, rep[r], ep.actions[r], ep.masks[r], ep.done[r], replies[r], "C12 forced start")
                if fr.get("feas") == "0":
                    ctx.violation("mtvrp:infeasible-episode", "episode with a forced start is infeasible by the Lean Spec",
                                  {"inst": rep[r], "actions": ep.actions[r]})


# ------------------------------------------------------------------------------------------------
# C19 clause: load_data (scale flag) and the demand unit
# ------------------------------------------------------------------------------------------------
def to_td_raw(ad, insts):
    """the same instances with demands and capacity in RAW units (what the generator writes with scale_demand=False)"""
    td = ad.to_td(insts)
    f32 = torch.float32
    td["demand_linehaul"] = torch.tensor([[float(d) for d in i["dL"]] for i in insts], dtype=f32)
    td["demand_backhaul"] = torch.tensor([[float(d) for d in i["dB"]] for i in insts], dtype=f32)
    td["vehicle_capacity"] = torch.tensor([[float(i["C"] * i["capmul"])] for i in insts], dtype=f32)
    td["capacity_original"] = torch.tensor([[float(i["C"] * i["capmul"])] for i in insts], dtype=f32)
    return td


def _same_episode(ctx, env, td_a, td_b, what, insts):
    """drive both batches with the same (uniformly chosen) actions; returns the first difference or None"""
    ta, tb = env.reset(td_a.clone()), env.reset(td_b.clone())
    B = ta.batch_size[0]
    for t in range(40 * (insts[0]["n"] + 2)):
        ma, mb = ta["action_mask"], tb["action_mask"]
        if not torch.equal(ma, mb):
            r = int((ma != mb).any(-1).nonzero()[0])
            return {"step": t, "row": r, "inst": insts[r], "mask_a": rl.mask_str(ma[r]), "mask_b": rl.mask_str(mb[r])}
        if not torch.equal(ta["done"], tb["done"]):
            return {"step": t, "done_a": ta["done"].flatten().tolist(), "done_b": tb["done"].flatten().tolist()}
        if bool(ta["done"].all()):
            return None
        acts = [ctx.rng.choice([j for j, b in enumerate(ma[r].tolist()) if b]) for r in range(B)]
        ta.set("action", torch.tensor(acts)); tb.set("action", torch.tensor(acts))
        ta, tb = env.step(ta)["next"], env.step(tb)["next"]
    return None


def run_c19(ctx):
    import tempfile
    from rl4co.envs.routing.mtvrp.generator import MTVRPGenerator

    ad = CountingAdapter(ctx)
    env = ad.make_env()
    total = ctx.budget(24, 200)
    tmp = tempfile.mkdtemp(prefix="mtvrp_c19_")
    try:
        for g in range(total):
            n = ctx.rng.choice([2, 3, 5, 8])
            B = ctx.rng.choice([1, 2, 4])
            cm = ctx.rng.choice([1, 2])
            insts = [ad.gen_instance(ctx.rng, n, ctx.rng.choice(ad.kinds()), capmul=cm) for _ in range(B)]
            if g == 0:  # minimal witness: demands 3 and 3, capacity 4
                insts = [{"kind": "witness", "n": 2, "pts": [(0, 0), (128, 0), (256, 0)], "open": False, "speed_exp": 0, "C": 4,
                          "capmul": 1, "dL": [0, 3, 3], "dB": [0, 0, 0], "limit": None, "early": [0, 0, 0],
                          "late": [None, None, None], "service": [0, 0, 0]}]
            td_norm, td_raw = ad.to_td(insts), to_td_raw(ad, insts)
            ctx.case(("mtvrp", "c19", repr(insts)))
            # (a) theorem env_scaleDem on the real code: raw units vs normalised units
            diff = _same_episode(ctx, env, td_norm, td_raw, "unit", insts)
            if diff is not None:
                ctx.disagreement("mtvrp: the real env depends on the demand unit (model: env_scaleDem)", diff)
            # (b) save / load round trip, scale=False: identical tensors, identical behaviour
            path = os.path.join(tmp, f"g{g}.npz")
            MTVRPGenerator.save_data(td_raw, path)
            tl = env.load_data(path, scale=False)
            for key in td_raw.keys():
                if key not in tl.keys() or not torch.equal(tl[key], td_raw[key]):
                    ctx.violation("mtvrp:load-data:roundtrip", f"key {key!r} differs after save_data / load_data(scale=False)",
                                  {"insts": insts, "key": key})
            diff = _same_episode(ctx, env, td_raw, tl, "roundtrip", insts)
            if diff is not None:
                ctx.violation("mtvrp:load-data:roundtrip", "masks differ after save_data / load_data(scale=False)", diff)
            # (c) scale=True: demands divided by capacity_original (model `loadDemand`) …
            ts = env.load_data(path, scale=True)
            for key in ("demand_linehaul", "demand_backhaul"):
                want = td_raw[key] / td_raw["capacity_original"]
                if not torch.equal(ts[key], want):
                    ctx.disagreement("mtvrp: load_data(scale=True) demand differs from demand / capacity_original",
                                     {"key": key, "insts": insts})
            ctx.count(f"mtvrp.c19.loaded-capacity={'1' if bool((ts['vehicle_capacity'] == 1).all()) else 'raw'}")
            # … and the loaded instance must still be the stored problem (same masks along any action sequence)
            diff = _same_episode(ctx, env, td_raw, ts, "scaled", insts)
            if diff is not None:
                emit(ctx, "mtvrp:load-data-scale:capacity-not-normalised",
                     "load_data(scale=True) divides the demands by capacity_original but leaves vehicle_capacity (which _reset "
                     "takes from the data) unchanged: the loaded instance has different masks than the stored one",
                     dict(diff, vehicle_capacity_loaded=ts["vehicle_capacity"].flatten().tolist(),
                          demand_loaded=ts["demand_linehaul"].tolist()))
    finally:
        import shutil
        shutil.rmtree(tmp, ignore_errors=True)


MODEL_NOTE = ("MTVRPEnv modelled per instance over integer ticks (Rl4co/Env/Mtvrp.lean), one model for all 16 variants "
              "(feature valuation: open_route, finite/infinite distance_limit, finite/infinite time windows, backhaul demands); "
              "`inf` is `none : Option Int`; coordinates→distance arithmetic, `distance / speed` and float32 rounding are outside "
              "the model (exact-stream instances make them exact: integral point sets, dyadic demands/times, speeds 1, 2, 1/2)")


def _exists(rel):
    return os.path.exists(os.path.join(LEAN_DIR, rel))


def _thms(rel, thms):
    return thms if _exists(rel) else []


def _mods(rel, mod):
    return [mod] if _exists(rel) else []


NO_THM = "no theorem yet: correspondence + spec oracle only"

register(Unit("C01", "mtvrp", run_c01, drivers=["drv_mtvrp"],
              lean_modules=["Rl4co.Props.C01.Mtvrp", "Rl4co.Props.C01.MtvrpSpec", "Rl4co.Proofs.MtvrpGenerated"],
              theorems=[Theorem("Rl4co.Mtvrp.feasible_of_run", "proved",
                                "every mask-confined finished MTVRP episode is Spec-feasible, for every feature valuation (all 16 variants)"),
                        Theorem("Rl4co.Mtvrp.step_def", "proved", "translator tie: `_step` (reset guard `!=`, clock `distance / speed`) as extracted = the plain form used by the proofs"),
                        Theorem("Rl4co.Mtvrp.mask_def", "proved", "translator tie: depot rule `~((curr_node == 0) & (sum > 0))` as extracted = the plain form"),
                        Theorem("Rl4co.Mtvrp.canVisitGen_eq", "proved", "statement-level translation of get_action_mask (Generated/MtvrpEnv.lean) = the model's canVisit"),
                        Theorem("Rl4co.Mtvrp.stepGen_eq", "proved", "statement-level translation of _step = the model's step"),
                        Theorem("Rl4co.Mtvrp.feasible_of_run_gen", "proved", "C01 restated on the environment built from the generated definitions"),
                        Theorem("Rl4co.Mtvrp.exists_feasible_of_wf", "proved", "Spec sanity: every wf instance has a feasible solution (each customer on its own route)"),
                        Theorem("Rl4co.Mtvrp.wf_solvable", "proved", "… which is canonical, hence a finished mask-confined run (wf metric instance)"),
                        Theorem("Rl4co.Mtvrp.objective_nonneg", "proved", "Spec sanity: the objective is non-negative when distances are"),
                        Theorem("Rl4co.Mtvrp.objective_snoc_zero", "proved", "Spec sanity: trailing depot padding does not change the objective")],
              assumptions=[MODEL_NOTE]))
register(Unit("C02", "mtvrp", run_c02, drivers=["drv_mtvrp"],
              lean_modules=["Rl4co.Props.C02.Mtvrp", "Rl4co.Props.C18.MtvrpWf", "Rl4co.Proofs.MtvrpGenerated"],
              theorems=[Theorem("Rl4co.Mtvrp.mask_nonempty", "proved", "every state offers an action"),
                        Theorem("Rl4co.Mtvrp.done_stable", "proved", "done is absorbing"),
                        Theorem("Rl4co.Mtvrp.steps_le", "proved",
                                "an unfinished mask-confined run has at most 2n+1 steps (wf instance: every customer servable on its own, "
                                "deadlines/capacity/limit may be met with equality)"),
                        Theorem("Rl4co.Mtvrp.progress", "proved", "an unfinished reachable state has an admitted action and stays inside the bound"),
                        Theorem("Rl4co.Mtvrp.steps_le_gen", "proved", "the step bound restated on the environment built from the generated definitions"),
                        Theorem("Rl4co.Mtvrp.gen_wf_mtvrp", "proved",
                                "generator post-conditions (C18: mtvrp_window, distance-limit assertion, demands_kind), scaled to ticks ⇒ wf"),
                        Theorem("Rl4co.Mtvrp.gen_steps_le", "proved", "generator ⇒ wf ⇒ every episode on a generated instance finishes within 2n+1 steps"),
                        Theorem("Rl4co.Mtvrp.gen_progress", "proved", "… and an unfinished state of a generated instance always has an admitted action"),
                        Theorem("Rl4co.Mtvrp.preset_chain", "proved",
                                "for each of the 16 preset names: preset in the table ⇒ exactly the named features ⇒ generated instances are wf ⇒ ≤ 2n+1 steps, no dead end"),
                        Theorem("Rl4co.Mtvrp.genPost_genInstF", "proved", "non-vacuity: for every one of the 16 feature sets a generator image with exactly those features exists"),
                        Theorem("Rl4co.Mtvrp.preset_instance_solvable", "proved", "… and it is wf and finishes within 2n+1 = 3 steps")],
              assumptions=[MODEL_NOTE, "the chain's conclusion is also run on real generator output (float32, every preset)"]))
register(Unit("C03", "mtvrp", run_c03, drivers=["drv_mtvrp"],
              lean_modules=["Rl4co.Props.C03.Mtvrp"],
              theorems=[Theorem("Rl4co.Mtvrp.reward_eq_objective", "proved",
                                "reward = −(sum of route lengths, return legs not charged for open routes) for every action list"),
                        Theorem("Rl4co.Mtvrp.reward_def", "proved", "translator tie: roll shift −1 and `(go_to == 0) & open_route` as extracted = the roll idiom used by the proof")],
              assumptions=[MODEL_NOTE]))
register(Unit("C04", "mtvrp", run_c04, drivers=["drv_mtvrp"],
              lean_modules=["Rl4co.Props.C04.Mtvrp"],
              theorems=[Theorem("Rl4co.Mtvrp.pad_noop", "proved",
                                "a depot padding step after done changes neither done, mask nor reward")],
              assumptions=[MODEL_NOTE, "the batched code is compared row-wise against the per-instance model"]))
register(Unit("C05", "mtvrp", run_c05, drivers=["drv_mtvrp"],
              lean_modules=["Rl4co.Props.C05.Mtvrp"],
              theorems=[Theorem("Rl4co.Mtvrp.run_of_feasible", "proved",
                                "every canonical Spec-feasible solution (equality allowed on deadlines, capacities and the distance limit) is a "
                                "mask-confined finished run (wf + metric instance; all feature valuations)"),
                        Theorem("Rl4co.Mtvrp.reach_same_objective", "proved", "every feasible solution (any shape) has a mask-reachable finished run of the same objective"),
                        Theorem("Rl4co.Mtvrp.opt_reachable", "proved", "∃ finished mask-confined run attaining the optimum over ALL feasible solutions ∧ no finished run is better"),
                        Theorem("Rl4co.Mtvrp.reward_set_eq", "proved", "rewards reachable through the mask = { −objective bs | bs feasible }")],
              assumptions=[MODEL_NOTE, "Canonical = no depot→depot move and at least one depot visit (the documented pruning)"]))
register(Unit("C06", "mtvrp", run_c06, drivers=["drv_mtvrp"],
              lean_modules=["Rl4co.Props.C06.Mtvrp", "Rl4co.Props.C06.MtvrpRepaired"],
              theorems=[Theorem("Rl4co.Mtvrp.check_complete_partial", "partial",
                                "Spec-feasible ⇒ checker accepts (any speed), provided that for open routes the depot stays open after the deadlines"),
                        Theorem("Rl4co.Mtvrp.check_sound_partial", "partial",
                                "checker accepts ⇒ Spec-feasible (any speed), provided routes are linehaul-before-backhaul and closed-route lists end at the depot"),
                        Theorem("Rl4co.Mtvrp.check_complete_counterexample_open", "proved", "¬ completeness: depot deadline applied to open routes"),
                        Theorem("Rl4co.Mtvrp.check_sound_counterexample", "proved", "¬ soundness: backhaul-before-linehaul accepted"),
                        Theorem("Rl4co.Mtvrp.check_sound_counterexample_final_leg", "proved", "¬ soundness: last route's way back not tested without a final depot"),
                        Theorem("Rl4co.Mtvrp.checkBatch_eq_all", "proved", "batched checker = conjunction of the row-wise checkers, for any capacities"),
                        Theorem("Rl4co.Mtvrp.check_iff", "proved",
                                "checker accepts ⇔ Spec.Mtvrp.Accepted (= Feasible with exactly the three known omissions): the accepted set, exactly"),
                        Theorem("Rl4co.Mtvrp.check_iff_feasible", "proved", "when the three omissions cannot matter the checker decides feasibility exactly"),
                        Theorem("Rl4co.Mtvrp.accepted_iff_feasible", "proved", "… and Accepted = Feasible"),
                        Theorem("Rl4co.Mtvrp.checkR_fixed_iff", "proved", "the checker with its three omissions repaired accepts exactly the feasible solutions"),
                        Theorem("Rl4co.Mtvrp.checkR_sound", "proved", "any subset of repairs: accepted ⇒ feasible under the provisos of the repairs that are off"),
                        Theorem("Rl4co.Mtvrp.checkR_complete", "proved", "any subset of repairs: feasible ⇒ accepted (depot-slack proviso only while the open-route repair is off)")],
              assumptions=[MODEL_NOTE, "FINDINGS (not fixed upstream): the checker applies the depot deadline to open routes, never tests the "
                           "backhaul order, and does not test the last route's way back when the list does not end at the depot; each has a "
                           "Lean counterexample, a partial theorem and a witness replayed on the real code"]))
register(Unit("C12", "mtvrp", run_c12, drivers=["drv_mtvrp"],
              lean_modules=["Rl4co.Props.C12.Mtvrp"],
              theorems=[Theorem("Rl4co.Mtvrp.startNode_row", "proved", "copy s of instance b (row s·B + b) is forced to start at customer s mod n + 1"),
                        Theorem("Rl4co.Mtvrp.startNode_range", "proved", "every forced start is a customer index in 1..n"),
                        Theorem("Rl4co.Mtvrp.startNode_distinct", "proved", "the k ≤ n forced starts of one instance are pairwise distinct"),
                        Theorem("Rl4co.Mtvrp.start_admitted", "proved", "on a wf instance every forced start is offered by the mask of the reset state (all variants)")],
              assumptions=[MODEL_NOTE, "select_start_nodes override of MTVRPEnv modelled as `startNode`; modulus and offset extracted from the source"]))
register(Unit("C19", "mtvrp", run_c19, drivers=["drv_mtvrp"],
              lean_modules=["Rl4co.Props.C19.Mtvrp"],
              theorems=[Theorem("Rl4co.Mtvrp.load_data_demand", "proved", "load_data: demand / capacity_original with scale=True, unchanged otherwise"),
                        Theorem("Rl4co.Mtvrp.feasible_scaleDem", "proved", "rescaling both demand kinds and the capacity by k > 0 keeps the feasible set"),
                        Theorem("Rl4co.Mtvrp.env_scaleDem", "proved", "… and masks, finishing step and reward along every action list"),
                        Theorem("Rl4co.Mtvrp.load_scale_counterexample", "proved", "¬ load_scale_statement: load_data(scale=True) (capacity not rescaled) changes the feasible set"),
                        Theorem("Rl4co.Mtvrp.load_scale_relaxes", "partial", "the loaded instance is a relaxation of the stored one (stored-feasible ⇒ loaded-feasible)"),
                        Theorem("Rl4co.Mtvrp.load_scale_repaired", "proved", "with the capacity rescaled as well the loaded instance IS the stored problem")],
              assumptions=[MODEL_NOTE, "FINDING: load_data(scale=True) does not rescale vehicle_capacity (replayed on the real code)"]))
