"""Prize-collecting routing units (C01–C06): real `OPEnv`, `PCTSPEnv`, `SPCTSPEnv` vs the Lean models
`Rl4co.Op`, `Rl4co.Pctsp` vs the independent specs `Rl4co.Spec.Op`, `Rl4co.Spec.Pctsp`.

Exact stream: integral point sets (geom.py), dyadic prizes/penalties, budgets `max_length` chosen so that
some tour has length exactly `max_length` (and ± 2^-20, ± 2^-19 around it), prize rows some subset of
which sums to exactly 1 (and 1 − k·2^-20).  OP's per-node budgets `max_length − dist − 1e-6` (and the
checker's `… + dist + 1e-6 + 1e-5`) involve non-dyadic constants: they are read back from the real
reset state, converted exactly (unit 2^-44) and handed to the model as data; the pre-computation
itself is compared with the exact rational value to one ulp (glue).
"""
from __future__ import annotations

import itertools
import math
import os
from fractions import Fraction
from typing import List

import envcorr
import geom
import rl
from common import LEAN_DIR, Theorem, Unit, register
from leanio import parse_fields
from rl import TensorDict, torch

# ---------------------------------------------------------------------------------------------------
# exact unit conversion for OP (float32 budgets are not on the 2^-20 grid)
# ---------------------------------------------------------------------------------------------------
OP_BITS = 44
OP_UNIT = 1 << OP_BITS
GRID_TO_OP = 1 << (OP_BITS - geom.GRID_BITS)
T20_TO_OP = 1 << (OP_BITS - 20)
PRIZE_DEN = 64  # OP prizes are k/64


def op_margin_units(L: Fraction, d: Fraction) -> int:
    """the code's 1e-6 margin plus one float32 ulp at the magnitude of the operands, in units"""
    return math.ceil((Fraction(1, 10**6) + ulp32(float(max(L, d, Fraction(1, 1 << 10))))) * OP_UNIT)

TOL_OP = math.floor(Fraction(2, 10**5) * OP_UNIT)  # "beyond rounding tolerance" for the OP checker: 2e-5


def op_units(x) -> int:
    """exact float → integer in units of 2^-44 (raises when the value is not on that grid)"""
    fr = Fraction(float(x)) * OP_UNIT
    if fr.denominator != 1:
        raise ValueError(f"value {float(x)!r} is not on the 2^-{OP_BITS} grid")
    return int(fr)


def ulp32(x: float) -> Fraction:
    x = abs(x)
    if x == 0:
        return Fraction(1, 1 << 149)
    e = math.floor(math.log2(x))
    return Fraction(2) ** (e - 23)


def ordered_subsets(n: int, kmin: int = 0):
    for k in range(kmin, n + 1):
        for sub in itertools.permutations(range(1, n + 1), k):
            yield list(sub)


def f32_exact_20(v20: int) -> int:
    """nearest value (in 2^-20 units) that float32 represents exactly — what `torch.tensor(v, float32)` will hold"""
    import numpy as np

    r = float(np.float32(v20 / rl.SCALE)) * rl.SCALE
    assert r == int(r)
    return int(r)


def place(rng, pts, big: bool):
    """(c) magnitudes: scale the unit box by a power of two and shift it by whole units (both exact on the
    2^-10 grid; distances scale by the same power of two, so float32 norms stay exact)"""
    s = 1 if big else rng.choice([1, 1, 1, 2, 4])
    ox, oy = (rng.choice([0, 0, 1, 3, -2]) * geom.GRID, rng.choice([0, 0, 2, -1]) * geom.GRID)
    return [(x * s + ox, y * s + oy) for (x, y) in pts], s


_BIG = [0]


def sizes_with_large(tier: str) -> List[int]:
    """(c) sizes: about one batch in eight uses n = 30..50"""
    _BIG[0] += 1
    big = 30 + (_BIG[0] * 7) % 21
    return [2, 3, 5, 8, 2, 3, 5, big] if tier == "quick" else [1, 2, 3, 5, 8, 13, 20, big]


def tour_len_grid(D, tour: List[int]) -> int:
    seq = [0] + list(tour) + [0]
    return sum(D[a][b] for a, b in zip(seq, seq[1:]))


def _reward_or_pending(ad, env, td, actions):
    """reward of a (mask-generated) batch; with `check_solution=True` (a variant) through the public `get_reward`, which
    validates first.  An assertion raised here means no reward is reported for a mask-generated batch: remembered and
    reported as a violation by `with_glue` (the generic routine treats the ValueError as a skipped case)."""
    try:
        return env.get_reward(td, actions) if getattr(env, "check_solution", False) else env._get_reward(td, actions)
    except AssertionError as e:
        ad.__dict__.setdefault("_pending", []).append({"error": str(e), "actions": actions.tolist()})
        raise ValueError(f"get_reward raised on a mask-generated batch: {e}")


# ---------------------------------------------------------------------------------------------------
# OP
# ---------------------------------------------------------------------------------------------------
class OpAdapter(envcorr.Adapter):
    name = "op"
    reward_sign = +1

    def __init__(self):
        self._env = None
        self._rb = {}

    GEN_L = 2.0

    def make_env(self, gen_L=None, prize_type="dist", check_solution=False, torchrl=False, box=None, **kw):
        from rl4co.envs.routing.op.env import OPEnv

        gp = dict(num_loc=5, max_length=self.GEN_L if gen_L is None else gen_L, prize_type=prize_type)
        if box is not None:
            gp.update(min_loc=box[0], max_loc=box[1])
        return OPEnv(generator_params=gp, prize_type=prize_type, check_solution=check_solution, _torchrl_mode=torchrl)

    def variants(self):
        # (b) env / generator options otherwise left at their defaults; (a) the generator's own `max_length` lies
        # below AND above the instances' per-row `max_length`, which is what `_reset` must read
        return [{}, {"gen_L": 0.125}, {"gen_L": 0.5, "prize_type": "unif"}, {"gen_L": 16.0, "prize_type": "const"},
                {"check_solution": True}, {"torchrl": True, "gen_L": 0.25}, {"box": (-2.0, 6.0), "gen_L": 1.0}]

    def sizes(self, tier):
        return sizes_with_large(tier)

    def n_of(self, inst):
        return inst["n"]

    def kinds(self):
        return ["random", "random", "eq", "eq", "below-margin", "above-margin", "short", "tiny", "cluster", "roomy"]

    def gen_instance(self, rng, n, kind="random", **var):
        pts, scale = place(rng, geom.gen_points(rng, n + 1), big=n > 20)
        D = geom.dist_matrix(pts)
        pmul = rng.choice([1, 1, 1, 100])  # (c) prize magnitudes: up to 1.0 or up to 100.0
        prize = [rng.randint(0, PRIZE_DEN) * pmul for _ in range(n)]
        k = rng.randint(1, min(n, 8)) if n >= 1 else 0
        tour = rng.sample(range(1, n + 1), k)
        T = tour_len_grid(D, tour) << 10  # in 2^-20 units
        dmax = max(D[0]) << 10
        if kind == "eq":
            L = T
        elif kind == "below-margin":  # slack 2^-20 ≈ 0.95e-6 < 1e-6
            L = T + 1
        elif kind == "above-margin":  # slack 2^-19 ≈ 1.9e-6 > 1e-6
            L = T + 2
        elif kind == "short":  # the tour misses the budget by 2^-20 (within the checker tolerance) or 2^-15 (beyond)
            L = max(0, T - rng.choice([1, 1 << 5]))
        elif kind == "tiny":
            L = rng.choice([0, 1, max(0, 2 * min(D[0][1:] or [0]) << 10), rng.randint(0, 2 * dmax + 1)])
        elif kind == "cluster" and n >= 2:
            # budget = length of a customer-only cycle (shorter than the same tour through the depot)
            cyc = rng.sample(range(1, n + 1), rng.randint(2, min(n, 8)))
            L = sum(D[a][b] for a, b in zip(cyc, cyc[1:] + cyc[:1])) << 10
        elif kind == "roomy":  # budget far above anything the env's generator is configured with
            L = 2 * T + 4 * dmax + (rng.randint(1, 8) << 20)
        else:
            L = rng.randint(0, max(1, 2 * T + (dmax >> 1)))
        return {"kind": kind, "n": n, "pts": pts, "prize": prize, "L20": f32_exact_20(L), "ref": tour,
                "var": tuple(sorted(var.items()))}

    def steering_prefix(self, rng, inst):
        """drive half of the C01 episodes along the reference tour whose length sits at the budget boundary"""
        return (inst["ref"] + [0]) if rng.random() < 0.5 else None

    def to_td(self, insts):
        B = len(insts)
        locs = torch.tensor([geom.to_unit(i["pts"][1:]) for i in insts], dtype=torch.float32).reshape(B, -1, 2)
        depot = torch.tensor([geom.to_unit(i["pts"][:1])[0] for i in insts], dtype=torch.float32)
        prize = torch.tensor([[p / PRIZE_DEN for p in i["prize"]] for i in insts], dtype=torch.float32).reshape(B, -1)
        L = torch.tensor([i["L20"] / rl.SCALE for i in insts], dtype=torch.float32)
        return TensorDict({"locs": locs, "depot": depot, "prize": prize, "max_length": L}, batch_size=[B])

    # ---- read-back of the pre-computed budgets (DESIGN §3.2) ---------------------------------------
    def readback(self, inst):
        key = (tuple(inst["pts"]), inst["L20"], inst.get("var", ()))
        if key in self._rb:
            return self._rb[key]
        td = self.env_for(dict(inst.get("var", ()))).reset(self.to_td([inst]))
        budget_f = td["max_length"][0]
        # exact-stream re-assertion: the distances the real code computes are the integral ones
        d_real = (td["locs"][..., 0:1, :] - td["locs"]).norm(p=2, dim=-1)[0].tolist()
        if [v * geom.GRID for v in d_real] != [float(v) for v in geom.dist_matrix(inst["pts"])[0]]:
            raise ValueError("instance is not on the exact stream (float32 distance differs from the integral one)")
        # the checker's bound, computed with the checker's own float32 expression
        cb_f = (td["max_length"] + (td["locs"][..., 0:1, :] - td["locs"]).norm(p=2, dim=-1) + 1e-6)[0] + 1e-5
        budget = [op_units(v) for v in budget_f.tolist()]
        cbound = [op_units(v) for v in cb_f.tolist()]
        # tie: the hypotheses the theorems make about these data (exact rational comparison)
        #   WF.budget_le (C01)            budget_j ≤ L − D j 0
        #   MarginLe eps (C05 partial)    L − D j 0 − eps ≤ budget_j,  eps = 1e-6 + one float32 ulp
        #   check_complete / check_sound_partial (C06)   L ≤ cbound_j ≤ L + TOL
        # glue (reported, not a tie): budget_j = L − D j 0 − 1e-6 and cbound_j = L + 1e-5 to one ulp
        D = geom.dist_matrix(inst["pts"])
        Lq = Fraction(inst["L20"], rl.SCALE)
        hyp_fail, glue_off = {"C01": [], "C05": [], "C06": []}, False
        for j in range(inst["n"] + 1):
            dq = Fraction(D[0][j], geom.GRID)
            bq, cq = Fraction(budget[j], OP_UNIT), Fraction(cbound[j], OP_UNIT)
            if j >= 1 and bq > Lq - dq:
                hyp_fail["C01"].append(f"WF.budget_le fails at node {j}: budget − (L − D j 0) = {float(bq - (Lq - dq)):.3g}")
            if j >= 1 and Lq - dq - Fraction(op_margin_units(Lq, dq), OP_UNIT) > bq:
                hyp_fail["C05"].append(f"MarginLe fails at node {j}: (L − D j 0) − budget = {float(Lq - dq - bq):.3g} > 1e-6 + one ulp")
            if not (Lq <= cq <= Lq + Fraction(self.tol_units(inst), OP_UNIT)):
                hyp_fail["C06"].append(f"checker bound at node {j}: cbound − L = {float(cq - Lq):.3g} not in [0, 2e-5 + 2 ulp]")
            if abs(bq - (Lq - dq - Fraction(1, 10**6))) > ulp32(float(Lq - dq)) + Fraction(1, 10**12):
                glue_off = True
            if abs(cq - (Lq + Fraction(1, 10**5))) > 4 * ulp32(float(max(Lq, dq)) + 1e-5) + Fraction(1, 10**12):
                glue_off = True
        self._rb[key] = (budget, cbound, (hyp_fail, glue_off), inst)
        return self._rb[key]

    def tol_units(self, inst) -> int:
        """"beyond rounding tolerance" for the OP checker: 2e-5 plus two float32 ulps at the magnitude of L"""
        return TOL_OP + math.ceil(2 * ulp32(max(inst["L20"] / rl.SCALE, 2.0 ** -10)) * OP_UNIT)

    def line(self, op, inst, actions):
        n = inst["n"]
        budget, cbound = self.readback(inst)[:2]
        D = geom.dist_matrix(inst["pts"])
        flat = [v * GRID_TO_OP for row in D for v in row]
        prize = [p * (OP_UNIT // PRIZE_DEN) for p in inst["prize"]]
        j = lambda xs: " ".join(map(str, xs))
        rho = math.ceil(ulp32(max(inst["L20"] / rl.SCALE, max(D[0]) / geom.GRID, 2.0 ** -10)) * OP_UNIT)
        return (f"op.{op} {n} {inst['L20'] * T20_TO_OP} {self.tol_units(inst)} {OP_UNIT} {rho} | {j(prize)} | {j(flat)} | {j(budget)} | "
                f"{j(cbound)} | {j(actions)}")

    def real_reward_ticks(self, env, td, actions):
        # with `check_solution=True` (a variant) go through the public `get_reward`, which validates first
        r = _reward_or_pending(self, env, td, actions)
        return [op_units(v) for v in r.flatten().tolist()]

    def step_bound(self, inst):
        return max(inst["n"] + 1, 2)

    def handbuilt(self, rng, inst):
        n = inst["n"]
        D = geom.dist_matrix(inst["pts"])
        L = inst["L20"]
        out = [("empty-tour", [0, 0]), ("single-depot", [0]),
               # the reference tour: length = budget ("eq"), budget − 2^-20 / − 2^-19, budget + 2^-20 / + 2^-15 ("short")
               ("ref-tour", inst["ref"] + [0]), ("ref-tour-no-final-depot", list(inst["ref"])),
               ("ref-tour-padded", inst["ref"] + [0, 0])]
        subs = []
        for _ in range(4):
            k = rng.randint(1, n)
            subs.append(rng.sample(range(1, n + 1), k))
        # a tour that fits, if one exists among the samples or single customers
        fits = [s for s in subs + [[c] for c in range(1, n + 1)] if (tour_len_grid(D, s) << 10) <= L]
        for s in fits[:2]:
            out += [("fits-final-depot", s + [0]), ("fits-no-final-depot", s), ("fits-trailing-depots", s + [0, 0, 0]),
                    ("fits-leading-depot", [0] + s + [0])]
            if len(s) >= 2:
                out.append(("fits-depot-in-middle", s[:1] + [0] + s[1:] + [0]))
        for s in subs[:3]:
            out += [("subset-final-depot", s + [0]), ("subset-no-final-depot", s), ("subset-leading-depot", [0] + s)]
        return out

    def enumerate_solutions(self, inst):
        for sub in ordered_subsets(inst["n"]):
            yield (sub + [0]) if sub else [0, 0]

    # ---- the minimal witnesses of the two known findings, replayed first on every run ---------------
    def fixed_instances(self):
        return [{"kind": "known-finding-C05", "n": 1, "pts": [(512, 512), (768, 512)], "prize": [PRIZE_DEN],
                 "L20": 1 << 19, "ref": [1], "var": ()}]

    def fixed_cases(self):
        inst = {"kind": "known-finding-C06", "n": 2, "pts": [(512, 512), (768, 512), (784, 512)],
                "prize": [PRIZE_DEN // 2, PRIZE_DEN // 2], "L20": 1 << 18, "ref": [1, 2], "var": ()}
        return [(inst, "known-finding-open-tour", [1, 2]), (inst, "known-finding-closed-tour", [1, 2, 0])]

    # ---- classification of property failures into stable keys --------------------------------------
    def hidden_key(self, inst, sol, f, blocked_at=None):
        """known finding only when the blocked step is explained by the 1e-6 margin: the tour closed right after the
        blocked customer uses the budget up to less than (1e-6 + one ulp); any other hidden solution is fresh"""
        D = geom.dist_matrix(inst["pts"])
        if blocked_at is not None and sol[blocked_at] != 0:
            closing = tour_len_grid(D, sol[: blocked_at + 1]) << 10  # 2^-20 units, exact
            room = (inst["L20"] - closing) * T20_TO_OP
            if 0 <= room <= op_margin_units(Fraction(inst["L20"], rl.SCALE), Fraction(max(D[0]), geom.GRID)):
                return "op:mask-hides-feasible:slack-within-1e-6-margin"
        return "op:mask-hides-feasible"

    def batch_key(self, width):
        """(the single-column case was the finding op-checker-single-column-batch-C06, fixed upstream by 9be001b: the
        suffix is diagnostic only, a reappearance is a plain violation)"""
        return "op:checker-batch-differs-from-rows" + (":single-column" if width == 1 else "")

    def accepts_key(self, inst, sol, f):
        """known finding only when the acceptance is explained by the missing depot legs: the list neither starts
        nor ends at the depot, is in range without repeated customers, and the cycle through the listed nodes
        alone fits the budget (+ tolerance); any other accepted infeasible list is fresh"""
        n = inst["n"]
        if sol and sol[0] != 0 and sol[-1] != 0 and all(0 <= a <= n for a in sol):
            cust = [a for a in sol if a != 0]
            D = geom.dist_matrix(inst["pts"])
            cyc = sum(D[a][b] for a, b in zip(sol, sol[1:] + sol[:1])) << 10
            if len(set(cust)) == len(cust) and cyc * T20_TO_OP <= inst["L20"] * T20_TO_OP + self.tol_units(inst):
                return "op:checker-accepts-infeasible:tour-not-closed-at-depot"
        return "op:checker-accepts-infeasible"


# ---------------------------------------------------------------------------------------------------
# PCTSP / SPCTSP
# ---------------------------------------------------------------------------------------------------
class _EnvByN:
    """`PCTSPEnv._reset` sizes `visited` from `self.generator.num_loc` (not from the data), so one env object
    per instance size; `step`, reward and checker do not depend on the generator."""

    def __init__(self, cls, check_solution=False, torchrl=False, **gen):
        self.cls = cls
        self.envs = {}
        self.cur = None
        self.check_solution = check_solution
        self.torchrl = torchrl
        self.gen = gen

    def _get(self, n):
        if n not in self.envs:
            self.envs[n] = self.cls(generator_params=dict(num_loc=max(n, 1), **self.gen),
                                    check_solution=self.check_solution, _torchrl_mode=self.torchrl)
        return self.envs[n]

    def get_reward(self, td, actions):
        return self.cur.get_reward(td, actions)

    def reset(self, td):
        self.cur = self._get(td["locs"].shape[-2])
        return self.cur.reset(td)

    def step(self, td):
        return self.cur.step(td)

    def _get_reward(self, td, actions):
        return self.cur._get_reward(td, actions)

    def check_solution_validity(self, td, actions):
        return self.cur.check_solution_validity(td, actions)


def pctsp_check_tol_ticks() -> int:
    """largest k with float32(1 − k·2^-20) accepted by the checker's `>= 1 - 1e-5` (evaluated as torch does)"""
    k = 0
    while k < 64 and bool((torch.tensor([1.0 - (k + 1) / rl.SCALE], dtype=torch.float32) >= 1 - 1e-5).all()):
        k += 1
    return k


class PctspAdapter(envcorr.Adapter):
    name = "pctsp"
    stochastic = False
    reward_sign = -1
    PDEN = 1 << 6  # prizes / penalties are k/64 (+ boundary perturbations of k·2^-20)

    def env_class(self):
        from rl4co.envs.routing.pctsp.env import PCTSPEnv

        return PCTSPEnv

    def make_env(self, check_solution=False, torchrl=False, box=None, **gen):
        if box is not None:
            gen.update(min_loc=box[0], max_loc=box[1])
        return _EnvByN(self.env_class(), check_solution=check_solution, torchrl=torchrl, **gen)

    def variants(self):
        # (b) generator / env options otherwise left at their defaults.  `prize_required` is stored in the state but
        # the mask and the checker use the literal 1.0 (prizes are normalised so that the requirement is 1): the
        # behaviour must not depend on it, the Spec requirement stays 1.0
        return [{}, {"penalty_factor": 10.0}, {"prize_required": 0.5}, {"prize_required": 2.0, "check_solution": True},
                {"torchrl": True}, {"box": (-2.0, 6.0), "penalty_factor": 0.5}]

    def sizes(self, tier):
        return sizes_with_large(tier)

    def n_of(self, inst):
        return inst["n"]

    def kinds(self):
        return ["random", "eq", "eq", "near-1", "near-10", "near-11", "poor", "poor", "rich", "one-short"]

    def _prize_row(self, rng, n, kind):
        S = rl.SCALE
        if kind in ("eq", "near-1", "near-10", "near-11"):
            # a random subset sums to exactly 1: split 64/64 into |subset| positive parts; the rest random
            k = rng.randint(1, min(n, 8))
            sub = rng.sample(range(n), k)
            cuts = sorted(rng.sample(range(1, self.PDEN), k - 1)) if k > 1 else []
            parts = [b - a for a, b in zip([0] + cuts, cuts + [self.PDEN])]
            hi = self.PDEN // 2 if n <= 20 else self.PDEN // 8  # keeps every partial float32 sum exact (< 16)
            row = [rng.randint(0, hi) * (S // self.PDEN) for _ in range(n)]
            for idx, p in zip(sub, parts):
                row[idx] = p * (S // self.PDEN)
            if kind != "eq":
                row[sub[0]] -= int(kind.split("-")[1])  # the subset now misses 1 by k·2^-20
            self._ref = [c + 1 for c in sub]
            return row
        self._ref = rng.sample(range(1, n + 1), rng.randint(1, n))
        if kind == "poor":  # total prize below 1: everybody must be visited (then the depot opens with prize < 1)
            cap = (S - 1) // n
            return [rng.randint(0, cap) // rng.choice([1, 1, 4]) for _ in range(n)]
        if kind == "one-short":  # every n−1 customers together stay below 1, all n together reach it
            base = S // n
            row = [base] * n
            row[rng.randrange(n)] += S - base * n
            return row
        if kind == "rich":
            return [rng.randint(self.PDEN // 2, 2 * self.PDEN) * (S // self.PDEN) for _ in range(n)]
        return [rng.randint(0, self.PDEN) * (S // self.PDEN) for _ in range(n)]

    def gen_instance(self, rng, n, kind="random", **var):
        pts, scale = place(rng, geom.gen_points(rng, n + 1), big=n > 20)
        # the row of the given kind is the REAL prize row (det for PCTSP, sto for SPCTSP); the other row is unrelated
        real = self._prize_row(rng, n, kind)
        ref = list(self._ref)
        other = self._prize_row(rng, n, rng.choice(self.kinds()))
        det, sto = (other, real) if self.stochastic else (real, other)
        # (a)/(c) penalties differ per row and in magnitude: all zero, up to 1, up to 8
        pmul = rng.choice([0, 1, 1, 1, 8])
        pen = [rng.randint(0, 32) * pmul * (rl.SCALE // 32) for _ in range(n)]
        return {"kind": kind, "n": n, "pts": pts, "det": det, "sto": sto, "pen": pen, "ref": ref,
                "var": tuple(sorted(var.items()))}

    def real_reward_ticks(self, env, td, actions):
        r = _reward_or_pending(self, env, td, actions)
        return [rl.ticks(v) for v in r.flatten().tolist()]

    def steering_prefix(self, rng, inst):
        """drive half of the C01 episodes along the reference subset whose real prize sits at the requirement"""
        return (inst["ref"] + [0]) if rng.random() < 0.5 else None

    def to_td(self, insts):
        B = len(insts)
        S = rl.SCALE
        f = lambda key: torch.tensor([[v / S for v in i[key]] for i in insts], dtype=torch.float32).reshape(B, -1)
        locs = torch.tensor([geom.to_unit(i["pts"][1:]) for i in insts], dtype=torch.float32).reshape(B, -1, 2)
        depot = torch.tensor([geom.to_unit(i["pts"][:1])[0] for i in insts], dtype=torch.float32)
        return TensorDict({"locs": locs, "depot": depot, "deterministic_prize": f("det"),
                           "stochastic_prize": f("sto"), "penalty": f("pen")}, batch_size=[B])

    _tol = None

    def line(self, op, inst, actions):
        if PctspAdapter._tol is None:
            PctspAdapter._tol = pctsp_check_tol_ticks()
        n = inst["n"]
        D = geom.D_ticks(inst["pts"])
        flat = [v for row in D for v in row]
        j = lambda xs: " ".join(map(str, xs))
        return (f"pctsp.{op} {n} {rl.SCALE} {PctspAdapter._tol} {int(self.stochastic)} | {j(inst['det'])} | "
                f"{j(inst['sto'])} | {j(inst['pen'])} | {j(flat)} | {j(actions)}")

    def step_bound(self, inst):
        return max(inst["n"] + 1, 2)

    def real_prize(self, inst):
        return inst["sto"] if self.stochastic else inst["det"]

    def handbuilt(self, rng, inst):
        n = inst["n"]
        perm = list(range(1, n + 1))
        rng.shuffle(perm)
        out = [("all-final-depot", perm + [0]), ("all-no-final-depot", perm), ("all-trailing-depots", perm + [0, 0]),
               ("all-leading-depot", [0] + perm + [0]), ("empty-tour", [0, 0]),
               # the reference subset: real prize exactly 1 ("eq") or 1 − k·2^-20 ("near-k"; the checker tolerates k ≤ 10)
               ("ref-subset", inst["ref"] + [0]), ("ref-subset-no-final-depot", list(inst["ref"]))]
        pr = self.real_prize(inst)
        # greedy prefix reaching the requirement, and the same prefix one customer short
        tot, k = 0, 0
        while k < n and tot < rl.SCALE:
            tot += pr[perm[k] - 1]
            k += 1
        pre = perm[:k]
        out += [("prefix-final-depot", pre + [0]), ("prefix-no-final-depot", pre)]
        if len(pre) >= 2:
            out += [("prefix-one-short", pre[:-1] + [0]), ("prefix-depot-in-middle", pre[:1] + [0] + pre[1:] + [0])]
        for _ in range(2):
            s = rng.sample(range(1, n + 1), rng.randint(1, n))
            out += [("subset-final-depot", s + [0]), ("subset-no-final-depot", s)]
        return out

    def enumerate_solutions(self, inst):
        for sub in ordered_subsets(inst["n"]):
            yield (sub + [0]) if sub else [0, 0]

    def fixed_instances(self):
        # three customers with real prizes 1/2, 1/2, 1/4: `[1, 2, 0]` collects exactly 1
        S = rl.SCALE
        row, other = [S // 2, S // 2, S // 4], [S // 8, 0, S // 8]
        det, sto = (other, row) if self.stochastic else (row, other)
        return [{"kind": "fixed-eq", "n": 3, "pts": [(512, 512), (768, 512), (256, 512), (576, 512)],
                 "det": det, "sto": sto, "pen": [S // 32, S // 16, S // 8], "ref": [1, 2], "var": ()}]

    def fixed_cases(self):
        inst = self.fixed_instances()[0]
        return [(inst, "fixed-eq", [1, 2, 0]), (inst, "fixed-eq-no-final-depot", [1, 2]), (inst, "fixed-short", [1, 3, 0])]

    def batch_key(self, width):
        return f"{self.name}:checker-batch-differs-from-rows"

    def hidden_key(self, inst, sol, f, blocked_at=None):
        return f"{self.name}:mask-hides-feasible"

    def accepts_key(self, inst, sol, f):
        return f"{self.name}:checker-accepts-infeasible"


class SpctspAdapter(PctspAdapter):
    name = "spctsp"
    stochastic = True

    def env_class(self):
        from rl4co.envs.routing.spctsp.env import SPCTSPEnv

        return SPCTSPEnv


# ---------------------------------------------------------------------------------------------------
# family-specific routines (adapted from envcorr where a specific violation key / extra observable is needed)
# ---------------------------------------------------------------------------------------------------
def with_glue(fn):
    """run a generic routine, then check the hypotheses this property's OP theorems make about the budgets
    the code pre-computes (C01: WF.budget_le, C05: MarginLe, C06: checker bounds) and report the 1e-6 glue"""

    def run(ctx, ad):
        fn(ctx, ad)
        for pend in ad.__dict__.pop("_pending", [])[:5]:
            ctx.violation(f"{ad.name}:get_reward-raises-on-mask-generated",
                          "the reward function raises on a batch of finished mask-confined episodes", pend)
        if isinstance(ad, OpAdapter):
            ctx.count("op.budget-rows-read-back", len(ad._rb))
            bad = [(k, v[2][0][ctx.prop]) for k, v in ad._rb.items() if v[2][0].get(ctx.prop)]
            off = [k for k, v in ad._rb.items() if v[2][1]]
            if off:
                ctx.count("op.budget-glue-not-1e-6-to-one-ulp", len(off))
                ctx.note(f"op: `_reset` budget is not `max_length − dist − 1e-6` (or the checker bound not `max_length + 1e-5`) "
                         f"to one ulp on {len(off)} instances, e.g. pts/L20 = {off[0]}")
            if bad:
                ctx.disagreement("op: the budgets the code pre-computes violate a hypothesis of the OP theorems: " + bad[0][1][0],
                                 {"pts_L20": bad[0][0], "failed": bad[0][1]})
            if ctx.prop == "C06":
                insts = [v[3] for v in list(ad._rb.values())[:200]]
                reps = ctx.driver.ask_many([ad.line("episode", i, []) for i in insts])
                fail = [i for i, r in zip(insts, reps) if parse_fields(r).get("cprecomp") != "1"]
                ctx.count("op.check-precomp-evaluated", len(insts))
                if fail:
                    ctx.disagreement(f"op: `Rl4co.Op.CheckPrecomp` fails on {len(fail)} read-back instances (checker bound ≠ "
                                     "max_length + extracted 1e-5 up to one ulp)", {"inst": fail[0]})
            if ctx.prop in ("C01", "C05"):
                # `Rl4co.Op.Precomp`: the read-back budgets ARE `max_length − dist + Params.opResetMargin` up to one
                # float32 ulp (hypothesis of feasible_of_run_precomp / marginGe_of_precomp / marginLe_of_precomp)
                insts = [v[3] for v in list(ad._rb.values())[:200]]
                reps = ctx.driver.ask_many([ad.line("episode", i, []) for i in insts])
                fail = [i for i, r in zip(insts, reps) if parse_fields(r).get("precomp") != "1"]
                ctx.count("op.precomp-evaluated", len(insts))
                if fail:
                    import extract

                    st = extract.generate(write=False).get("opResetMargin", {}).get("status")
                    msg = (f"op: `Rl4co.Op.Precomp` fails on {len(fail)} read-back instances (budget ≠ max_length − dist + "
                           f"extracted margin up to one ulp); probe status: {st}")
                    if st == "extracted":
                        ctx.disagreement(msg, {"inst": fail[0]})
                    else:
                        ctx.note(msg)

    return run


def generic_stream(ctx, ad, batches_quick: int = 12, batches_thorough: int = 150):
    """Generic stream (DESIGN §3.2): instances from the repo's OWN generators (float32, default formats and
    shapes), driven through the real mask with the harness' loop; the property is judged by an independent
    float64 evaluation of the problem definition on the original instance data and the action list, with a
    stated tolerance (no model involved).  C01: feasibility; C03: reward = objective."""
    import numpy as np

    total = ctx.budget(batches_quick, batches_thorough)
    for g in range(total):
        n = ctx.rng.choice([3, 5, 10, 20] if ctx.tier == "quick" else [1, 2, 5, 10, 20, 50])
        B = ctx.rng.choice([1, 3, 8])
        torch.manual_seed(ctx.rng.randrange(1 << 31))
        if ad.name == "op":
            from rl4co.envs.routing.op.env import OPEnv

            pt = ctx.rng.choice(["dist", "unif", "const"])
            env = OPEnv(generator_params=dict(num_loc=n, max_length=ctx.rng.choice([0.5, 1.0, 2.0, 3.0]), prize_type=pt),
                        prize_type=pt, check_solution=ctx.rng.random() < 0.5)
            ctx.count(f"op.generic.prize_type={pt}")
        else:
            env = ad.env_class()(generator_params=dict(num_loc=n, penalty_factor=ctx.rng.choice([3.0, 3.0, 0.5, 10.0])),
                                 check_solution=ctx.rng.random() < 0.5)
        td0 = env.generator(batch_size=[B])
        eager = ctx.rng.random() < 0.7  # prefer customers, so that the length budget / prize rule becomes binding

        def choose(r, t, feas):
            cust = [a for a in feas if a != 0]
            return ctx.rng.choice(cust) if (cust and eager and ctx.rng.random() < 0.85) else ctx.rng.choice(feas)

        try:
            ep = rl.run_episode(env, td0, choose, max_steps=20 * (n + 2) + 50)
        except RuntimeError as e:
            ctx.violation(f"{ad.name}:generic:no-termination", str(e), {"n": n, "B": B})
            continue
        if ep.empty_mask_rows:
            ctx.violation(f"{ad.name}:generic:dead-end", "all-False mask row while the batch is running", {"n": n, "B": B})
            continue
        try:  # the public entry point: validates first when the env was built with check_solution=True
            rew = env.get_reward(ep.td, rl.actions_tensor(ep)).double().tolist()
        except AssertionError as e:
            ctx.violation(f"{ad.name}:generic:get_reward-raises-on-mask-generated",
                          f"get_reward(check_solution=True) raises on a mask-generated batch: {e}", {"n": n, "actions": ep.actions})
            continue
        locs = np.concatenate([td0["depot"].double().numpy()[:, None, :], td0["locs"].double().numpy()], axis=1)
        for r in range(B):
            acts = ep.actions[r]
            cust = [a for a in acts if a != 0]
            seq = [0] + acts + [0]
            length = float(sum(np.linalg.norm(locs[r, a] - locs[r, b]) for a, b in zip(seq, seq[1:])))
            ctx.case((ad.name, "generic", g, r, tuple(acts)))
            ctx.count(f"{ad.name}.generic.n={n}")
            wit = {"n": n, "row": r, "actions": acts, "locs": locs[r].tolist()}
            ok_once = len(set(cust)) == len(cust) and all(1 <= a <= n for a in cust)
            if ad.name == "op":
                L = float(td0["max_length"][r])
                prize = td0["prize"][r].double().tolist()
                feasible = ok_once and length <= L + 1e-5
                obj = sum(prize[a - 1] for a in set(cust))
                if eager and len(set(cust)) < n:
                    ctx.count("op.generic.budget-binding")  # an eager episode that had to leave customers unvisited
                wit.update(max_length=L, tour_length=length)
                sign = 1.0
            else:
                real = td0["stochastic_prize" if ad.stochastic else "deterministic_prize"][r].double().tolist()
                pen = td0["penalty"][r].double().tolist()
                got = sum(real[a - 1] for a in set(cust))
                feasible = ok_once and (got >= 1 - 1e-5 or len(set(cust)) == n)
                obj = length + sum(p for j, p in enumerate(pen, 1) if j not in cust)
                if len(set(cust)) == n and got < 1:
                    ctx.count(f"{ad.name}.generic.all-visited-prize-short")
                wit.update(collected_real_prize=got)
                sign = -1.0
            ctx.sample({"env": ad.name, "stream": "generic", "n": n, "actions": acts, "reward": rew[r],
                        "float64_objective": obj, "feasible": feasible}, cap=6)
            if ctx.prop == "C01" and not feasible:
                ctx.violation(f"{ad.name}:generic:infeasible-episode",
                              "mask-confined episode on a generator instance is infeasible (float64 evaluation, tol 1e-5)", wit)
            if ctx.prop == "C03" and abs(rew[r] - sign * obj) > 1e-4 * (len(acts) + 1):
                ctx.violation(f"{ad.name}:generic:reward-ne-objective",
                              "reward on a generator instance differs from the float64 objective beyond n·1e-4",
                              dict(wit, reward=rew[r], objective=obj))


def with_generic(fn):
    def run(ctx, ad):
        fn(ctx, ad)
        generic_stream(ctx, ad)

    return run


def check_reward_prize(ctx, ad):
    """C03: generic reward comparison + the single-column special case of `_get_reward` (a batch-global
    shortcut: the model's `rewardAssert`/0 branch) + boundary kinds counted."""
    for _ in range(5):
        try:
            envcorr.check_reward(ctx, ad)
            break
        except AssertionError:  # the real reward function raised on a mask-generated batch: recorded as a pending
            continue            # violation by `_reward_or_pending`; go on with fresh batches
    # the special case: action tensors with a single column
    for _ in range(ctx.budget(6, 60)):
        env, var = envcorr.pick_env(ctx, ad)
        n = ctx.rng.choice(ad.sizes(ctx.tier))
        B = ctx.rng.choice([1, 2, 3])
        insts = envcorr.make_batch(ad, ctx, n, B, var)
        td = env.reset(ad.to_td(insts))
        for col in ([0] * B, [ctx.rng.randint(0, n) for _ in range(B)]):
            acts = torch.tensor(col, dtype=torch.long).reshape(B, 1)
            try:  # `_get_reward` itself (the public `get_reward` of a check_solution=True variant validates first)
                conv = op_units if ad.name == "op" else rl.ticks
                real = [conv(v) for v in env._get_reward(td, acts).flatten().tolist()]
                raised = False
            except AssertionError:
                real, raised = None, True
            replies = ctx.driver.ask_many([ad.line("episode", insts[r], [col[r]]) for r in range(B)])
            fs = [parse_fields(x) for x in replies]
            model_raises = any(f.get("rassert") == "0" for f in fs)
            ctx.case((ad.name, "single-column", repr(insts), tuple(col)), nontrivial=False)
            ctx.sample({"env": ad.name, "case": "single-column _get_reward", "column": col, "real_raises": raised,
                        "real_reward": real}, cap=5)
            ctx.count(f"{ad.name}.single-column.{'raises' if raised else 'returns'}")
            if model_raises != raised:
                ctx.disagreement(f"{ad.name}: single-column reward assertion differs",
                                 {"insts": insts, "column": col, "real_raises": raised})
            elif not raised:
                for r in range(B):
                    if int(fs[r]["reward"]) != real[r]:
                        ctx.disagreement(f"{ad.name}: single-column reward differs",
                                         {"inst": insts[r], "column": col, "real": real[r], "model": fs[r]["reward"]})


def check_completeness_prize(ctx, ad, insts_quick: int = 40, insts_thorough: int = 400, nmax_quick=4, nmax_thorough=5):
    """C05 (adapted from envcorr.check_completeness): every Spec-feasible canonical solution of a tiny
    instance must be admitted step by step by the REAL mask and end `done`; additionally the best reward
    over the mask-admitted complete solutions is compared with the brute-force optimum of the Spec.
    The violation key is refined by `ad.hidden_key` (constraint met with equality / within OP's margin)."""
    total = ctx.budget(insts_quick, insts_thorough)
    nmax = ctx.budget(nmax_quick, nmax_thorough)
    kinds = ad.kinds()
    variants = ad.variants()
    fixed = ad.fixed_instances()
    for g in range(-len(fixed), total):
        if g < 0:
            inst = fixed[g + len(fixed)]
            env = ad.env_for({})
        else:
            # every env variant and every instance kind is met early in the run, then random pairs
            var = variants[g % len(variants)] if g < 3 * len(variants) else ctx.rng.choice(variants)
            env = ad.env_for(var)
            if var:
                ctx.count(f"{ad.name}.variant=" + ",".join(f"{k}={v}" for k, v in sorted(var.items())))
            n = ctx.rng.randint(1, nmax)
            inst = ad.gen_instance(ctx.rng, n, kinds[(g // 2) % len(kinds)] if g < 4 * len(kinds) else ctx.rng.choice(kinds),
                                   **var)
        cands = list(ad.enumerate_solutions(inst))
        replies = ctx.driver.ask_many([ad.line("episode", inst, c) for c in cands])
        feas = []
        for c, rep in zip(cands, replies):
            f = parse_fields(rep)
            if "feas" not in f:
                ctx.disagreement(f"{ad.name}: driver error", {"reply": rep, "inst": inst, "actions": c})
                continue
            if f["feas"] == "1":
                feas.append((c, f))
        ctx.count(f"{ad.name}.kind={inst['kind']}")
        ctx.count(f"{ad.name}.candidates", len(cands))
        ctx.count(f"{ad.name}.feasible", len(feas))
        if not feas:
            ctx.count(f"{ad.name}.no-feasible-solution")
            continue
        better = (lambda a, b: a > b) if ad.reward_sign > 0 else (lambda a, b: a < b)
        best_spec, best_mask = None, None
        CH = 64
        for k in range(0, len(feas), CH):
            chunk = feas[k: k + CH]
            Lmax = max(len(c) for c, _ in chunk)
            td = env.reset(ad.to_td([inst] * len(chunk)))
            alive = [True] * len(chunk)
            for t in range(Lmax):
                mask = td["action_mask"]
                acts = []
                for r, (c, f) in enumerate(chunk):
                    a = c[t] if t < len(c) else 0
                    ok = bool(mask[r, a])
                    if t < len(c) and alive[r] and not ok:
                        alive[r] = False
                        slack = int(f.get("slack", "0"))
                        ctx.count(f"{ad.name}.hidden.slack={'0' if slack == 0 else 'pos'}")
                        ctx.violation(ad.hidden_key(inst, c, f, blocked_at=t),
                                      "a feasible solution (Lean Spec) is not offered by the real mask",
                                      {"inst": inst, "solution": c, "blocked_at_step": t, "mask": rl.mask_str(mask[r]),
                                       "spec_slack_units": slack, "model_admits": f.get("adm")})
                        if f.get("adm") == "1":
                            ctx.disagreement(f"{ad.name}: model admits, real mask blocks",
                                             {"inst": inst, "solution": c, "step": t})
                    acts.append(a if ok else [j for j, b in enumerate(mask[r].tolist()) if b][0])
                td.set("action", torch.tensor(acts, dtype=torch.long))
                td = env.step(td)["next"]
            done = td["done"].reshape(len(chunk)).tolist()
            for r, (c, f) in enumerate(chunk):
                ctx.case((ad.name, repr(inst), tuple(c)))
                o = int(f["obj"])
                if best_spec is None or better(o, best_spec):
                    best_spec = o
                if alive[r]:
                    if int(f.get("slack", "1")) == 0:
                        ctx.count(f"{ad.name}.admitted-with-equality")
                    if not done[r]:
                        ctx.violation(f"{ad.name}:feasible-not-done",
                                      "feasible complete solution not recognised as finished", {"inst": inst, "solution": c})
                    if f.get("adm") != "1":
                        ctx.disagreement(f"{ad.name}: real mask admits a feasible solution, model does not",
                                         {"inst": inst, "solution": c})
                    if best_mask is None or better(o, best_mask):
                        best_mask = o
        if best_mask != best_spec:
            ctx.count(f"{ad.name}.optimum-not-reachable")
        ctx.sample({"env": ad.name, "inst": inst, "n_candidates": len(cands), "n_feasible": len(feas),
                    "best_objective_spec": best_spec, "best_objective_through_mask": best_mask, "example": feas[0][0]})


def check_checker_prize(ctx, ad, episodes_quick: int = 100, episodes_thorough: int = 2000):
    """C06 (adapted from envcorr.check_checker): mask-generated, hand-built and corrupted solutions;
    real checker vs model checker vs Spec, with the acceptance key refined by `ad.accepts_key`."""
    total = ctx.budget(episodes_quick, episodes_thorough)
    done_eps = 0
    first = True
    while done_eps < total:
        env, var = envcorr.pick_env(ctx, ad)
        n = ctx.rng.choice(ad.sizes(ctx.tier))
        B = ctx.rng.choice([1, 2, 4])
        insts = envcorr.make_batch(ad, ctx, n, B, var)
        try:
            td0, ep = envcorr.run_batch(ctx, ad, env, insts, extra_pad=ctx.rng.choice([0, 0, 2]))
        except envcorr.EpisodeFailed:
            done_eps += B
            continue
        cases = list(ad.fixed_cases()) if first else []
        first = False
        for r in range(B):
            cases.append((insts[r], "mask-generated", ep.actions[r]))
            cases += [(insts[r], lab, sol) for lab, sol in ad.handbuilt(ctx.rng, insts[r])]
            cases += [(insts[r], lab, sol) for lab, sol in envcorr.corruptions(ad, ctx.rng, insts[r], ep.actions[r])]
            # extra single faults: one more customer appended before the return / inserted in a depot-less list
            rest = [c for c in range(1, n + 1) if c not in ep.actions[r]]
            if rest:
                c = ctx.rng.choice(rest)
                core = [a for a in ep.actions[r] if a != 0]
                cases.append((insts[r], "extra-customer", core + [c, 0]))
                cases.append((insts[r], "extra-customer-no-final-depot", core + [c]))
        replies = ctx.driver.ask_many([ad.line("check", i, s) for (i, lab, s) in cases])
        solo = {}
        for k, ((inst, lab, sol), rep) in enumerate(zip(cases, replies)):
            f = parse_fields(rep)
            if "feas" not in f:
                ctx.disagreement(f"{ad.name}: driver error", {"reply": rep, "inst": inst, "actions": sol})
                continue
            env_i = ad.env_for(dict(inst.get("var", ())))
            td1 = env_i.reset(ad.to_td([inst]))
            acc = rl.checker_accepts(env_i, td1, torch.tensor([sol], dtype=torch.long))
            solo[k] = acc
            ctx.case((ad.name, repr(inst), lab, tuple(sol)), nontrivial=True)
            ctx.count(f"{ad.name}.{lab}.{'feasible' if f['feas'] == '1' else ('near' if f.get('near') == '1' else 'infeasible')}")
            if (f["check"] == "1") != acc:
                ctx.disagreement(f"{ad.name}: checker model differs from real checker",
                                 {"inst": inst, "label": lab, "actions": sol, "real_accepts": acc, "model": f["check"]})
            if f["feas"] == "1" and not acc:
                ctx.violation(f"{ad.name}:checker-rejects-feasible",
                              "the real checker raises for a solution that is feasible by the Lean Spec",
                              {"inst": inst, "label": lab, "actions": sol, "slack": f.get("slack")})
            if f["feas"] == "0" and acc and f.get("near", "0") == "0":
                ctx.violation(ad.accepts_key(inst, sol, f),
                              "the real checker accepts a solution that is infeasible (beyond tolerance) by the Lean Spec",
                              {"inst": inst, "label": lab, "actions": sol, "slack": f.get("slack")})
            ctx.sample({"env": ad.name, "label": lab, "inst": inst, "actions": sol,
                        "real_checker_accepts": acc, "spec_feasible": f["feas"]}, cap=4)
        # (d) `get_reward` calls the checker on whole batches: a batch must be accepted iff each of its rows is
        # accepted on its own (rows of one env variant, one size and one action-tensor width are stacked)
        groups = {}
        for k, (inst, lab, sol) in enumerate(cases):
            if k in solo and len(sol) > 0:
                groups.setdefault((inst.get("var", ()), inst["n"], len(sol)), []).append(k)
        for (v, nn, width), idx in groups.items():
            if len(idx) < 2:
                continue
            for _ in range(2):
                grp = ctx.rng.sample(idx, min(len(idx), ctx.rng.choice([2, 3, 4])))
                rej = [k for k in grp if not solo[k]]
                if len(rej) > 1:  # compositions with at most one rejected row are the informative ones
                    grp = [k for k in grp if solo[k]] + rej[:1]
                    if len(grp) < 2:
                        continue
                ctx.rng.shuffle(grp)
                env_b = ad.env_for(dict(v))
                tdb = env_b.reset(ad.to_td([cases[k][0] for k in grp]))
                accb = rl.checker_accepts(env_b, tdb, torch.tensor([cases[k][2] for k in grp], dtype=torch.long))
                expect = all(solo[k] for k in grp)
                ctx.count(f"{ad.name}.checker-batch.{'all-accepted' if expect else 'one-rejected'}")
                if accb != expect:
                    ctx.violation(ad.batch_key(width),
                                  "the checker's verdict on a batch is not the conjunction of its verdicts on the rows",
                                  {"rows": [{"inst": cases[k][0], "label": cases[k][1], "actions": cases[k][2],
                                             "solo_accepts": solo[k]} for k in grp], "batch_accepts": accb})
        if ad.name == "op":
            single_column_batches(ctx, ad, insts[0])
        done_eps += B


def single_column_batches(ctx, ad, inst):
    """OP checker on batches whose action tensor has ONE column (model: `Rl4co.Op.checkSingleColumnBatch`): rows are
    copies of one point set (so that cross-row distances are integral) with different budgets."""
    n = inst["n"]
    D = geom.dist_matrix(inst["pts"])
    env = ad.env_for(dict(inst.get("var", ())))
    for _ in range(2):
        B = ctx.rng.choice([1, 2, 3])
        dmax = max(D[0]) << 10
        rows = [dict(inst, L20=f32_exact_20(ctx.rng.choice([inst["L20"], 0, ctx.rng.randint(0, 4 * dmax + 1)]))) for _ in range(B)]
        acts = [ctx.rng.choice([0, 0, ctx.rng.randint(0, n)]) for _ in range(B)]
        solo = []
        for r in range(B):
            solo.append(rl.checker_accepts(env, env.reset(ad.to_td([rows[r]])), torch.tensor([[acts[r]]], dtype=torch.long)))
        accb = rl.checker_accepts(env, env.reset(ad.to_td(rows)), torch.tensor([[a] for a in acts], dtype=torch.long))
        secs = [f"{n} {acts[r]} " + " ".join(map(str, ad.readback(rows[r])[1])) for r in range(B)]
        X = [D[acts[r]][acts[q]] * GRID_TO_OP for r in range(B) for q in range(B)]
        f = parse_fields(ctx.driver.ask(f"op.check1col {B} | " + " | ".join(secs) + " | " + " ".join(map(str, X))))
        ctx.case((ad.name, "single-column-batch", repr(rows), tuple(acts)))
        ctx.count(f"op.single-column-batch.B={B}")
        if f.get("check") != ("1" if accb else "0"):
            ctx.disagreement("op: single-column batch checker model differs from the real checker",
                             {"rows": rows, "actions": acts, "real_accepts": accb, "model": f.get("check")})
        if accb != all(solo):
            ctx.violation(ad.batch_key(1), "the checker's verdict on a single-column batch is not the conjunction of its "
                          "verdicts on the rows", {"rows": rows, "actions": acts, "solo_accepts": solo, "batch_accepts": accb})
        ctx.sample({"env": "op", "case": "single-column batch", "actions": acts, "solo_accepts": solo, "batch_accepts": accb}, cap=6)


def replay_prize(ctx, ad, witness):
    """Re-evaluate a recorded witness ({inst, actions|solution|batched_actions}) on the real code with the Lean
    Spec as oracle: the action list is driven through the real mask (blocked action of a feasible solution =
    C05 failure; admitted infeasible complete list = C01 failure) and handed to the real checker (C06)."""
    inst = witness.get("inst")
    sol = witness.get("solution") or witness.get("actions") or witness.get("batched_actions")
    if inst is None or sol is None:
        ctx.note("replay: witness has no (inst, actions) pair; nothing to replay")
        return
    inst = dict(inst)
    inst["pts"] = [tuple(p) for p in inst["pts"]]
    inst["var"] = tuple((k, tuple(v) if isinstance(v, list) else v) for k, v in inst.get("var", ()))
    env = ad.env_for(dict(inst["var"]))
    f = parse_fields(ctx.driver.ask(ad.line("episode", inst, sol)))
    td = env.reset(ad.to_td([inst]))
    blocked = None
    for t, a in enumerate(sol):
        if a >= td["action_mask"].shape[-1] or not bool(td["action_mask"][0, a]):
            blocked = t
            break
        td.set("action", torch.tensor([a], dtype=torch.long))
        td = env.step(td)["next"]
    acc = rl.checker_accepts(env, env.reset(ad.to_td([inst])), torch.tensor([sol], dtype=torch.long))
    print(f"replay {ad.name}: spec_feasible={f.get('feas')} slack={f.get('slack')} real_mask_blocks_at={blocked} "
          f"real_done={bool(td['done'].reshape(-1)[0]) if blocked is None else None} real_checker_accepts={acc}")
    if ctx.prop == "C05" and f.get("feas") == "1" and blocked is not None:
        ctx.violation(ad.hidden_key(inst, sol, f, blocked_at=blocked), "a feasible solution is not offered by the real mask",
                      {"inst": inst, "solution": sol, "blocked_at_step": blocked})
    if ctx.prop in ("C01", "C02", "C03", "C04") and blocked is None and f.get("feas") == "0":
        ctx.violation(f"{ad.name}:infeasible-episode", "mask-confined episode of the real env is infeasible by the Lean Spec",
                      {"inst": inst, "actions": sol})
    if ctx.prop == "C06" and f.get("feas") == "1" and not acc:
        ctx.violation(f"{ad.name}:checker-rejects-feasible", "real checker raises for a Spec-feasible solution",
                      {"inst": inst, "actions": sol})
    if ctx.prop == "C06" and f.get("feas") == "0" and f.get("near") == "0" and acc:
        ctx.violation(ad.accepts_key(inst, sol, f), "real checker accepts a Spec-infeasible solution", {"inst": inst, "actions": sol})


def check_forced_starts(ctx, ad, batches_quick: int = 30, batches_thorough: int = 400):
    """C12 ↔ C01 interface for OP: the real `select_start_nodes(td, env, k)` on exact-stream OP batches vs the C12 model
    (`Rl4co.Ops.opStarts`) evaluated on the reset masks of THIS family's Lean model (`Rl4co.Op.mask`); every forced start
    of a row that has a feasible customer must be admitted by the real reset mask, and the forced rollout, continued
    through the real mask, must be Spec-feasible (theorems `forced_start_admitted`, `forced_rollout_feasible`)."""
    from rl4co.utils.ops import select_start_nodes

    for g in range(ctx.budget(batches_quick, batches_thorough)):
        env, var = envcorr.pick_env(ctx, ad)
        n = ctx.rng.choice([1, 2, 3, 5, 8])
        B = ctx.rng.choice([1, 2, 3, 5])
        k = ctx.rng.randint(1, n + 2)
        insts = envcorr.make_batch(ad, ctx, n, B, var)
        td = env.reset(ad.to_td(insts))
        real = select_start_nodes(td, env, num_starts=k).tolist()
        real_masks = [rl.mask_str(td["action_mask"][r]) for r in range(B)]
        model_masks = [parse_fields(x)["masks"].split(",")[0] for x in
                       ctx.driver.ask_many([ad.line("episode", i, []) for i in insts])]
        if model_masks != real_masks:
            ctx.disagreement("op: reset mask differs (C12 interface)", {"insts": insts, "real": real_masks, "model": model_masks})
        bits = " ".join(" ".join(m) for m in model_masks)
        f = parse_fields(ctx.driver.ask(f"ops.opstarts {n} {k} {B} | {bits}"))
        model = [int(x) for x in f.get("sel", "").split(",") if x != ""]
        ctx.case(("op-starts", repr(insts), k))
        ctx.count(f"op-starts.k={'<=n' if k <= n else '>n'}")
        if model != real:
            ctx.disagreement("op: select_start_nodes differs from Rl4co.Ops.opStarts on the model's reset masks",
                             {"insts": insts, "k": k, "real": real, "model": model})
        forced = []
        for row, s0 in enumerate(real):  # row = j*B + b (k-major)
            b = row % B
            has_feasible = "1" in real_masks[b][1:]
            ctx.count(f"op-starts.row-{'with' if has_feasible else 'without'}-feasible-customer")
            if has_feasible and real_masks[b][s0] != "1":
                ctx.violation("op:forced-start-not-admitted", "select_start_nodes forces a start the reset mask does not offer",
                              {"inst": insts[b], "k": k, "start": s0, "mask": real_masks[b]})
            forced.append((b, s0, has_feasible))
        # continue the forced rollouts through the real mask and judge them with the Lean Spec
        rows = [(b, s0) for (b, s0, ok) in forced if ok][:8]
        if rows:
            try:
                td0, ep = envcorr.run_batch(ctx, ad, env, [insts[b] for b, _ in rows], forced=[[s0] for _, s0 in rows])
            except envcorr.EpisodeFailed:
                continue
            reps = ctx.driver.ask_many([ad.line("episode", insts[b], ep.actions[r]) for r, (b, _) in enumerate(rows)])
            for r, (b, s0) in enumerate(rows):
                fr = envcorr.compare_trace(ctx, ad, insts[b], ep.actions[r], ep.masks[r], ep.done[r], reps[r], "C12 forced rollout")
                if fr.get("feas") == "0":
                    ctx.violation("op:forced-rollout-infeasible", "a multi-start rollout continued through the mask is infeasible",
                                  {"inst": insts[b], "actions": ep.actions[r]})
            ctx.sample({"env": "op", "k": k, "forced_starts": real, "masks": real_masks, "rollout": ep.actions[0]}, cap=4)


# ---------------------------------------------------------------------------------------------------
# registration
# ---------------------------------------------------------------------------------------------------
OP = OpAdapter()
PC = PctspAdapter()
SP = SpctspAdapter()

NOTE_OP = ("OPEnv modelled per instance over integers (Rl4co/Env/Op.lean); the per-node budgets `max_length − dist − 1e-6` "
           "and the checker bounds are read back from the real reset state (unit 2^-44) and compared with the exact "
           "rational value to one ulp; coordinates→distance arithmetic and float32 rounding are outside the model "
           "(exact-stream instances make them exact); env / generator options (generator max_length below and above the "
           "instances' own max_length, prize_type, min/max_loc, check_solution, _torchrl_mode) are exercised as variants and "
           "are NOT parameters of the model: the per-instance behaviour must not depend on them; the batched single-column "
           "path of the checker is modelled separately (Rl4co.Op.checkSingleColumnBatch) and probed on every C06 run")
NOTE_PC = ("PCTSPEnv / SPCTSPEnv modelled per instance over integer ticks (Rl4co/Env/Pctsp.lean, `stochastic` flag selects "
           "the real prize); one env object per instance size because `_reset` sizes `visited` from the generator; "
           "coordinates→distance arithmetic and float32 rounding are outside the model (exact-stream instances make them exact); "
           "generator / env options (penalty_factor, prize_required, min/max_loc, check_solution, _torchrl_mode) are exercised as "
           "variants and are NOT parameters of the model: the requirement is the literal 1.0 whatever `prize_required` says")
NO_THM = "no theorem yet: correspondence + spec oracle only"


def _module_text(mod: str) -> str:
    path = os.path.join(LEAN_DIR, mod.replace(".", "/") + ".lean")
    return open(path).read() if os.path.exists(path) else ""


def _unit(prop, ad, run, fam, thms, note):
    """register the unit; a theorem is listed only when its property module exists and states it"""
    import re

    mod = f"Rl4co.Props.{prop}.{fam}"
    text = _module_text(mod)
    alltext = text + _module_text(f"Rl4co.Proofs.{fam}Generated") + _module_text(f"Rl4co.Props.C01.{fam}")
    have = [t for t in thms if re.search(r"^theorem\s+" + re.escape(t.name.split(".")[-1]) + r"\b", alltext, re.M)]
    register(Unit(prop, ad.name, (lambda ctx, run=run, ad=ad: run(ctx, ad)),
                  drivers=["drv_op" if fam == "Op" else "drv_pctsp"],
                  lean_modules=[mod] if text else [f"Rl4co.Spec.{fam}"],
                  theorems=have,
                  replay=(lambda ctx, w, ad=ad: replay_prize(ctx, ad, w)),
                  assumptions=[note] + ([] if have else [NO_THM])))


T = Theorem
OP_THMS = {
    "C01": [T("Rl4co.Op.feasible_of_run", "proved",
              "every mask-confined finished OP episode visits customers at most once and its tour length is ≤ max_length"),
            T("Rl4co.Op.feasible_of_run_precomp", "proved",
              "the same with the reset-time pre-computation inside the model: the only fact used about the budgets is that they "
              "are `max_length − dist − 1e-6` (extracted constant) up to a float32 rounding error (evaluated on every instance)"),
            T("Rl4co.Op.marginGe_of_precomp", "proved", "the pre-computed budgets stay ≥ 1e-6 − rho below L − D j 0"),
            T("Rl4co.Op.step_len_generated", "proved", "generated `_step` tour-length expression = model (rfl)"),
            T("Rl4co.Op.exceeds_generated", "proved", "generated mask length expression = model (rfl)"),
            T("Rl4co.Op.baseMask_generated", "proved", "generated `visited | visited[0] | exceeds` expression = model (rfl)"),
            T("Rl4co.Op.budgetSpec_generated", "proved", "generated `_reset` budget expression = the model's pre-computation")],
    "C02": [T("Rl4co.Op.mask_nonempty", "proved", "every state offers the depot"),
            T("Rl4co.Op.done_stable", "proved", "done is absorbing under admitted steps from reachable states"),
            T("Rl4co.Op.steps_le", "proved", "an unfinished mask-confined run has at most max(n+1, 2) steps")],
    "C03": [T("Rl4co.Op.reward_eq_objective", "proved",
              "reward of a finished mask-confined episode = prize of the visited customers (single-column case included)")],
    "C04": [T("Rl4co.Op.pad_noop", "proved", "a padding step after done is the depot and changes neither done, mask nor reward")],
    "C05": [T("Rl4co.Op.run_of_feasible_counterexample", "proved",
              "KNOWN FINDING: with the budgets the code computes, a tour of length exactly max_length is not mask-reachable"),
            T("Rl4co.Op.run_of_feasible_partial", "partial",
              "every canonical feasible tour with length ≤ max_length − eps (eps ≥ the code's margin) is a finished mask-confined run"),
            T("Rl4co.Op.marginLe_of_precomp", "proved", "the pre-computed budgets are at most 1e-6 + rho below L − D j 0"),
            T("Rl4co.Op.opt_eq_margin", "proved",
              "prizes reachable through the mask = prizes of feasible tours of length ≤ L − margin; the two optima are EQUAL"),
            T("Rl4co.Op.opt_sandwich", "proved", "with rounding: optimum(≤ L − m_hi) ≤ reachable optimum ≤ optimum(≤ L − m_lo)"),
            T("Rl4co.Op.reachable_le_feasible", "proved", "the reachable optimum never exceeds the optimum over tours of length ≤ L"),
            T("Rl4co.Op.run_of_feasible_no_margin", "proved",
              "repaired clause: without the margin (budgets ≥ L − D j 0) the mask offers every canonical feasible tour, length = max_length included"),
            T("Rl4co.Op.run_iff_slack", "proved", "exact: a canonical feasible tour is a finished mask-confined run ⇔ it keeps the margin unused"),
            T("Rl4co.Op.hidden_iff", "proved", "the hidden set: feasible canonical tours NOT offered are exactly those with remaining slack in [0, margin)"),
            T("Rl4co.Op.opt_reachable_partial", "partial",
              "every feasible action list with that slack (canonical or not) has a finished mask-confined episode with the same prize")],
    "C06": [T("Rl4co.Op.check_complete", "proved", "Spec-feasible ⇒ checker accepts (depot triangle inequality)"),
            T("Rl4co.Op.check_sound_counterexample", "proved",
              "KNOWN FINDING: an action list that neither starts nor ends at the depot is measured without the depot legs"),
            T("Rl4co.Op.check_sound_partial", "partial",
              "checker accepts a list ending (or starting) at the depot ⇒ feasible within the checker tolerance"),
            T("Rl4co.Op.check_iff_cycle", "proved", "exact: accepted ⇔ in range, no repeated customer, CYCLE through the listed nodes within all bounds"),
            T("Rl4co.Op.check_iff_of_closed", "proved", "exact for lists closed at the depot: accepted ⇔ … tour through the depot within all bounds"),
            T("Rl4co.Op.check_iff_feasibleWithin", "proved", "bounds = L + tol ⇒ (accepted ⇔ feasible within tol) for lists closed at the depot"),
            T("Rl4co.Op.check_complete_precomp", "proved", "completeness with the checker bound `L + 1e-5` (extracted) inside the model"),
            T("Rl4co.Op.check_sound_precomp", "partial", "soundness for closed lists with the checker bound inside the model"),
            T("Rl4co.Op.checkRepaired_iff", "proved", "repaired clause: with the depot prepended the checker is exact (accepted ⇔ feasible within tol) for ALL lists"),
            T("Rl4co.Op.wrongly_accepted_iff", "proved", "the wrongly accepted set: in range, no repeat, cycle within the bound, tour through the depot beyond it"),
            T("Rl4co.Op.checkRepaired_eq_of_closed", "proved", "shipped and repaired checker agree on lists closed at the depot"),
            T("Rl4co.Op.check_single_column_batch", "proved",
              "on single-column action tensors the batched checker's verdict is the conjunction of the row-wise verdicts "
              "(upstream fix 9be001b; the real batched checker is compared with this model as a regression probe)")],
}
PC_THMS = {
    "C01": [T("Rl4co.Pctsp.feasible_of_run", "proved",
              "every mask-confined finished (S)PCTSP episode visits customers at most once and collects real prize ≥ 1 or visits all"),
            T("Rl4co.Pctsp.realPrize_eq", "proved", "token obligation: the stochastic env collects `stochastic_prize`, the deterministic one `deterministic_prize`"),
            T("Rl4co.Pctsp.stepPrize_eq", "proved", "token obligation: `_step` accumulates `real_prize` (not the expected prize)"),
            T("Rl4co.Pctsp.spctsp_real_is_sto", "proved", "token obligation: `SPCTSPEnv._stochastic = True`"),
            T("Rl4co.Pctsp.pctsp_real_is_det", "proved", "token obligation: `PCTSPEnv._stochastic = False`"),
            T("Rl4co.Pctsp.step_tot_generated", "proved", "generated `_step` prize expression = model (rfl)"),
            T("Rl4co.Pctsp.reward_generated", "proved", "generated `_get_reward` return expression = model (rfl)")],
    "C02": [T("Rl4co.Pctsp.mask_nonempty", "proved", "every reachable state offers an action"),
            T("Rl4co.Pctsp.done_stable", "proved", "done is absorbing under admitted steps from reachable states"),
            T("Rl4co.Pctsp.steps_le", "proved", "an unfinished mask-confined run has at most max(n+1, 2) steps")],
    "C03": [T("Rl4co.Pctsp.reward_eq_objective", "proved",
              "reward of a finished mask-confined episode = −(tour length + penalties of unvisited), stochastic or deterministic")],
    "C04": [T("Rl4co.Pctsp.pad_noop", "proved", "a padding step after done is the depot and changes neither done, mask nor reward")],
    "C05": [T("Rl4co.Pctsp.run_of_feasible", "proved",
              "every canonical feasible solution (prize exactly 1 included) is a finished mask-confined run"),
            T("Rl4co.Pctsp.opt_reachable", "proved",
              "for every feasible action list some finished mask-confined episode has reward ≥ −its objective (optimum reachable)"),
            T("Rl4co.Pctsp.mask_depot_iff", "proved", "the depot is offered ⇔ collected prize ≥ 1.0 (equality included) or no customer left, in every state"),
            T("Rl4co.Pctsp.depot_offered_at_exactly_required", "proved", "at cur_total_prize = 1.0 exactly the return is admitted"),
            T("Rl4co.Pctsp.depot_masked_below_required", "proved", "below 1.0 with a customer left the return is masked"),
            T("Rl4co.Pctsp.run_of_feasible_exact", "proved", "a canonical solution collecting EXACTLY the required prize is a finished mask-confined run"),
            T("Rl4co.Pctsp.opt_eq", "proved",
              "equation of optima: v is the best reward over finished mask-confined episodes ⇔ v is the optimum over feasible solutions")],
    "C06": [T("Rl4co.Pctsp.check_complete", "proved", "Spec-feasible ⇒ checker accepts"),
            T("Rl4co.Pctsp.check_sound", "proved", "checker accepts ⇒ feasible within the prize tolerance"),
            T("Rl4co.Pctsp.check_iff_feasibleWithin", "proved", "exact iff: accepted ⇔ feasible within the prize tolerance (any list)"),
            T("Rl4co.Pctsp.check_zero_iff_feasible", "proved", "with tolerance 0 the checker decides feasibility exactly"),
            T("Rl4co.Pctsp.check_sound_extracted", "proved", "with the extracted `1 − 1e-5`: accepted ⇒ prize ≥ 99999/100000 of the requirement or all visited")],
}

ROUTINES = {
    "C01": with_generic(with_glue(envcorr.check_feasibility)),
    "C02": with_glue(envcorr.check_termination),
    "C03": with_generic(with_glue(check_reward_prize)),
    "C04": with_glue(envcorr.check_batch_independence),
    "C05": with_glue(check_completeness_prize),
    "C06": with_glue(check_checker_prize),
}

for _p, _run in ROUTINES.items():
    _unit(_p, OP, _run, "Op", OP_THMS[_p], NOTE_OP)
    _unit(_p, PC, _run, "Pctsp", PC_THMS[_p], NOTE_PC)
    _unit(_p, SP, _run, "Pctsp", PC_THMS[_p], NOTE_PC)

if _module_text("Rl4co.Props.C12.Op"):
    register(Unit("C12", "op-starts", lambda ctx: check_forced_starts(ctx, OP), drivers=["drv_op", "drv_ops"],
                  lean_modules=["Rl4co.Props.C12.Op"],
                  theorems=[T("Rl4co.Op.forced_start_admitted", "proved",
                              "every start forced by select_start_nodes (C12 model) on the OP model's reset mask is an admitted first move"),
                            T("Rl4co.Op.forced_rollout_feasible", "proved",
                              "every mask-confined continuation of a forced start is a feasible orienteering solution")],
                  assumptions=[NOTE_OP, "interface of the C12 start-node model (Rl4co/Train/Select.lean) with the OP environment model"]))


def check_gen_link(ctx, ad, batches_quick: int = 10, batches_thorough: int = 120):
    """C18 → environment link for PCTSP / SPCTSP: instances of the bundled generator satisfy `Rl4co.Pctsp.GenWF`
    (evaluated on the real draws in float64) and finished mask-confined episodes that leave a customer unvisited have
    collected an EXPECTED prize ≥ 1/2 (theorem `expected_ge_half_of_done`; ≥ 1 for PCTSP)."""
    for g in range(ctx.budget(batches_quick, batches_thorough)):
        n = ctx.rng.choice([1, 2, 5, 10, 20, 50])
        B = ctx.rng.choice([1, 4, 16])
        torch.manual_seed(ctx.rng.randrange(1 << 31))
        env = ad.env_class()(generator_params=dict(num_loc=n, penalty_factor=ctx.rng.choice([3.0, 0.5, 10.0])), check_solution=False)
        td0 = env.generator(batch_size=[B])
        det, sto, pen = (td0[k].double() for k in ("deterministic_prize", "stochastic_prize", "penalty"))
        ok = bool((det >= 0).all() and (n * det < 4 + 1e-6).all() and (sto >= 0).all() and (sto <= 2 * det + 1e-7).all() and (pen >= 0).all())
        ctx.count(f"{ad.name}.genwf.n={n}", B)
        if not ok:
            ctx.violation(f"{ad.name}:generator-not-GenWF", "a generator instance violates the ranges of Rl4co.Pctsp.GenWF",
                          {"n": n, "det": det.tolist()[:2], "sto": sto.tolist()[:2], "pen": pen.tolist()[:2]})
        ep = rl.run_episode(env, td0, envcorr.uniform_chooser(ctx.rng), max_steps=20 * (n + 2) + 50)
        for r in range(B):
            cust = sorted(set(a for a in ep.actions[r] if a != 0))
            expected = float(sum(det[r, a - 1] for a in cust))
            ctx.case((ad.name, "genlink", g, r, tuple(ep.actions[r])))
            if len(cust) < n:
                ctx.count(f"{ad.name}.genwf.episodes-leaving-customers")
                if 2 * expected < 1 - 1e-5 or (not ad.stochastic and expected < 1 - 1e-5):
                    ctx.violation(f"{ad.name}:expected-prize-below-half", "finished episode with unvisited customers collected an "
                                  "expected prize below 1/2 (PCTSP: below 1)", {"n": n, "actions": ep.actions[r], "expected": expected})
            ctx.sample({"env": ad.name, "n": n, "actions": ep.actions[r], "expected_prize": expected}, cap=4)


if _module_text("Rl4co.Props.C18.Pctsp"):
    for _ad in (PC, SP):
        register(Unit("C18", f"{_ad.name}-genwf", (lambda ctx, ad=_ad: check_gen_link(ctx, ad)), drivers=[],
                      lean_modules=["Rl4co.Props.C18.Pctsp"],
                      theorems=[T("Rl4co.Pctsp.genInst_wf", "proved", "generator draws in [0,1) give a GenWF instance (via Gen.pctsp_ranges)"),
                                T("Rl4co.Pctsp.collected_le_twice_expected", "proved", "real prize collected ≤ 2 × expected prize (GenWF)"),
                                T("Rl4co.Pctsp.expected_ge_half_of_done", "proved",
                                  "a finished mask-confined episode leaving a customer unvisited has expected prize ≥ requirement/2"),
                                T("Rl4co.Pctsp.gen_c02", "proved", "C18 → C02 chain: no dead end, step bound, no hypothesis"),
                                T("Rl4co.Pctsp.admitted_customers_indep", "proved",
                                  "customer moves are admitted independently of the prizes / the stochastic flag")],
                      assumptions=[NOTE_PC, "generator ranges are evaluated on the real draws in float64 (no Lean driver involved)"]))


def check_spec_sanity(ctx, ad, cases_quick: int = 60, cases_thorough: int = 600):
    """Spec-level sanity through the executable Spec oracle (driver `*.check`): on random action lists (feasible or
    not) the Spec verdict and objective are invariant under the symmetries the lemmas of `…SpecSanity.lean` state:
    reversal (symmetric distances), depot padding, and — for the prize part — reordering."""
    for g in range(ctx.budget(cases_quick, cases_thorough)):
        env, var = envcorr.pick_env(ctx, ad)
        n = ctx.rng.choice([1, 2, 3, 5, 8])
        inst = ad.gen_instance(ctx.rng, n, ctx.rng.choice(ad.kinds()), **var)
        sol = ctx.rng.sample(range(1, n + 1), ctx.rng.randint(0, n))
        if ctx.rng.random() < 0.5:
            sol = sol + [0]
        if ctx.rng.random() < 0.2 and sol:
            sol = sol + [sol[0]]  # a repeated customer: infeasible both ways
        variants = {"reversed": list(reversed(sol)), "padded": sol + [0], "shuffled": ctx.rng.sample(sol, len(sol))}
        reps = ctx.driver.ask_many([ad.line("check", inst, s) for s in [sol] + list(variants.values())])
        fs = [parse_fields(r) for r in reps]
        base = fs[0]
        ctx.case((ad.name, "spec-sanity", repr(inst), tuple(sol)))
        ctx.count(f"{ad.name}.spec-sanity.{'feasible' if base.get('feas') == '1' else 'infeasible'}")
        for (lab, s2), f in zip(variants.items(), fs[1:]):
            same_feas = lab != "shuffled"  # reordering changes the length (OP) but never the prize part
            if same_feas and f.get("feas") != base.get("feas"):
                ctx.disagreement(f"{ad.name}: Spec feasibility not invariant under `{lab}`", {"inst": inst, "actions": sol, lab: s2})
            obj_inv = (ad.name == "op") or lab != "shuffled"
            if obj_inv and lab != "padded" and f.get("obj") != base.get("obj"):
                ctx.disagreement(f"{ad.name}: Spec objective not invariant under `{lab}`", {"inst": inst, "actions": sol, lab: s2})
        ctx.sample({"env": ad.name, "actions": sol, "spec_feasible": base.get("feas"), "objective": base.get("obj")}, cap=4)


def check_op_gen_chain(ctx, ad, batches_quick: int = 12, batches_thorough: int = 150):
    """C18 → C02 chain for OP: the real generator with each of the three prize types emits prizes in [0.01, 1]
    (`genPrize_range`), and episodes through the real mask have no dead end and finish within max(n+1, 2) steps
    (`gen_c02`)."""
    from rl4co.envs.routing.op.env import OPEnv

    for g in range(ctx.budget(batches_quick, batches_thorough)):
        n = ctx.rng.choice([1, 2, 5, 10, 20, 50])
        B = ctx.rng.choice([1, 4, 16])
        pt = ["const", "unif", "dist"][g % 3]
        torch.manual_seed(ctx.rng.randrange(1 << 31))
        env = OPEnv(generator_params=dict(num_loc=n, prize_type=pt, max_length=ctx.rng.choice([0.5, 2.0, 4.0])), prize_type=pt,
                    check_solution=False)
        td0 = env.generator(batch_size=[B])
        pr = td0["prize"].double()
        ctx.count(f"op.gen.prize_type={pt}", B)
        if not bool((pr >= 0.01 - 1e-9).all() and (pr <= 1 + 1e-9).all()):
            ctx.violation("op:generator-prize-out-of-range", f"prize_type={pt}: a generated prize is outside [0.01, 1]",
                          {"n": n, "prize": pr.tolist()[:2]})
        try:
            ep = rl.run_episode(env, td0, envcorr.uniform_chooser(ctx.rng), max_steps=20 * (n + 2) + 50)
        except RuntimeError as e:
            ctx.violation("op:generic:no-termination", str(e), {"n": n, "prize_type": pt})
            continue
        for r in range(B):
            d = ep.done[r]
            first = d.index(1) if 1 in d else None
            ctx.case(("op", "gen-chain", g, r, tuple(ep.actions[r])))
            if ep.empty_mask_rows or first is None or first > max(n + 1, 2):
                ctx.violation("op:generator-instance-c02", "dead end / step bound exceeded on a generator instance",
                              {"n": n, "prize_type": pt, "actions": ep.actions[r], "first_done": first})
        ctx.sample({"env": "op", "prize_type": pt, "n": n, "prize": pr[0].tolist()[:5], "actions": ep.actions[0]}, cap=6)


for _ad, _fam in ((OP, "Op"), (PC, "Pctsp"), (SP, "Pctsp")):
    _m = f"Rl4co.Props.C01.{_fam}SpecSanity"
    if _module_text(_m):
        _ns = f"Rl4co.Spec.{_fam}"
        _th = [T(f"{_ns}.feasibleWithin_zero_iff", "proved", "tolerance 0 is feasibility"),
               T(f"{_ns}.feasibleWithin_mono", "proved", "FeasibleWithin is monotone in the tolerance"),
               T(f"{_ns}.feasible_reverse", "proved", "symmetric distances: a tour and its reversal are feasible together, same objective")]
        _th += ([T(f"{_ns}.feasible_nil", "proved", "a feasible solution always exists (stay at the depot)"),
                 T(f"{_ns}.objective_perm", "proved", "the collected prize is invariant under reordering the visits"),
                 T(f"{_ns}.objective_pad", "proved", "… and under depot padding"),
                 T(f"{_ns}.objective_mono", "proved", "non-negative prizes: visiting more never collects less"),
                 T(f"{_ns}.feasible_mono", "proved", "feasibility is monotone in the budget")] if _fam == "Op" else
                [T(f"{_ns}.feasible_allTour", "proved", "a feasible solution exists for EVERY instance (visit everybody)"),
                 T(f"{_ns}.collected_congr", "proved", "the collected prize depends on the visited set only"),
                 T(f"{_ns}.feasible_mono_req", "proved", "lowering the requirement keeps solutions feasible")])
        register(Unit("C01", f"{_ad.name}-spec", (lambda ctx, ad=_ad: check_spec_sanity(ctx, ad)),
                      drivers=["drv_op" if _fam == "Op" else "drv_pctsp"], lean_modules=[_m], theorems=_th,
                      assumptions=["Spec-level sanity: lemmas about the independent problem definition only (no environment model)"]))

if _module_text("Rl4co.Props.C18.Op"):
    register(Unit("C18", "op-genwf", lambda ctx: check_op_gen_chain(ctx, OP), drivers=[], lean_modules=["Rl4co.Props.C18.Op"],
                  theorems=[T("Rl4co.Op.genPrize_range", "proved", "every prize type (const, unif, dist) emits prizes in [0.01, 1] (via Gen.op_prize_total)"),
                            T("Rl4co.Op.gen_objective_mono", "proved", "on generator instances visiting more customers never collects less"),
                            T("Rl4co.Op.gen_c02", "proved", "C02 for all three prize types: no dead end, step bound max(n+1, 2), no hypothesis")],
                  assumptions=[NOTE_OP, "generator ranges are evaluated on the real draws in float64 (no Lean driver involved)"]))
