"""Improvement environments (C09, and the C06 clauses of their checkers).

Real code: `TSPkoptEnv` (2-opt, NeuOpt k-opt), `PDPRuinRepairEnv`, and the moves chosen by the bundled
policies DACT / N2S / NeuOpt.  Model: `Rl4co.Improve` (lean/Rl4co/Env/Improve.lean); oracle:
`Rl4co.Spec.Improve` (single cycle, pickup before delivery, tour length).

Units
  C09 kopt      `_local_operator` (2-opt for ALL (a,b); k-opt for ALL admitted node sequences of the
                action builder) on tiny tours exhaustively + random n ≤ 50; `get_mask`; `_random_action`
  C09 pdprr     `_local_operator` for ALL (pair, first, second) on tiny valid tours + random; `get_mask`
                entry by entry; `_random_action`
  C09 bsf       `_reset` + sequences of `_step` with admitted moves: rec_current, rec_best, cost_current,
                cost_bsf, reward, visited_time each step (exact costs from integral point sets)
  C09 policies  DACT / N2S / NeuOpt (random weights, eval mode, tiny sizes): every emitted move admitted
                by the mask, tours stay valid, bookkeeping as in `bsf`
  C06 kopt / pdprr   `check_solution_validity` on valid tours and single-fault corruptions
"""
from __future__ import annotations

import contextlib
import itertools
import os
from typing import Dict, List, Optional, Sequence, Tuple

import geom
import rl
from common import LEAN_DIR, Theorem, Unit, register
from leanio import parse_fields
from rl import TensorDict, torch

# ------------------------------------------------------------------------------------------------
# helpers: tours, environments, line formatting
# ------------------------------------------------------------------------------------------------


def seq_to_rec(seq: Sequence[int]) -> List[int]:
    rec = [0] * len(seq)
    for k, x in enumerate(seq):
        rec[x] = seq[(k + 1) % len(seq)]
    return rec


def rand_tour(rng, n: int) -> List[int]:
    seq = list(range(n))
    rng.shuffle(seq)
    return seq_to_rec(seq)


def all_tours(n: int):
    """every single cycle on 0..n-1 (as successor arrays)"""
    for perm in itertools.permutations(range(1, n)):
        yield seq_to_rec((0,) + perm)


def pdp_orders(gs: int):
    """every visiting order 0, … of a valid PDP tour (pickup i before delivery i + h)"""
    h = gs // 2
    for perm in itertools.permutations(range(1, gs)):
        pos = {x: k for k, x in enumerate(perm)}
        if all(pos[i] < pos[i + h] for i in range(1, h + 1)):
            yield (0,) + perm


def rand_pdp_tour(rng, gs: int) -> List[int]:
    h = gs // 2
    seq, open_, left = [0], [], list(range(1, h + 1))
    while left or open_:
        cand = left + open_
        x = rng.choice(cand)
        seq.append(x)
        if x <= h:
            left.remove(x)
            open_.append(x + h)
        else:
            open_.remove(x)
    return seq_to_rec(seq)


def walk_from0(rec: Sequence[int]) -> List[int]:
    out, cur = [0], 0
    for _ in range(len(rec) - 1):
        cur = rec[cur]
        out.append(cur)
    return out


_ENVS: Dict[tuple, object] = {}


def kopt_env(n: int, K: int, init: str = "random", torchrl: bool = False, check_solution: bool = True):
    key = ("kopt", n, K, init, torchrl, check_solution)
    if key not in _ENVS:
        from rl4co.envs.routing.tsp.env import TSPkoptEnv

        _ENVS[key] = TSPkoptEnv(generator_params=dict(num_loc=n, init_sol_type=init), k_max=K, _torchrl_mode=torchrl,
                                check_solution=check_solution)
    return _ENVS[key]


def pdp_env(gs: int, init: str = "random", torchrl: bool = False, train: bool = True, check_solution: bool = True):
    key = ("pdp", gs, init, torchrl, train, check_solution)
    if key not in _ENVS:
        from rl4co.envs.routing.pdp.env import PDPRuinRepairEnv

        env = PDPRuinRepairEnv(generator_params=dict(num_loc=gs - 1, init_sol_type=init), _torchrl_mode=torchrl,
                               check_solution=check_solution)
        if not train:
            env.eval()  # `_reset` sizes `action_record` by `self.training`
        _ENVS[key] = env
    return _ENVS[key]


def J(xs) -> str:
    return " ".join(str(int(x)) for x in xs)


def ilist(s: str) -> List[int]:
    return [int(x) for x in s.split(",")] if s != "" else []


# ---- exact-stream geometry at arbitrary magnitude --------------------------------------------------
# A row's coordinates are (pt / 2^10 + off) * 2^exp with `pt` an integral point set on the 2^-10 grid
# (harness/geom.py), `off` an integer shift and `exp` a power-of-two scale.  Scaling by a power of two and
# shifting by a small integer keep every float32 operation of `get_costs` exact, so tour lengths are exact
# integers in units of 2^(exp-20); the Lean model works on the unscaled integer matrix.
EXPS = [0, 0, -3, -6, -8, -10, -10, -12, -12, -14, -14, -16, -16, 3, 6]
OFFS = [(0, 0), (0, 0), (0, 0), (3, 0), (100, 7), (1000, 1000)]


def gen_geo(rng, n: int, exp: Optional[int] = None) -> dict:
    fam = rng.choice(["line", "cross", "cross1", "cross1", "line", "neartie"])
    if fam == "cross1":
        # the Pythagorean cross at unit scale: distances 13/15/20/37 mix with integers along the axis, so tours can
        # differ by exactly ONE grid unit (on a line every closed tour has even length)
        cx, cy = rng.randrange(35, geom.GRID - 35), rng.randrange(12, geom.GRID - 12)
        base = [(cx + x, cy + y) for (x, y) in geom.CROSS]
        pts = rng.sample(base, n) if (n <= len(base) and rng.random() < 0.7) else [rng.choice(base) for _ in range(n)]
    elif fam == "neartie":
        # collinear points in clusters one grid unit apart: many equal-cost tours and minimal positive improvements
        base = [rng.randrange(100, 900) for _ in range(max(1, n // 2))]
        xs = [rng.choice(base) + rng.choice([0, 0, 1, -1, 2]) for _ in range(n)]
        fixed = rng.randrange(0, 1025)
        pts = [(x, fixed) for x in xs] if rng.random() < 0.5 else [(fixed, x) for x in xs]
    else:
        pts = geom.gen_points(rng, n, fam)
    return {"pts": pts, "exp": rng.choice(EXPS) if exp is None else exp, "off": rng.choice(OFFS)}


def geo_coords(g: dict) -> List[List[float]]:
    sc = 2.0 ** g["exp"]
    ox, oy = g["off"]
    return [[(x / geom.GRID + ox) * sc, (y / geom.GRID + oy) * sc] for (x, y) in g["pts"]]


def to_ticks(x, exp: int) -> int:
    """exact integer value of a float32 cost at scale 2^exp, in units of 2^(exp-20); raises if not on the grid"""
    v = float(x) * 2.0 ** (20 - exp)
    r = int(round(v))
    if r != v:
        raise ValueError(f"value {float(x)!r} is not on the 2^({exp}-20) grid")
    return r


def as_geo(g) -> dict:
    return g if isinstance(g, dict) else {"pts": [tuple(p) for p in g], "exp": 0, "off": (0, 0)}


def reset_with(env, kind: int, geos, recs: Optional[List[List[int]]]):
    """`env.reset` on exact-stream coordinates.  With `recs` the initial solutions are injected (the generator's
    own ones are replaced, everything else is the real `_reset`); with `recs=None` the generator's own
    `_get_initial_solutions` (option `init_sol_type`) is used."""
    geos = [as_geo(g) for g in geos]
    B = len(geos)
    c64 = torch.tensor([geo_coords(g) for g in geos], dtype=torch.float64)
    coords = c64.to(torch.float32)
    assert bool((coords.to(torch.float64) == c64).all()), "coordinates are not exactly representable in float32"
    if kind == 0:
        td0 = TensorDict({"depot": coords[:, 0, :], "locs": coords[:, 1:, :]}, batch_size=[B])
    else:
        td0 = TensorDict({"locs": coords}, batch_size=[B])
    if recs is None:
        return env.reset(td0)
    init = torch.tensor(recs, dtype=torch.long)
    old = env.generator._get_initial_solutions
    env.generator._get_initial_solutions = lambda c: init.clone()
    try:
        td = env.reset(td0)
    finally:
        env.generator._get_initial_solutions = old
    return td


def dummy_pts(n: int):
    return [(k, 0) for k in range(n)]


@contextlib.contextmanager
def peaked_rand(choices_per_call: List[List[int]]):
    """Replace `torch.rand` by a source whose k-th 2-D call is sharply peaked at the given node of each
    row, so that the builder loop of `_random_action` is driven through a prescribed node sequence
    (the softmax of the masked logits then puts probability 1 on that node iff it is not masked)."""
    real = torch.rand
    state = {"k": 0}

    def fake(*shape, **kw):
        if len(shape) == 2 and state["k"] < len(choices_per_call):
            out = torch.zeros(*shape)
            ch = choices_per_call[state["k"]]
            for r, c in enumerate(ch):
                out[r, c] = 60.0
            state["k"] += 1
            return out
        return real(*shape, **kw)

    torch.rand = fake
    try:
        yield
    finally:
        torch.rand = real


@contextlib.contextmanager
def record_decoding():
    """record, for every call of `DecodingStrategy.step` made by a policy, the mask it hands over and the index
    the strategy selects (the only thing of the network's output that enters the move)"""
    from rl4co.utils import decoding

    calls = []
    orig = decoding.DecodingStrategy.step

    def step(self, logits, mask=None, *a, **kw):
        out = orig(self, logits, mask, *a, **kw)
        sel = out[1] if isinstance(out, tuple) and len(out) == 2 else None
        calls.append((None if mask is None else mask.clone(), None if sel is None else sel.clone().reshape(-1)))
        return out

    decoding.DecodingStrategy.step = step
    try:
        yield calls
    finally:
        decoding.DecodingStrategy.step = orig


def seed_torch(ctx):
    torch.manual_seed(ctx.rng.randrange(1 << 30))


def spec_lines(kind: int, n: int, recs: List[List[int]], D: Optional[List[List[int]]] = None) -> List[str]:
    dm = J(v for row in D for v in row) if D is not None else ""
    return [f"improve.spec {kind} {n} | {dm} | {J(r)}" for r in recs]


# ------------------------------------------------------------------------------------------------
# C09 kopt: local operators, mask, random actions
# ------------------------------------------------------------------------------------------------


def _cmp_op2(ctx, n: int, recs: List[List[int]], acts: List[List[int]], what: str):
    env = kopt_env(n, 2)
    real = env._local_operator(torch.tensor(recs), torch.tensor(acts)).tolist()
    lines = [f"improve.kopt2 {n} | {J(r)} | {J(a)}" for r, a in zip(recs, acts)]
    reps = ctx.driver.ask_many(lines)
    sp = ctx.driver.ask_many(spec_lines(2, n, real))
    for r, a, out, rep, s in zip(recs, acts, real, reps, sp):
        f, g = parse_fields(rep), parse_fields(s)
        ctx.case(("op2", n, tuple(r), tuple(a)), nontrivial=a[0] != a[1])
        if ilist(f.get("rec", "")) != out:
            ctx.disagreement(f"kopt2 _local_operator differs ({what})",
                             {"n": n, "rec": r, "action": a, "real": out, "model": f.get("rec")})
        if a[0] != a[1] and g.get("tour") != "1":
            ctx.violation("kopt2:move-breaks-tour", "an admitted 2-opt move turns a tour into a non-tour (real code)",
                          {"n": n, "rec": r, "action": a, "result": out})
    ctx.count(f"kopt2.{what}.n={n}", len(recs))
    if recs:
        k = len(recs) // 2
        ctx.sample({"unit": "kopt", "op": "2-opt _local_operator", "n": n, "rec": recs[k], "action": acts[k], "real_result": real[k],
                    "spec_tour": parse_fields(sp[k]).get("tour"), "stream": what}, cap=6)


def _kopt2_mask(ctx, n: int):
    env = kopt_env(n, 2)
    td = reset_with(env, 2, [dummy_pts(n)], [seq_to_rec(list(range(n)))])
    m = env.get_mask(td)[0].tolist()
    reps = ctx.driver.ask_many([f"improve.kopt2 {n} | {J(range(n))} | {a} {b}" for a in range(n) for b in range(n)])
    model = [[parse_fields(reps[a * n + b])["mask"] == "1" for b in range(n)] for a in range(n)]
    if m != model:
        ctx.disagreement("kopt2 get_mask differs", {"n": n, "real": m, "model": model})
    ctx.count("kopt2.mask-matrices")


def _kopt2_random_action(ctx, n: int, B: int):
    env = kopt_env(n, 2)
    recs = [rand_tour(ctx.rng, n) for _ in range(B)]
    td = reset_with(env, 2, [dummy_pts(n)] * B, recs)
    seed_torch(ctx)
    act = env._random_action(td).tolist()
    for r, a in zip(recs, act):
        ctx.case(("ra2", n, tuple(r), tuple(a)))
        if not (0 <= a[0] < n and 0 <= a[1] < n and a[0] != a[1]):
            ctx.violation("kopt2:random-action-not-admitted", "`_random_action` emitted a move outside `get_mask`",
                          {"n": n, "rec": r, "action": a})
    _cmp_op2(ctx, n, recs, act, "random_action")


def _gen_tree(ctx, n: int, K: int, rec: List[int]) -> Tuple[List[List[int]], int]:
    """all node sequences (length K) the MODEL's action builder admits on `rec` (forced entries after a
    closed move are filled with the first node), by level-wise expansion; also counts rejected nodes."""
    level = [[]]
    zero = J([0] * n)
    rejected = 0
    for i in range(K):
        lines = [f"improve.koptgen {n} {K} | {J(rec)} | {zero} | {J(p)}" for p in level]
        reps = [parse_fields(x) for x in ctx.driver.ask_many(lines)]
        nxt = []
        for p, f in zip(level, reps):
            if i > 0 and f["stopped"] == "1":
                nxt.append(p + [p[0]])
                continue
            free = [j for j, c in enumerate(f["next"]) if c == "0"]
            rejected += n - len(free)
            if not free:
                ctx.violation("koptk:builder-dead-end", "the action builder masks every node at a sub-step (model)",
                              {"n": n, "K": K, "rec": rec, "prefix": p})
            nxt += [p + [j] for j in free]
        level = nxt
    return level, rejected


def _cmp_builder(ctx, n: int, K: int, recs: List[List[int]], choices: List[List[int]], what: str,
                 real_actions: Optional[List[List[int]]] = None):
    """model builder + k-opt operator vs the real ones for the node sequences `choices` (one per row).
    With `real_actions=None` the real `_random_action` is driven through `choices` by a peaked random source."""
    env = kopt_env(n, K)
    B = len(recs)
    if real_actions is None:
        real_actions = []
        CH = 512
        for k0 in range(0, B, CH):
            rs, cs = recs[k0:k0 + CH], choices[k0:k0 + CH]
            td = reset_with(env, K, [dummy_pts(n)] * len(rs), rs)
            with peaked_rand([[c[i] for c in cs] for i in range(K)]):
                real_actions += env._random_action(td).tolist()
    real_next = []
    for k0 in range(0, B, 2048):
        real_next += env._local_operator(torch.tensor(recs[k0:k0 + 2048]), torch.tensor(real_actions[k0:k0 + 2048])).tolist()
    zero = J([0] * n)
    reps = ctx.driver.ask_many([f"improve.koptgen {n} {K} | {J(r)} | {zero} | {J(c)}" for r, c in zip(recs, choices)])
    sp = ctx.driver.ask_many(spec_lines(K, n, real_next))
    for r, c, ra, rn, rep, s in zip(recs, choices, real_actions, real_next, reps, sp):
        f, g = parse_fields(rep), parse_fields(s)
        ctx.case(("opk", n, K, tuple(r), tuple(c)), nontrivial=f.get("stopped") != "1" or len(set(c)) > 2)
        if ilist(f.get("action", "")) != ra:
            ctx.disagreement(f"k-opt action builder differs ({what})",
                             {"n": n, "K": K, "rec": r, "nodes": c, "real": ra, "model": f.get("action")})
            continue
        if f.get("adm") != "1":
            ctx.disagreement(f"k-opt: the real builder emitted a node sequence the model's masks reject ({what})",
                             {"n": n, "K": K, "rec": r, "nodes": c, "masks": f.get("masks")})
        if f.get("wf") != "1":
            # the hypothesis of the partial theorem `KoptK.koptMove_isTour` (decidable, evaluated by Lean on the
            # REAL action): if it fails, the proved part of C09 does not cover this emitted move
            ctx.disagreement(f"k-opt: an emitted action is not a well-formed segment-reversal move ({what})",
                             {"n": n, "K": K, "rec": r, "action": ra})
        else:
            ctx.count(f"koptk.{what}.wellformed-moves")
        if ilist(f.get("rec", "")) != rn:
            ctx.disagreement(f"k-opt _local_operator differs ({what})",
                             {"n": n, "K": K, "rec": r, "action": ra, "real": rn, "model": f.get("rec")})
        if g.get("tour") != "1":
            ctx.violation("koptk:move-breaks-tour", "a k-opt move of the action builder turns a tour into a non-tour (real code)",
                          {"n": n, "K": K, "rec": r, "action": ra, "result": rn})
        segs = len(set(c))
        ctx.count(f"koptk.{what}.K={K}.distinct-nodes={segs}")
    ctx.count(f"koptk.{what}.n={n}", B)
    if B:
        k = B // 2
        ctx.sample({"unit": "kopt", "op": "k-opt builder + _local_operator", "n": n, "K": K, "rec": recs[k], "nodes": choices[k],
                    "real_action": real_actions[k], "real_result": real_next[k], "stream": what}, cap=6)


def _koptk_random_action(ctx, n: int, K: int, B: int):
    env = kopt_env(n, K)
    recs = [rand_tour(ctx.rng, n) for _ in range(B)]
    td = reset_with(env, K, [dummy_pts(n)] * B, recs)
    seed_torch(ctx)
    act = env._random_action(td).tolist()
    _cmp_builder(ctx, n, K, recs, [a[:K] for a in act], "random_action", real_actions=act)


def run_kopt(ctx):
    thorough = ctx.tier == "thorough" or ctx.searching
    # (1) 2-opt: every tour × every (a, b) on tiny n
    for n in ([3, 4, 5, 6] if not thorough else [2, 3, 4, 5, 6, 7, 8]):
        recs, acts = [], []
        for rec in all_tours(n):
            for a in range(n):
                for b in range(n):
                    recs.append(rec)
                    acts.append([a, b])
        _cmp_op2(ctx, n, recs, acts, "exhaustive")
        _kopt2_mask(ctx, n)
    # sampled tours, all pairs, n = 7, 8
    for n in [7, 8, 9]:
        recs, acts = [], []
        for _ in range(ctx.budget(12, 200)):
            rec = rand_tour(ctx.rng, n)
            for a in range(n):
                for b in range(n):
                    recs.append(rec)
                    acts.append([a, b])
        _cmp_op2(ctx, n, recs, acts, "all-pairs")
    # random n ≤ 50: all relative positions get hit (adjacent, wrap-around, whole tour)
    for _ in range(ctx.budget(12, 400)):
        n = ctx.rng.choice([9, 10, 13, 20, 31, 50])
        recs, acts = [], []
        for _ in range(40):
            rec = rand_tour(ctx.rng, n)
            a = ctx.rng.randrange(n)
            kind = ctx.rng.choice(["rand", "succ", "pred", "rand", "succ2"])
            b = {"rand": ctx.rng.randrange(n), "succ": rec[a], "pred": rec.index(a), "succ2": rec[rec[a]]}[kind]
            recs.append(rec)
            acts.append([a, b])
            ctx.count(f"kopt2.random.kind={kind}")
        _cmp_op2(ctx, n, recs, acts, "random")
    for _ in range(ctx.budget(6, 40)):
        _kopt2_random_action(ctx, ctx.rng.choice([3, 4, 5, 8, 20, 50]), 16)
    # (2) k-opt: every node sequence the builder admits, tiny n
    grid = [(4, 3), (5, 3), (5, 4), (6, 3), (6, 4), (7, 5), (8, 6)] if not thorough else \
        [(4, 3), (4, 4), (5, 3), (5, 4), (5, 5), (6, 3), (6, 4), (6, 5), (7, 3), (7, 4), (7, 5), (8, 4), (8, 6)]
    for (n, K) in grid:
        tours = [seq_to_rec(list(range(n)))] + [rand_tour(ctx.rng, n) for _ in range((2 if K <= 4 else 1) if not thorough else 4)]
        recs, choices = [], []
        for rec in tours:
            seqs, rejected = _gen_tree(ctx, n, K, rec)
            ctx.count("koptk.exhaustive.masked-nodes-skipped", rejected)
            recs += [rec] * len(seqs)
            choices += seqs
        _cmp_builder(ctx, n, K, recs, choices, "exhaustive")
        # nodes the model masks must not be selectable in the real builder either: drive the real
        # builder towards a masked node and check that it does not come out
        _masked_nodes_rejected(ctx, n, K, tours[0])
    for _ in range(ctx.budget(10, 300)):
        n = ctx.rng.choice([4, 5, 6, 8, 10, 20, 50])
        K = ctx.rng.choice([3, 4, 5, 6])
        _koptk_random_action(ctx, n, K, 24)
    ctx.count("koptk.k_max-values-covered=" + ",".join(str(k) for k in sorted({K for _, K in grid} | {3, 4, 5, 6})))


def _masked_nodes_rejected(ctx, n: int, K: int, rec: List[int]):
    """for a sample of admitted prefixes, ask the real builder for a node the model masks at the next
    sub-step; the real `_random_action` must then emit a different node there."""
    seqs, _ = _gen_tree(ctx, n, K, rec)
    if not seqs:
        return
    zero = J([0] * n)
    cases = []
    sample = seqs if len(seqs) <= 60 else ctx.rng.sample(seqs, 60)
    reps = [parse_fields(x) for x in ctx.driver.ask_many([f"improve.koptgen {n} {K} | {J(rec)} | {zero} | {J(c)}" for c in sample])]
    for c, f in zip(sample, reps):
        masks = f["masks"].split(",")
        for i in range(1, K):
            # was the row already closed before sub-step i?  then the choice is forced, skip
            closed = any(c[j] == rec[c[j - 1]] for j in range(1, i))
            if closed:
                break
            banned = [j for j, ch in enumerate(masks[i]) if ch == "1"]
            if banned:
                cases.append((c[:i], ctx.rng.choice(banned), i))
    if not cases:
        return
    env = kopt_env(n, K)
    td = reset_with(env, K, [dummy_pts(n)] * len(cases), [rec] * len(cases))
    per_call = []
    for i in range(K):
        per_call.append([(pre[i] if i < len(pre) else (bad if i == len(pre) else 0)) for (pre, bad, _) in cases])
    with peaked_rand(per_call):
        act = env._random_action(td).tolist()
    for (pre, bad, i), a in zip(cases, act):
        ctx.case(("opk-masked", n, K, tuple(pre), bad))
        if a[:i] == pre and a[i] == bad:
            ctx.disagreement("k-opt: the real builder lets a node through that the model masks",
                             {"n": n, "K": K, "rec": rec, "prefix": pre, "node": bad, "real_action": a})
    ctx.count("koptk.masked-node-probes", len(cases))


# ------------------------------------------------------------------------------------------------
# C09 pdprr
# ------------------------------------------------------------------------------------------------


def _cmp_pdp_op(ctx, gs: int, recs: List[List[int]], acts: List[List[int]], what: str, real_mask=None):
    env = pdp_env(gs)
    real = []
    for k0 in range(0, len(recs), 4096):
        real += env._local_operator(torch.tensor(recs[k0:k0 + 4096]), torch.tensor(acts[k0:k0 + 4096])).tolist()
    reps = ctx.driver.ask_many([f"improve.pdprr {gs} | {J(r)} | {J(a)}" for r, a in zip(recs, acts)])
    sp = ctx.driver.ask_many(spec_lines(0, gs, real))
    for k, (r, a, out, rep, s) in enumerate(zip(recs, acts, real, reps, sp)):
        f, g = parse_fields(rep), parse_fields(s)
        adm = f.get("mask") == "1"
        ctx.case(("pdpop", gs, tuple(r), tuple(a)), nontrivial=adm)
        if ilist(f.get("rec", "")) != out:
            ctx.disagreement(f"pdp _local_operator differs ({what})",
                             {"gs": gs, "rec": r, "action": a, "real": out, "model": f.get("rec")})
        if real_mask is not None and real_mask[k] != adm:
            ctx.disagreement(f"pdp get_mask differs ({what})",
                             {"gs": gs, "rec": r, "action": a, "real": real_mask[k], "model": adm})
        if adm and g.get("valid") != "1":
            ctx.violation("pdprr:move-breaks-tour",
                          "a mask-admitted ruin-repair move yields a non-tour or a delivery before its pickup (real code)",
                          {"gs": gs, "rec": r, "action": a, "result": out, "tour": g.get("tour")})
        ctx.count(f"pdprr.{what}.admitted={int(adm)}")
        if adm:
            ctx.count(f"pdprr.{what}.first{'=' if a[1] == a[2] else '<'}second" + (".first=depot" if a[1] == 0 else ""))
    ctx.count(f"pdprr.{what}.gs={gs}", len(recs))
    if recs:
        k = len(recs) // 2
        ctx.sample({"unit": "pdprr", "op": "ruin-repair _local_operator", "gs": gs, "rec": recs[k], "action": acts[k],
                    "real_result": real[k], "model_mask": parse_fields(reps[k]).get("mask"),
                    "spec_valid": parse_fields(sp[k]).get("valid"), "stream": what}, cap=6)


def _pdp_masks(ctx, gs: int, recs: List[List[int]]):
    """real `get_mask(p, td)` (whole gs×gs matrix, every pickup p) vs the model, on `visited_time` of the real reset"""
    env = pdp_env(gs)
    B = len(recs)
    td = reset_with(env, 0, [dummy_pts(gs)] * B, recs)
    vt_real = td["visited_time"].tolist()
    lines, reals = [], []
    for p in range(1, gs // 2 + 1):
        m = env.get_mask(torch.full((B, 1), p, dtype=torch.long), td)
        for r in range(B):
            reals.append(("".join("1" if x else "0" for row in m[r].tolist() for x in row), vt_real[r]))
            lines.append(f"improve.pdpmask {gs} | {J(recs[r])} | {p}")
    reps = ctx.driver.ask_many(lines)
    for ln, (rm, vt), rep in zip(lines, reals, reps):
        f = parse_fields(rep)
        ctx.case(("pdpmask", ln))
        if f.get("mask") != rm:
            ctx.disagreement("pdp get_mask matrix differs", {"line": ln, "real": rm, "model": f.get("mask")})
        if ilist(f.get("vt", "")) != [int(v) for v in vt]:
            ctx.disagreement("pdp visited_time at reset differs", {"line": ln, "real": vt, "model": f.get("vt")})
    ctx.count(f"pdprr.mask-matrices.gs={gs}", len(lines))


def _pdp_random_action(ctx, gs: int, B: int):
    env = pdp_env(gs)
    recs = [rand_pdp_tour(ctx.rng, gs) for _ in range(B)]
    td = reset_with(env, 0, [dummy_pts(gs)] * B, recs)
    seed_torch(ctx)
    act = env._random_action(td).tolist()
    reps = ctx.driver.ask_many([f"improve.pdprr {gs} | {J(r)} | {J(a)}" for r, a in zip(recs, act)])
    for r, a, rep in zip(recs, act, reps):
        if parse_fields(rep).get("mask") != "1":
            ctx.violation("pdprr:random-action-not-admitted", "`_random_action` emitted a move outside `get_mask` (model mask)",
                          {"gs": gs, "rec": r, "action": a})
    _cmp_pdp_op(ctx, gs, recs, act, "random_action")


def run_pdprr(ctx):
    thorough = ctx.tier == "thorough" or ctx.searching
    for gs in [3, 5, 7]:
        orders = list(pdp_orders(gs))
        if gs == 7 and not thorough:
            orders = ctx.rng.sample(orders, 25)
        recs, acts = [], []
        for o in orders:
            rec = seq_to_rec(o)
            for p in range(gs // 2):
                for f in range(gs):
                    for s in range(gs):
                        recs.append(rec)
                        acts.append([p, f, s])
        _cmp_pdp_op(ctx, gs, recs, acts, "exhaustive")
        _pdp_masks(ctx, gs, [seq_to_rec(o) for o in (orders if len(orders) <= 30 else ctx.rng.sample(orders, 30))])
    for _ in range(ctx.budget(10, 400)):
        gs = ctx.rng.choice([9, 11, 21, 51])
        recs, acts = [], []
        for _ in range(40):
            rec = rand_pdp_tour(ctx.rng, gs)
            order = walk_from0(rec)
            p = ctx.rng.randrange(gs // 2)
            rest = [x for x in order if x not in (p + 1, p + 1 + gs // 2)]
            i = ctx.rng.randrange(len(rest))
            j = ctx.rng.choice([i, i, ctx.rng.randrange(i, len(rest)), len(rest) - 1])
            if ctx.rng.random() < 0.15:
                i, j = ctx.rng.randrange(gs), ctx.rng.randrange(gs)
                f, s = i, j
            else:
                f, s = rest[i], rest[j]
            recs.append(rec)
            acts.append([p, f, s])
        _cmp_pdp_op(ctx, gs, recs, acts, "random")
        _pdp_masks(ctx, gs, recs[:3])
    for _ in range(ctx.budget(6, 40)):
        _pdp_random_action(ctx, ctx.rng.choice([3, 5, 7, 11, 21, 51]), 16)


# ------------------------------------------------------------------------------------------------
# C09 bsf: `_step` sequences
# ------------------------------------------------------------------------------------------------


class Trace:
    """per-row record of the REAL observables after reset and after every step"""

    def __init__(self, B: int, exps: Optional[List[int]] = None):
        self.exps = exps or [0] * B
        self.cur = [[] for _ in range(B)]
        self.best = [[] for _ in range(B)]
        self.ccur = [[] for _ in range(B)]
        self.cbsf = [[] for _ in range(B)]
        self.rew = [[] for _ in range(B)]
        self.rewf = [[] for _ in range(B)]  # the float32 reward itself (magnitude statistics)
        self.vt = [[] for _ in range(B)]
        self.moves = [[] for _ in range(B)]
        self.inexact = False

    def snap(self, td, first: bool):
        # copies: `rec_best` is updated IN PLACE on the tensor held by td, so nothing may be kept by reference
        cur, best = td["rec_current"].tolist(), td["rec_best"].tolist()
        vt = td["visited_time"].tolist()
        for r in range(len(cur)):
            self.cur[r].append(cur[r])
            self.best[r].append(best[r])
            self.vt[r].append([int(v) for v in vt[r]])
            e = self.exps[r]
            self.rewf[r].append(0.0 if first else float(td["reward"][r]))
            try:
                self.ccur[r].append(to_ticks(td["cost_current"][r], e))
                self.cbsf[r].append(to_ticks(td["cost_bsf"][r], e))
                self.rew[r].append(0 if first else to_ticks(td["reward"][r], e))
            except ValueError:
                self.inexact = True
                self.ccur[r].append(None)
                self.cbsf[r].append(None)
                self.rew[r].append(None)


def move_str(m) -> str:
    return J(m)


def judge_trace(ctx, kind: int, n: int, geo, tr: Trace, r: int, what: str, admitted=None, opts=None):
    """(a) model vs real, every observable of every step; (b) the property itself on the REAL observables,
    judged with the Lean Spec (`improve.spec`: single cycle / precedence / tour length).  A move `[-1, *sol]`
    is `step_to_solution(td, sol)`."""
    geo = as_geo(geo)
    pts = geo["pts"]
    D = geom.D_ticks(pts)
    flat = J(v for row in D for v in row)
    moves = tr.moves[r]
    line = f"improve.steps {kind} {n} | {flat} | {J(tr.cur[r][0])} | " + " | ".join(J(m) for m in moves)
    f = parse_fields(ctx.driver.ask(line if moves else line.rstrip(" |")))
    wit = {"kind": kind, "n": n, "pts": pts, "exp": geo["exp"], "off": list(geo["off"]), "rec0": tr.cur[r][0],
           "moves": moves, "what": what, "opts": opts,
           "unit_of_costs": f"2^({geo['exp']}-20)"}
    if "cur" not in f:
        ctx.disagreement("improve.steps driver error", {"reply": f, "line": line[:400]})
        return
    model = {k: f[k].split(";") for k in ("cur", "best", "ccur", "cbsf", "rew", "vt")}
    T = len(moves)

    def compare():
        for t in range(T + 1):
            for key, real in (("cur", tr.cur[r][t]), ("best", tr.best[r][t]), ("vt", tr.vt[r][t])):
                if ilist(model[key][t]) != real:
                    ctx.disagreement(f"_step: {key} differs at step {t} ({what})",
                                     dict(wit, step=t, real=real, model=model[key][t]))
                    return
            for key, real in (("ccur", tr.ccur[r][t]), ("cbsf", tr.cbsf[r][t]), ("rew", tr.rew[r][t])):
                if real is not None and int(model[key][t]) != real:
                    ctx.disagreement(f"_step: {key} differs at step {t} ({what})",
                                     dict(wit, step=t, real=real, model=model[key][t]))
                    return

    compare()
    # (b) property on the real observables
    sp_cur = [parse_fields(x) for x in ctx.driver.ask_many(spec_lines(kind, n, tr.cur[r], D))]
    sp_best = [parse_fields(x) for x in ctx.driver.ask_many(spec_lines(kind, n, tr.best[r], D))]
    seen_min = None
    # a jump to an arbitrary solution is only "admitted" when that solution is valid
    for t in range(T + 1):
        w = dict(wit, step=t)
        if sp_cur[t]["valid"] != "1" and (admitted is None or all(admitted[:t])):
            ctx.violation(f"{what}:current-tour-invalid", "rec_current is not a valid tour after admitted moves", w)
            return
        if sp_best[t]["valid"] != "1" and (admitted is None or all(admitted[:t])):
            ctx.violation(f"{what}:best-tour-invalid", "rec_best is not a valid tour", w)
            return
        if tr.ccur[r][t] is None:
            continue
        c, b, rew = tr.ccur[r][t], tr.cbsf[r][t], tr.rew[r][t]
        seen_min = c if seen_min is None else min(seen_min, c)
        if int(sp_cur[t]["cost"]) != c:
            ctx.violation("bsf:cost-current", "cost_current ≠ length of rec_current", dict(w, cost_current=c, length=sp_cur[t]["cost"]))
            return
        if int(sp_best[t]["cost"]) != b:
            ctx.violation("bsf:cost-best", "cost_bsf ≠ length of rec_best", dict(w, cost_bsf=b, length=sp_best[t]["cost"], rec_best=tr.best[r][t]))
            return
        if b != seen_min:
            ctx.violation("bsf:not-min", "cost_bsf ≠ minimum over all tours seen", dict(w, cost_bsf=b, min_seen=seen_min))
            return
        if t > 0:
            pb = tr.cbsf[r][t - 1]
            if b > pb:
                ctx.violation("bsf:increases", "cost_bsf increased", dict(w, before=pb, after=b))
                return
            if rew != pb - b or rew < 0:
                ctx.violation("bsf:reward", "reward ≠ decrease of cost_bsf", dict(w, reward=rew, before=pb, after=b))
                return
    if tr.ccur[r][0] is not None and all(x is not None for x in tr.rew[r]):
        if sum(tr.rew[r][1:]) != tr.ccur[r][0] - tr.cbsf[r][T]:
            ctx.violation("bsf:reward-sum", "Σ rewards ≠ initial cost − best cost", wit)
    # ---- input distribution: magnitudes of the improvements that occurred ----
    top = what.split(".")[0]
    grid = geom.TICKS_PER_GRID
    for t in range(1, T + 1):
        rw, rf = tr.rew[r][t], tr.rewf[r][t]
        if rw is None:
            continue
        if rw > 0:
            ctx.count(f"{what}.improving-steps")
            bucket = "≤1e-7" if rf <= 1e-7 else "≤1e-5" if rf <= 1e-5 else "≤1e-3" if rf <= 1e-3 else "≤1" if rf <= 1 else ">1"
            ctx.count(f"{top}.improvement-float32-size.{bucket}")
            if rw == grid:
                ctx.count(f"{top}.improvement=exactly-one-grid-unit")
            elif rw == 2 * grid:
                ctx.count(f"{top}.improvement=two-grid-units")
        elif tr.ccur[r][t] == tr.cbsf[r][t - 1]:
            ctx.count(f"{what}.tie-with-bsf-steps")
        if moves[t - 1] and moves[t - 1][0] == -1:
            ctx.count(f"{top}.step_to_solution-steps")
        elif kind == 2 and tr.cur[r][t - 1][moves[t - 1][1]] == moves[t - 1][0]:
            ctx.count(f"{top}.kopt2-wrap-around-moves(rec[second]==first)")
    ctx.count(f"{what}.steps", T)
    ctx.count(f"{top}.scale=2^{geo['exp']}")
    if tuple(geo["off"]) != (0, 0):
        ctx.count(f"{top}.shifted-from-origin")
    ctx.case((what, kind, n, tuple(map(tuple, moves)), tuple(tr.cur[r][0]), geo["exp"]), nontrivial=T > 1)


def judge_batch(ctx, kind: int, n: int, geos, tr: Trace, what: str):
    """the BATCHED Lean model (`batchStepP`: column-wise `_step` with the masked in-place overwrite of rec_best)
    against the real batch: every observable of every row after every step."""
    geos = [as_geo(g) for g in geos]
    B = len(geos)
    T = len(tr.moves[0])
    secs = [J(v for row in geom.D_ticks(g["pts"]) for v in row) for g in geos]
    secs += [J(tr.cur[r][0]) for r in range(B)]
    for t in range(T):
        secs += [J(tr.moves[r][t]) for r in range(B)]
    f = parse_fields(ctx.driver.ask(f"improve.bsteps {kind} {n} {B} | " + " | ".join(secs)))
    if "rows" not in f:
        ctx.disagreement("improve.bsteps driver error", {"reply": str(f)[:300]})
        return
    for r, row in enumerate(f["rows"].split("#")):
        cur, best, ccur, cbsf, rew, vt = [c.split(";") for c in row.split("|")]
        for t in range(T + 1):
            bad = None
            if ilist(cur[t]) != tr.cur[r][t]:
                bad = ("cur", tr.cur[r][t], cur[t])
            elif ilist(best[t]) != tr.best[r][t]:
                bad = ("best", tr.best[r][t], best[t])
            elif ilist(vt[t]) != tr.vt[r][t]:
                bad = ("vt", tr.vt[r][t], vt[t])
            elif tr.cbsf[r][t] is not None and (int(ccur[t]), int(cbsf[t]), int(rew[t])) != (tr.ccur[r][t], tr.cbsf[r][t], tr.rew[r][t]):
                bad = ("costs", (tr.ccur[r][t], tr.cbsf[r][t], tr.rew[r][t]), (ccur[t], cbsf[t], rew[t]))
            if bad:
                ctx.disagreement(f"batched _step: {bad[0]} of row {r} differs at step {t} ({what})",
                                 {"kind": kind, "n": n, "B": B, "row": r, "step": t, "real": bad[1], "model": bad[2],
                                  "rec0": [tr.cur[q][0] for q in range(B)], "moves": [tr.moves[q][:t] for q in range(B)]})
                return
    ctx.count(f"{what}.batched-model-batches")
    ctx.count(f"{what}.batched-model-rows", B)


def real_moves(ctx, env, kind: int, n: int, td, how: str) -> List[List[int]]:
    """one admitted move per row, drawn through the REAL mask / the env's own sampler"""
    B = td.batch_size[0]
    if how == "sampler":
        seed_torch(ctx)
        return env._random_action(td).tolist()
    if kind == 2:
        m = env.get_mask(td)
        out = []
        for r in range(B):
            feas = [(a, b) for a in range(n) for b in range(n) if m[r, a, b]]
            out.append(list(ctx.rng.choice(feas)))
        return out
    if kind == 0:
        ps = [ctx.rng.randrange(n // 2) for _ in range(B)]
        m = env.get_mask(torch.tensor(ps).view(-1, 1) + 1, td)
        out = []
        for r in range(B):
            feas = [(a, b) for a in range(n) for b in range(n) if m[r, a, b]]
            out.append([ps[r]] + list(ctx.rng.choice(feas)))
        return out
    seed_torch(ctx)
    return env._random_action(td).tolist()


OBS_KEYS = ("rec_current", "rec_best", "cost_current", "cost_bsf", "reward", "visited_time")


def td_diff(a, b, keys=None) -> List[str]:
    """names of the entries of TensorDict `a` that are not bit-equal in `b` (missing counts as different)"""
    out = []
    for k in (keys if keys is not None else [k for k in a.keys() if k != "next"]):
        if k not in b.keys() or a[k].shape != b[k].shape or not torch.equal(a[k], b[k]):
            out.append(k)
    return out


def pure_step(ctx, env, kind: int, n: int, geos, td, mvA, how: str, what: str, opts):
    """`env.step` from the state `td` with move `mvA`, plus the PURITY / BRANCHING probes (a state may be stepped twice,
    stored, looked at afterwards — look-ahead, replay buffers):
      (a) `_torchrl_mode=True`: `env.step(td)` may only ADD `next`; every tensor td held before must stay bit-equal
          (default mode returns the SAME, updated td by contract: there the instance data must stay untouched and the
          returned object must carry the successor);
      (b) a second, different admitted move from the SAME state must give exactly what a fresh deep copy of that state
          gives, and its bookkeeping must be right (cost_bsf = length of its rec_best).
    Returns the successor of `mvA` (the episode continues on branch A)."""
    B = td.batch_size[0]
    torchrl = bool(opts.get("_torchrl_mode"))
    mvB = real_moves(ctx, env, kind, n, td, how)
    actA, actB = torch.tensor(mvA, dtype=torch.long), torch.tensor(mvB, dtype=torch.long)
    td.set("action", actA)
    before = td.clone()  # deep copy of the state the move is taken from
    wit = {"kind": kind, "n": n, "opts": opts, "rec_current": before["rec_current"].tolist(), "rec_best": before["rec_best"].tolist(),
           "move_A": mvA, "move_B": mvB, "pts": [as_geo(g)["pts"] for g in geos], "exp": [as_geo(g)["exp"] for g in geos]}
    # reference: branch B from a fresh deep copy, BEFORE anything is stepped
    ref = before.clone()
    ref.set("action", actB)
    refB = env.step(ref)["next"].clone()
    out = env.step(td)
    nextA = out["next"]
    if torchrl:
        changed = td_diff(before, td)
        ctx.count("purity.torchrl-mode.input-td-checked")
        if changed:
            ctx.violation("purity:input-td-mutated",
                          "env.step (torchrl mode) overwrote entries of the TensorDict it was given (the caller's pre-action state)",
                          dict(wit, changed_entries=changed,
                               rec_best_after_step=td["rec_best"].tolist(), successor_rec_best=nextA["rec_best"].tolist()))
        # step the SAME state object a second time with another move
        td.set("action", actB)
        nextB = env.step(td)["next"]
    else:
        ctx.count("purity.default-mode.instance-data-checked")
        changed = td_diff(before, nextA, keys=[k for k in before.keys() if k not in OBS_KEYS + ("i", "action", "action_record", "next")])
        if changed or nextA is not td:
            ctx.violation("purity:instance-data-mutated", "env.step changed instance data (entries `_step` does not own)",
                          dict(wit, changed_entries=changed))
        # the same state, deep-copied AFTER branch A was stepped: the saved copy must still be the pre-action state
        again = before.clone()
        again.set("action", actB)
        nextB = env.step(again)["next"]
    diff = td_diff(refB, nextB, keys=OBS_KEYS)
    ctx.count("purity.branch-pairs")
    if diff:
        ctx.violation("purity:branch-differs-from-fresh-copy",
                      "stepping a state a second time (another admitted move) does not give what a fresh deep copy of that state gives",
                      dict(wit, differing_entries=diff, second_step={k: nextB[k].tolist() for k in diff},
                           fresh_copy={k: refB[k].tolist() for k in diff}))
    # bookkeeping of branch B on its own (Lean Spec cost)
    geos_ = [as_geo(g) for g in geos]
    lines = []
    for r in range(B):
        D = geom.D_ticks(geos_[r]["pts"])
        lines.append(spec_lines(kind, n, [nextB["rec_best"][r].tolist()], D)[0])
    for r, rep in enumerate(ctx.driver.ask_many(lines)):
        try:
            cb = to_ticks(nextB["cost_bsf"][r], geos_[r]["exp"])
        except ValueError:
            continue
        if int(parse_fields(rep)["cost"]) != cb:
            ctx.violation("bsf:cost-best", "on a second branch from the same state cost_bsf ≠ length of rec_best",
                          dict(wit, row=r, cost_bsf=cb, length=parse_fields(rep)["cost"], rec_best=nextB["rec_best"][r].tolist()))
    improvedA = bool((nextA["reward"] > 0).any())
    ctx.count(f"purity.branch-pairs.first-branch-improving={int(improvedA)}")
    return nextA


def jump(ctx, env, kind: int, n: int, td) -> List[List[int]]:
    """`env.step_to_solution(td, solution)` — the `solution_to` branch of `_step` (used by n-step PPO with
    CL_best): per call either the stored best tours (the very tensor held by td), fresh valid tours, or the
    current tours.  Returns the per-row moves `[-1, *solution]`; td is updated by the real call."""
    B = td.batch_size[0]
    mode = ctx.rng.choice(["best", "fresh", "fresh", "current"])
    if mode == "best":
        sol = td["rec_best"]
    elif mode == "current":
        sol = td["rec_current"]
    else:
        sol = torch.tensor([rand_pdp_tour(ctx.rng, n) if kind == 0 else rand_tour(ctx.rng, n) for _ in range(B)], dtype=torch.long)
    mv = [[-1] + row for row in sol.tolist()]
    out = env.step_to_solution(td, sol)
    assert out is td or out is not None
    ctx.count(f"step_to_solution.{mode}")
    return mv, out


def pick_env(ctx, kind: int, n: int):
    """the environment under one of its option combinations (all legal, all non-default ones included)"""
    init = ctx.rng.choice(["random", "greedy"])
    torchrl = ctx.rng.random() < 0.3
    if kind == 0:
        train = ctx.rng.random() < 0.6
        return pdp_env(n, init, torchrl, train), {"init_sol_type": init, "_torchrl_mode": torchrl, "training": train}
    return kopt_env(n, kind, init, torchrl), {"init_sol_type": init, "_torchrl_mode": torchrl, "k_max": kind}


def run_bsf(ctx):
    total = ctx.budget(200, 6000)
    T = 16
    rows = 0
    it = 0
    while rows < total:
        kind = [2, 0, 3, 4, 5, 6, 2, 0][it % 8]
        it += 1
        big = ctx.rng.random() < 0.08  # sizes beyond 25 nodes (other tensor code paths), kept rare: the model is O(n³) per step
        if kind == 0:
            n = ctx.rng.choice([27, 41]) if big else ctx.rng.choice([3, 5, 7, 9, 11])
        else:
            n = ctx.rng.choice([26, 40]) if big else \
                (ctx.rng.choice([3, 4, 5, 6, 8, 11]) if kind == 2 else ctx.rng.choice([kind + 1, 7, 8, 11]))
        # k-opt (K > 2): `_random_action` indexes with a `.squeeze()`d [1,1] tensor and raises IndexError for a
        # batch of ONE row (so does NeuOptPolicy); PDPRuinRepairEnv._step raises RuntimeError (overlapping in-place
        # shift of `action_record`) for a batch of ONE row.  No move / observable is produced, so both are outside
        # C09 (reported separately) — B ≥ 2 there
        B = ctx.rng.choice([1, 2, 3, 5]) if kind == 2 else ctx.rng.choice([2, 3, 5])
        if big:
            B = min(B, 2)
        env, opts = pick_env(ctx, kind, n)
        # rows of ONE batch differ in magnitude (small scales over-represented: improvements of 1e-8 … 1e-4)
        geos = [gen_geo(ctx.rng, n) for _ in range(B)]
        own_init = ctx.rng.random() < 0.35
        recs = None if own_init else [rand_pdp_tour(ctx.rng, n) if kind == 0 else rand_tour(ctx.rng, n) for _ in range(B)]
        how = ctx.rng.choice(["mask", "sampler"])
        if own_init:
            seed_torch(ctx)
        td = reset_with(env, kind, geos, recs)
        tr = Trace(B, [g["exp"] for g in geos])
        tr.snap(td, True)
        if own_init:
            # the generator's own initial solution must itself be a valid tour (it is the premise of every theorem)
            sp = [parse_fields(x) for x in ctx.driver.ask_many(spec_lines(kind, n, [tr.cur[r][0] for r in range(B)]))]
            for r in range(B):
                ctx.count(f"bsf.initial-solution-from-generator.{opts['init_sol_type']}")
                if sp[r]["valid"] != "1":
                    ctx.violation("reset:initial-solution-invalid", "the generator's initial solution is not a valid tour",
                                  {"kind": kind, "n": n, "opts": opts, "rec0": tr.cur[r][0], "pts": geos[r]["pts"]})
        def advance(td_, tr_, B_):
            if ctx.rng.random() < 0.08:
                mv_, td_ = jump(ctx, env, kind, n, td_)
            else:
                mv_ = real_moves(ctx, env, kind, n, td_, how)
                if ctx.rng.random() < 0.3:
                    td_ = pure_step(ctx, env, kind, n, geos if tr_ is tr else geos2, td_, mv_, how, "bsf", opts)
                else:
                    td_.set("action", torch.tensor(mv_, dtype=torch.long))
                    td_ = env.step(td_)["next"]
            for r_ in range(B_):
                tr_.moves[r_].append(mv_[r_])
            tr_.snap(td_, False)
            return td_

        reuse = ctx.rng.random() < 0.3
        t_mid = ctx.rng.randrange(1, T - 1)
        td2 = tr2 = geos2 = None
        for t in range(T):
            if reuse and t == t_mid:
                # the SAME env object is reset with another batch (other size, other instances) in the middle of
                # this episode; from now on the two episodes are stepped alternately
                B2 = ctx.rng.choice([b for b in ([1, 2, 3, 4] if kind == 2 else [2, 3, 4]) if b != B])
                geos2 = [gen_geo(ctx.rng, n) for _ in range(B2)]
                td2 = reset_with(env, kind, geos2, [rand_pdp_tour(ctx.rng, n) if kind == 0 else rand_tour(ctx.rng, n) for _ in range(B2)])
                tr2 = Trace(B2, [g["exp"] for g in geos2])
                tr2.snap(td2, True)
            td = advance(td, tr, B)
            if td2 is not None:
                td2 = advance(td2, tr2, len(geos2))
        if tr.inexact:
            ctx.count("bsf.inexact-cost-rows")
        what = {0: "pdprr", 2: "kopt2"}.get(kind, "koptk")
        if td2 is not None:
            ctx.count("bsf.env-object-reused(second-batch-of-other-size-reset-mid-episode)")
            judge_batch(ctx, kind, n, geos2, tr2, "bsf")
            for r in range(len(geos2)):
                judge_trace(ctx, kind, n, geos2[r], tr2, r, f"bsf.{what}", opts=dict(opts, reused_env=True))
        judge_batch(ctx, kind, n, geos, tr, "bsf")
        for r in range(B):
            judge_trace(ctx, kind, n, geos[r], tr, r, f"bsf.{what}", opts=opts)
            ctx.count(f"bsf.{what}.n={n}")
            ctx.count(f"bsf.moves-from={how}")
            ctx.count(f"bsf.B={B}")
            if kind > 2:
                ctx.count(f"bsf.k_max={kind}")
        for k, v in opts.items():
            ctx.count(f"bsf.opt.{k}={v}")
        ctx.sample({"unit": "bsf", "kind": kind, "n": n, "opts": opts, "scale_exp": geos[0]["exp"], "off": geos[0]["off"],
                    "rec0": tr.cur[0][0], "moves": tr.moves[0][:4], "cost_bsf_ticks": tr.cbsf[0][:5]}, cap=4)
        rows += B


# ------------------------------------------------------------------------------------------------
# C09 policies
# ------------------------------------------------------------------------------------------------


def make_policy(name: str, ctx):
    """a bundled policy with random weights under one of its option combinations"""
    seed_torch(ctx)
    heads = ctx.rng.choice([1, 2, 4])
    opts = dict(embed_dim=ctx.rng.choice([16, 32]), num_heads=heads, num_encoder_layers=ctx.rng.choice([1, 2]),
                feedforward_hidden=ctx.rng.choice([16, 32]), normalization=ctx.rng.choice(["layer", "batch", "instance"]),
                pos_type=ctx.rng.choice(["CPE", "APE"]), temperature=ctx.rng.choice([1.0, 0.5, 2.0]),
                tanh_clipping=ctx.rng.choice([6.0, 0, 10.0]))
    dt = ctx.rng.choice(["sampling", "greedy"])
    opts.update(train_decode_type=dt, val_decode_type=dt, test_decode_type=dt)
    if name == "dact":
        from rl4co.models.zoo.dact.policy import DACTPolicy

        pol = DACTPolicy(env_name="tsp_kopt", **opts)
    elif name == "n2s":
        from rl4co.models.zoo.n2s.policy import N2SPolicy

        pol = N2SPolicy(env_name="pdp_ruin_repair", **opts)
    else:
        from rl4co.models.zoo.neuopt.policy import NeuOptPolicy

        pol = NeuOptPolicy(env_name="tsp_kopt", **opts)
    return pol.eval(), opts


def check_decoding(ctx, name, kind, n, cur, prev_action, calls, mv, opts):
    """the modelled DECODING of the policies (Env/Improve.lean: dactMask / dactMove / n2s… / the k-opt builder) against
    what the real policy handed to / got from the decoding strategy"""
    B = len(cur)
    bits = lambda row: "".join("1" if x else "0" for x in row.tolist())
    if name == "dact" and len(calls) == 1 and calls[0][1] is not None:
        mask, sel = calls[0]
        lines = [f"improve.pdact {n} | {J(prev_action[r]) if prev_action else ''} | {int(sel[r])}" for r in range(B)]
        for r, rep in enumerate(ctx.driver.ask_many(lines)):
            f = parse_fields(rep)
            k = int(sel[r])
            real_bit = bool(mask[r, k])
            if ilist(f.get("move", "")) != mv[r] or (f.get("mask") == "1") != real_bit:
                ctx.disagreement("DACT decoding differs (mask entry / move of the selected flat index)",
                                 {"n": n, "prev": prev_action[r] if prev_action else None, "k": k, "real_move": mv[r],
                                  "real_mask_entry": real_bit, "model": rep, "opts": opts})
            if not real_bit:
                ctx.violation("policy.dact:strategy-selected-masked-entry", "the decoding strategy returned an index whose mask entry is false",
                              {"n": n, "k": k, "move": mv[r], "opts": opts})
        ctx.count("policy.dact.decoding-steps", B)
    elif name == "n2s" and len(calls) == 2 and calls[1][1] is not None:
        (m0, s0), (m1, s1) = calls
        lines = [f"improve.pn2s {n} | {J(cur[r])} | {prev_action[r][0] if prev_action else ''} | {int(s0[r])} {int(s1[r])}" for r in range(B)]
        for r, rep in enumerate(ctx.driver.ask_many(lines)):
            f = parse_fields(rep)
            pi, k = int(s0[r]), int(s1[r])
            rb, mb = bool(m0[r, pi]), bool(m1[r, k])
            if ilist(f.get("move", "")) != mv[r] or (f.get("rmask") == "1") != rb or (f.get("mask") == "1") != mb:
                ctx.disagreement("N2S decoding differs (removal mask / reinsertion mask entry / move)",
                                 {"gs": n, "rec": cur[r], "prev": prev_action[r] if prev_action else None, "pi": pi, "k": k,
                                  "real_move": mv[r], "real_masks": [rb, mb], "model": rep, "opts": opts})
            if not (rb and mb):
                ctx.violation("policy.n2s:strategy-selected-masked-entry", "the decoding strategy returned an index whose mask entry is false",
                              {"gs": n, "pi": pi, "k": k, "move": mv[r], "opts": opts})
        ctx.count("policy.n2s.decoding-steps", B)
    elif name == "neuopt" and len(calls) == kind and all(c[0] is not None for c in calls):
        lines = []
        for r in range(B):
            m0 = [0] * n
            if prev_action:
                m0[prev_action[r][0]] = 1
            lines.append(f"improve.koptgen {n} {kind} | {J(cur[r])} | {J(m0)} | {J(mv[r][:kind])}")
        for r, rep in enumerate(ctx.driver.ask_many(lines)):
            model_masks = parse_fields(rep).get("masks", "").split(",")
            real_free = [bits(calls[i][0][r]) for i in range(kind)]
            real_masked = ["".join("0" if c == "1" else "1" for c in row) for row in real_free]
            if model_masks != real_masked:
                ctx.disagreement("NeuOpt: the masks handed to the decoding strategy differ from the modelled builder's masks",
                                 {"n": n, "K": kind, "rec": cur[r], "nodes": mv[r][:kind], "real_masked": real_masked,
                                  "model_masked": model_masks, "opts": opts})
        ctx.count("policy.neuopt.decoding-substeps", B * kind)
    else:
        ctx.count(f"policy.{name}.decoding-hook-miss")


def run_policies(ctx):
    total = ctx.budget(18, 300)
    T = 24
    for it in range(total):
        name = ["dact", "n2s", "neuopt", "neuopt"][it % 4]
        if name == "dact":
            kind, n = 2, ctx.rng.choice([3, 4, 5, 7, 10, 26])
        elif name == "n2s":
            kind, n = 0, ctx.rng.choice([5, 7, 9, 11, 27])
        else:
            kind = [3, 4, 5, 6][(it // 4) % 4]
            n = ctx.rng.choice([kind + 1, 7, 2 * kind + 3, 20, 30])
        env, eopts = pick_env(ctx, kind, n)
        if name == "n2s" and not eopts["training"] and n < 7:
            # in eval mode `action_record` has gs//2 rows and N2S' removal decoder reads its last THREE rows: with
            # gs < 7 the feature size does not match and the policy raises (no move is produced; outside C09)
            n = 7
            env, eopts = pick_env(ctx, kind, n)
            env = pdp_env(n, eopts["init_sol_type"], eopts["_torchrl_mode"], False)
            eopts["training"] = False
        pol, popts = make_policy(name, ctx)
        B = ctx.rng.choice([1, 2, 3]) if name == "dact" else ctx.rng.choice([2, 2, 3, 4])
        geos = [gen_geo(ctx.rng, n) for _ in range(B)]
        recs = [rand_pdp_tour(ctx.rng, n) if kind == 0 else rand_tour(ctx.rng, n) for _ in range(B)]
        td = reset_with(env, kind, geos, recs)
        tr = Trace(B, [g["exp"] for g in geos])
        tr.snap(td, True)
        phase = ctx.rng.choice(["test", "train", "val"])
        dkw = ctx.rng.choice([{}, {}, {"top_k": 3}, {"top_p": 0.9}, {"temperature": 0.3}])
        opts = dict(eopts, policy=name, phase=phase, decoding_kwargs=dkw, **popts)
        adm = [[] for _ in range(B)]
        for t in range(T):
            if t > 0 and ctx.rng.random() < 0.06:
                mv, td = jump(ctx, env, kind, n, td)  # n-step PPO with CL_best does this between policy steps
                for r in range(B):
                    adm[r].append(True)
                    tr.moves[r].append(mv[r])
                tr.snap(td, False)
                continue
            seed_torch(ctx)
            cur = td["rec_current"].tolist()
            prev_first = td["action"][:, 0].tolist() if "action" in td.keys() else None
            prev_action = td["action"].tolist() if "action" in td.keys() else None
            td_before = td.clone() if ctx.rng.random() < 0.25 else None
            with torch.no_grad(), record_decoding() as calls:
                pol(td, env, phase=phase, **dict(dkw))
            mv = td["action"].tolist()
            check_decoding(ctx, name, kind, n, cur, prev_action, calls, mv, opts)
            if td_before is not None:
                # evaluate mode (`actions=` given): the policy must emit exactly the move it is asked to evaluate
                with torch.no_grad():
                    pol(td_before, env, phase=phase, actions=torch.tensor(mv, dtype=torch.long), **dict(dkw))
                ctx.count(f"policy.{name}.evaluate-mode-calls")
                if td_before["action"].tolist() != mv:
                    ctx.violation(f"policy.{name}:evaluate-emits-other-move",
                                  "called with `actions=` the policy puts a different move into td['action'] than the one given",
                                  {"policy": name, "n": n, "kind": kind, "rec": cur, "given": mv, "emitted": td_before["action"].tolist(), "opts": opts})
            # every emitted move must be admitted by the mask (judged on the model's mask of the current tour)
            if kind == 2:
                oks = [0 <= a < n and 0 <= b < n and a != b for a, b in mv]
            elif kind == 0:
                reps = ctx.driver.ask_many([f"improve.pdprr {n} | {J(c)} | {J(m)}" for c, m in zip(cur, mv)])
                oks = [parse_fields(x).get("mask") == "1" for x in reps]
            else:
                lines = []
                for r in range(B):
                    m0 = [0] * n
                    if prev_first is not None:
                        m0[prev_first[r]] = 1
                    lines.append(f"improve.koptgen {n} {kind} | {J(cur[r])} | {J(m0)} | {J(mv[r][:kind])}")
                fs = [parse_fields(x) for x in ctx.driver.ask_many(lines)]
                oks = []
                for r, f in enumerate(fs):
                    same = ilist(f.get("action", "")) == mv[r]
                    wf = f.get("wf") == "1" if same else \
                        parse_fields(ctx.driver.ask(f"improve.koptk {n} {kind} | {J(cur[r])} | {J(mv[r])}")).get("wf") == "1"
                    if not same:
                        ctx.disagreement("NeuOpt policy: emitted action differs from the model's builder on the same node sequence",
                                         {"n": n, "K": kind, "rec": cur[r], "real": mv[r], "model": f.get("action"), "opts": opts})
                    oks.append(same and f.get("adm") == "1" and wf)
                    if not wf:
                        # the emitted action is not a segment-reversal move of the current tour at all
                        ctx.violation("policy.neuopt:move-not-wellformed",
                                      "NeuOptPolicy emitted an action that is not a well-formed k-opt move of the current tour",
                                      {"policy": name, "n": n, "K": kind, "rec": cur[r], "move": mv[r], "step": t, "opts": opts})
                closed = [any(mv[r][i] == cur[r][mv[r][i - 1]] for i in range(1, kind)) for r in range(B)]
                ctx.count(f"policy.neuopt.K={kind}.steps")
                if all(closed):
                    ctx.count(f"policy.neuopt.K={kind}.steps-where-EVERY-row-closed-early")
                elif any(closed):
                    ctx.count(f"policy.neuopt.K={kind}.steps-with-mixed-closing")
            for r in range(B):
                adm[r].append(oks[r])
                if not oks[r]:
                    ctx.violation(f"policy.{name}:move-not-admitted", "a bundled policy emitted a move outside the environment's mask",
                                  {"policy": name, "n": n, "kind": kind, "rec": cur[r], "move": mv[r], "step": t, "opts": opts})
                tr.moves[r].append(mv[r])
            if ctx.rng.random() < 0.3:
                td = pure_step(ctx, env, kind, n, geos, td, mv, "sampler" if kind != 2 else "mask", "policy", opts)
            else:
                td = env.step(td)["next"]
            tr.snap(td, False)
        judge_batch(ctx, kind, n, geos, tr, "policy")
        for r in range(B):
            judge_trace(ctx, kind, n, geos[r], tr, r, f"policy.{name}", admitted=adm[r], opts=opts)
            ctx.count(f"policy.{name}.n={n}")
            ctx.count(f"policy.{name}.B={B}")
            ctx.count(f"policy.{name}.distinct-moves", len({tuple(m) for m in tr.moves[r]}))
        for k in ("normalization", "pos_type", "tanh_clipping", "temperature", "test_decode_type", "num_heads"):
            ctx.count(f"policy.opt.{k}={popts[k]}")
        ctx.count(f"policy.opt.phase={phase}")
        ctx.count(f"policy.opt.decoding_kwargs={sorted(dkw)}")
        for k, v in eopts.items():
            ctx.count(f"policy.env-opt.{k}={v}")
        ctx.sample({"unit": "policies", "policy": name, "n": n, "B": B, "opts": {k: str(v) for k, v in opts.items()},
                    "rec0": tr.cur[0][0], "moves": tr.moves[0][:3], "cost_bsf_ticks": tr.cbsf[0][:4]}, cap=4)


# ------------------------------------------------------------------------------------------------
# C06: the two checkers
# ------------------------------------------------------------------------------------------------


def corruptions(rng, rec: List[int], kind: int):
    n = len(rec)
    out = []
    i, j = rng.sample(range(n), 2)
    r = list(rec)
    r[i], r[j] = r[j], r[i]
    out.append(("swap-two-successors", r))
    r = list(rec)
    r[i] = r[j]
    out.append(("duplicate-successor", r))
    r = list(rec)
    r[i] = i
    out.append(("self-loop", r))
    if kind == 0 and n >= 3:
        h = n // 2
        order = walk_from0(rec)
        p = rng.randrange(1, h + 1)
        a, b = order.index(p), order.index(p + h)
        order[a], order[b] = order[b], order[a]
        out.append(("delivery-before-pickup", seq_to_rec(order)))
    return out


def checker_key(name: str, n: int, rec: List[int], f: Dict[str, str]) -> str:
    """violation key for 'real checker accepts, definition rejects'.  The two known findings are NARROW: the array
    is a permutation of 0..n-1 that is not a single cycle AND the faithful Lean model of the unchanged checker
    accepts it too (so the acceptance is the documented blind spot, not some other change of the checker)."""
    if f["tour"] != "1" and sorted(rec) == list(range(n)) and f["check"] == "1":
        return f"{name}-checker:accepts-subtours"
    return f"{name}-checker:accepts-invalid"


def run_checker(ctx, kind: int):
    name = "pdprr" if kind == 0 else "kopt"
    total = ctx.budget(60, 3000)
    for it in range(total):
        n = ctx.rng.choice([3, 5, 7, 9, 21] if kind == 0 else [3, 4, 5, 6, 8, 20])
        opts = {}
        if kind == 0:
            env, opts = pick_env(ctx, 0, n)
        else:
            K = ctx.rng.choice([2, 3, 4, 5, 6])  # the checker is shared by the 2-opt and the k-opt configuration
            env, opts = pick_env(ctx, K, n)
        good = rand_pdp_tour(ctx.rng, n) if kind == 0 else rand_tour(ctx.rng, n)
        cands = [("valid", good)] + corruptions(ctx.rng, good, kind)
        recs = [c[1] for c in cands]
        sp = [parse_fields(x) for x in ctx.driver.ask_many(spec_lines(kind, n, recs))]
        row_verdict = []
        for (label, rec), f in zip(cands, sp):
            td = TensorDict({"rec_best": torch.tensor([rec], dtype=torch.long)}, batch_size=[1])
            real = rl.checker_accepts(env, td, None)
            row_verdict.append(bool(real))
            # the same verdict through the public entry point `env.get_reward(td, actions)`: with check_solution=True the
            # checker runs first (AssertionError = rejected), then `_get_reward` of an improvement env raises
            # NotImplementedError (= the checker let it through); with check_solution=False nothing is checked
            for cs in (True, False):
                e2 = pdp_env(n, check_solution=cs) if kind == 0 else kopt_env(n, 2, check_solution=cs)
                try:
                    e2.get_reward(td, None)
                    via = "returned"
                except AssertionError:
                    via = "rejected"
                except NotImplementedError:
                    via = "passed"
                except Exception as ex:  # e.g. torch shape errors of the slices
                    via = "rejected" if not real else f"error:{type(ex).__name__}"
                expect = ("passed" if real else "rejected") if cs else "passed"
                ctx.count(f"check.{name}.via-get_reward.check_solution={cs}.{via}")
                if via != expect:
                    ctx.violation(f"{name}-checker:get_reward-path-differs",
                                  "env.get_reward does not apply the checker as configured by `check_solution`",
                                  {"n": n, "rec_best": rec, "check_solution": cs, "direct_verdict": bool(real), "via_get_reward": via})
            valid = f["valid"] == "1"
            ctx.case((name, "check", tuple(rec)), nontrivial=label != "valid")
            ctx.count(f"check.{name}.{label}.valid={int(valid)}.accepted={int(bool(real))}")
            if (f["check"] == "1") != bool(real):
                ctx.disagreement(f"{name} check_solution_validity differs",
                                 {"n": n, "rec": rec, "label": label, "real": real, "model": f["check"]})
            wit = {"n": n, "rec_best": rec, "corruption": label, "tour_from_0": walk_from0(rec), "opts": opts}
            if valid and not real:
                ctx.violation(f"{name}-checker:rejects-valid", "checker rejects a valid tour", wit)
            if not valid and real:
                key = checker_key(name, n, rec, f)
                ctx.violation(key, "checker accepts a successor array that splits into several sub-tours "
                              "(the tour from node 0 misses nodes)" if key.endswith("subtours") else
                              "checker accepts an invalid solution", wit)
            ctx.sample({"unit": name, "n": n, "rec_best": rec, "label": label, "spec_valid": valid, "checker_accepts": bool(real)}, cap=4)
        # ---- mixed batches: the verdict on a batch must be the conjunction of the per-row verdicts, wherever the
        # offending row sits (the checker is normally called on whole batches of rec_best) ----
        for _ in range(2):
            B = ctx.rng.choice([2, 3, 5])
            others = [rand_pdp_tour(ctx.rng, n) if kind == 0 else rand_tour(ctx.rng, n) for _ in range(B - 1)]
            j = ctx.rng.randrange(len(cands))
            pos = ctx.rng.randrange(B)
            batch = others[:pos] + [cands[j][1]] + others[pos:]
            td = TensorDict({"rec_best": torch.tensor(batch, dtype=torch.long)}, batch_size=[B])
            real_b = bool(rl.checker_accepts(env, td, None))
            expect = row_verdict[j]  # the other rows are valid tours, accepted individually (checked above for `good`)
            ctx.case((name, "check-batch", tuple(map(tuple, batch))), nontrivial=True)
            ctx.count(f"check.{name}.batch.B={B}.pos={'first' if pos == 0 else 'last' if pos == B - 1 else 'middle'}."
                      f"{cands[j][0]}.accepted={int(real_b)}")
            if real_b != expect:
                f = sp[j]
                wit = {"n": n, "batch_rec_best": batch, "row": pos, "corruption": cands[j][0],
                       "verdict_of_that_row_alone": expect, "verdict_of_batch": real_b, "opts": opts}
                if real_b and f["valid"] != "1":
                    ctx.violation(f"{name}-checker:batch-accepts-invalid-row",
                                  "a batch is accepted although one of its rows is rejected when checked alone", wit)
                else:
                    ctx.violation(f"{name}-checker:batch-verdict-differs",
                                  "the verdict on a batch is not the conjunction of the per-row verdicts", wit)
            elif real_b and sp[j]["valid"] != "1":
                ctx.violation(checker_key(name, n, cands[j][1], sp[j]),
                              "checker accepts a batch containing an invalid row",
                              {"n": n, "batch_rec_best": batch, "row": pos, "rec_best": cands[j][1], "corruption": cands[j][0]})


# ------------------------------------------------------------------------------------------------
# replays of recorded witnesses (./check Cxx --replay PATH)
# ------------------------------------------------------------------------------------------------


def replay_move(ctx, w):
    """witness of a move that breaks a tour: {n|gs, rec, action[, K]}"""
    if "gs" in w:
        _cmp_pdp_op(ctx, w["gs"], [w["rec"]], [w["action"]], "replay")
    elif "K" in w:
        K, n = w["K"], w["n"]
        env = kopt_env(n, K)
        out = env._local_operator(torch.tensor([w["rec"]]), torch.tensor([w["action"]])).tolist()[0]
        g = parse_fields(ctx.driver.ask(spec_lines(K, n, [out])[0]))
        if g.get("tour") != "1":
            ctx.violation("koptk:move-breaks-tour", "replayed k-opt move yields a non-tour", dict(w, result=out))
    else:
        _cmp_op2(ctx, w["n"], [w["rec"]], [w["action"]], "replay")


def replay_trace(ctx, w):
    """witness of a bookkeeping / validity failure along a move sequence: {kind, n, pts, exp, off, rec0, moves, opts}"""
    if "moves" not in w:
        return replay_move(ctx, w)
    kind, n = w["kind"], w["n"]
    o = w.get("opts") or {}
    if kind == 0:
        env = pdp_env(n, o.get("init_sol_type", "random"), bool(o.get("_torchrl_mode", False)), bool(o.get("training", True)))
    else:
        env = kopt_env(n, kind, o.get("init_sol_type", "random"), bool(o.get("_torchrl_mode", False)))
    B = 1 if kind == 2 else 2  # PDP / k-opt `_step` and sampler need B ≥ 2 (see run_bsf)
    geo = {"pts": [tuple(p) for p in w["pts"]], "exp": w.get("exp", 0), "off": tuple(w.get("off", (0, 0)))}
    td = reset_with(env, kind, [geo] * B, [w["rec0"]] * B)
    tr = Trace(B, [geo["exp"]] * B)
    tr.snap(td, True)
    for mv in w["moves"]:
        if mv and mv[0] == -1:
            td = env.step_to_solution(td, torch.tensor([mv[1:]] * B, dtype=torch.long))
        else:
            td.set("action", torch.tensor([mv] * B, dtype=torch.long))
            td = env.step(td)["next"]
        for r in range(B):
            tr.moves[r].append(mv)
        tr.snap(td, False)
    judge_trace(ctx, kind, n, geo, tr, 0, w.get("what", "replay"), opts=o)


def replay_checker(ctx, w):
    n, rec = w["n"], w["rec_best"]
    for kind in ((0,) if ctx.unit == "pdprr" else (2,)):
        env = pdp_env(n) if kind == 0 else kopt_env(n, 2)
        td = TensorDict({"rec_best": torch.tensor([rec], dtype=torch.long)}, batch_size=[1])
        real = rl.checker_accepts(env, td, None)
        f = parse_fields(ctx.driver.ask(spec_lines(kind, n, [rec])[0]))
        if (f["valid"] == "1") != bool(real):
            name = "pdprr" if kind == 0 else "kopt"
            key = f"{name}-checker:rejects-valid" if f["valid"] == "1" else checker_key(name, n, rec, f)
            ctx.violation(key, "replayed checker verdict disagrees with the definition", w)


# ------------------------------------------------------------------------------------------------
# registration
# ------------------------------------------------------------------------------------------------

MODEL_NOTE = ("TSPkoptEnv / PDPRuinRepairEnv modelled per instance on successor arrays (Rl4co/Env/Improve.lean); "
              "`argsort` is modelled as the indices sorted by value and PROVED to be the inverse on permutation arrays; the decision-critical "
              "tokens of the source are parameters regenerated from the AST (harness/probes/improve.py) with `decide` obligations; tour lengths are "
              "integers in ticks (exact-stream coordinates make the float32 costs exact); batching is modelled "
              "column-wise (`batchStepP`, proved equal to the per-row map and compared with the real batch). Magnitudes: coordinates are integral point sets scaled by 2^-16 … 2^6 and shifted "
              "by integers up to 1000 (all float32-exact), so improvements from ~1e-8 to >1 occur, next to equal-cost moves; the "
              "model works on the unscaled integer matrix. `step_to_solution` (the solution_to branch of `_step`) is a move of the "
              "model too (constant operator; Bsf.* theorems hold for ANY operator). Environment options (init_sol_type, "
              "_torchrl_mode, train/eval mode of PDPRuinRepairEnv, k_max 2…6) and policy options (normalization, pos_type, "
              "temperature, tanh_clipping, decode type, phase, top_k/top_p, heads/layers/width) are varied by the harness; they "
              "are not parameters of the Lean model (none of them may change the observables the model predicts)")


def _has(path: str) -> bool:
    return os.path.exists(os.path.join(LEAN_DIR, path))


_NO_THM = "no theorem yet for this unit: correspondence + spec oracle only"

_bsf_thms = []
if _has("Rl4co/Props/C09/ImproveBsf.lean"):
    _bsf_thms = [
        Theorem("Rl4co.Improve.Bsf.invariants", "proved",
                "for ANY move operator, distance matrix, initial array and move sequence: cost_current = cost(rec_current), "
                "cost_bsf = cost(rec_best) = min of the costs of all tours seen, Σ rewards = cost₀ − cost_bsf"),
        Theorem("Rl4co.Improve.Bsf.reward_eq_decrease", "proved", "every reward = previous bsf − new bsf, and ≥ 0 (any state, any move)"),
        Theorem("Rl4co.Improve.Bsf.bsf_antitone", "proved", "cost_bsf never increases along any move sequence"),
        Theorem("Rl4co.Improve.Bsf.valid_of_run", "proved",
                "if admitted moves preserve a validity predicate, rec_current AND rec_best stay valid along any admitted run"),
        Theorem("Rl4co.Improve.Code.koptParams_std", "proved",
                "translator obligation (decide): the tokens extracted from TSPkoptEnv._step/_reset (new_obj < cost_bsf, where-order, "
                "reward sign, reward > 0.0 incl. the constant, visited_time stamps/trip counts) are the ones the theorems need"),
        Theorem("Rl4co.Improve.Code.pdpParams_std", "proved", "the same obligation for PDPRuinRepairEnv._step/_reset"),
        Theorem("Rl4co.Improve.Code.step_kopt_eq", "proved", "the executed, token-parametrised `_step` of TSPkoptEnv is the `step` of the theorems"),
        Theorem("Rl4co.Improve.Code.step_pdp_eq", "proved", "the same for PDPRuinRepairEnv"),
        Theorem("Rl4co.Improve.Code.bsf_invariants", "proved",
                "Bsf invariants for the executed `_reset`/`_step` (tokens from the source): costs = lengths of stored tours, "
                "cost_bsf ≤ length of the current tour after every prefix of the move sequence"),
        Theorem("Rl4co.Improve.Code.step_vt", "proved", "the executed `_step` stores visited_time = the walk stamps the mask theorems use"),
        Theorem("Rl4co.Improve.Bsf.rewards_telescope", "proved",
                "C09 literally: Σ_t reward_t = cost(rec₀) − cost_bsf_T for any operator and any move list"),
        Theorem("Rl4co.Improve.Bsf.rewards_eq_decreases", "proved",
                "C09 literally: the reward list is the list of consecutive differences of the best-so-far costs"),
        Theorem("Rl4co.Improve.Bsf.rewards_nonneg", "proved", "every reward of every run is ≥ 0"),
        Theorem("Rl4co.Improve.Bsf.step_pure", "proved",
                "the model's `_step` is a function of (state, move): running pre ++ as = running as from the state reached by pre"),
        Theorem("Rl4co.Improve.Bsf.branching", "proved",
                "two continuations from a common state: on EACH branch cost_bsf = length of that branch's rec_best and ≤ every tour "
                "seen on that branch — the bookkeeping of a branch depends only on its own moves"),
        Theorem("Rl4co.Improve.Batch.batchStep_eq_map", "proved",
                "the column-wise batched `_step` (masked in-place overwrite of rec_best) = per-row `_step`, any batch size, any tokens"),
        Theorem("Rl4co.Improve.Batch.batchRun_row", "proved",
                "∀ batch ∀ row: after any number of batched steps row b is the per-instance run on row b's instance and actions"),
    ]
register(Unit("C09", "bsf", run_bsf, drivers=["drv_improve"], replay=replay_trace, weight=1.0,
              lean_modules=["Rl4co.Props.C09.ImproveBsf", "Rl4co.Props.C09.ImproveCode", "Rl4co.Props.C09.ImproveBatch"] if _bsf_thms else [],
              theorems=_bsf_thms,
              assumptions=[MODEL_NOTE] + ([] if _bsf_thms else [_NO_THM])))

_pdp_thms = []
if _has("Rl4co/Props/C09/ImprovePdp.lean"):
    _pdp_thms = [
        Theorem("Rl4co.Improve.PdpRR.preserves", "proved",
                "every mask-admitted ruin-repair move maps a valid PDP tour (single cycle, pickups before deliveries) to a valid "
                "PDP tour, any odd number of nodes"),
        Theorem("Rl4co.Improve.PdpRR.run_valid", "proved",
                "after any sequence of mask-admitted moves rec_current and rec_best are valid PDP tours"),
        Theorem("Rl4co.Improve.PdpRR.randomAction_admitted", "proved",
                "every (pair, first, second) `_random_action` can emit is in range and admitted by get_mask"),
        Theorem("Rl4co.Improve.Code.pdpOp_ok", "proved",
                "translator obligation: `pair_index = action[:,0] + 1`, delivery spliced after `second` BEFORE pickup after `first`"),
        Theorem("Rl4co.Improve.Code.pdpMask_ok", "proved", "translator obligation: masked when visited_time[first] > visited_time[second]"),
        Theorem("Rl4co.Improve.Code.pdp_preserves", "proved",
                "PdpRR.preserves for the EXECUTED operator and mask (tokens from the source)"),
        Theorem("Rl4co.Improve.argsort_eq", "proved",
                "`argsort` (indices sorted by value) of a permutation array is its inverse: rec[x] = y ⇒ argsort(rec)[y] = x"),
    ]
register(Unit("C09", "pdprr", run_pdprr, drivers=["drv_improve"], replay=replay_trace,
              lean_modules=["Rl4co.Props.C09.ImprovePdp", "Rl4co.Props.C09.ImproveCode"] if _pdp_thms else [],
              theorems=_pdp_thms,
              assumptions=[MODEL_NOTE,
                           "`_random_action` is modelled as the relation 'any (pair, first, second) with pair < gs/2 whose mask "
                           "entry is true' (softmax of logits set to -1e20 has probability exactly 0 on masked entries in float32); "
                           "its outputs are checked against the model mask at run time"]
              + ([] if _pdp_thms else [_NO_THM])))

_kopt_thms = []
if _has("Rl4co/Props/C09/ImproveKopt.lean"):
    _kopt_thms = [
        Theorem("Rl4co.Improve.Kopt.twoOpt_preserves", "proved",
                "2-opt `_local_operator` maps a single n-cycle to a single n-cycle for every n and every first ≠ second"),
        Theorem("Rl4co.Improve.Kopt.twoOpt_run_valid", "proved",
                "after any sequence of get_mask-admitted 2-opt moves rec_current and rec_best are single n-cycles"),
        Theorem("Rl4co.Improve.Kopt.randomAction2_admitted", "proved",
                "every (a, b) the 2-opt `_random_action` can emit (flat index with true mask entry, decoded by // and %) is in range and admitted"),
        Theorem("Rl4co.Improve.KoptK.koptMove_isTour", "proved",
                "general k-opt `_local_operator` (NeuOpt), any n and k: a tour stays a tour for every well-formed move "
                "(KoptMoveWF: the action reverses consecutive segments in place)"),
        Theorem("Rl4co.Improve.Kopt.koptAction_wellformed", "proved",
                "the k-opt action builder (`_random_action` k_max>2 = NeuOptPolicy's internal masks) only emits well-formed moves: "
                "any tour, any k_max, any initial mask, any node sequence admitted by the builder's own masks"),
        Theorem("Rl4co.Improve.Kopt.kopt_preserves", "proved",
                "hence every k-opt move the builder can emit maps a single n-cycle to a single n-cycle"),
        Theorem("Rl4co.Improve.Kopt.kopt_run_valid", "proved",
                "after any sequence of builder-admitted k-opt moves rec_current and rec_best are single n-cycles"),
        Theorem("Rl4co.Improve.Code.kopt2Loop_ok", "proved", "translator obligation: the 2-opt reverse loop runs ≥ num_loc − 1 times"),
        Theorem("Rl4co.Improve.Code.koptKLoop_ok", "proved", "translator obligation: the k-opt relink loop runs num_loc − 2 times"),
        Theorem("Rl4co.Improve.Code.twoOpt_preserves", "proved", "Kopt.twoOpt_preserves for the EXECUTED 2-opt operator (trip count from the source)"),
        Theorem("Rl4co.Improve.Code.kopt_preserves", "proved", "Kopt.kopt_preserves for the EXECUTED k-opt operator"),
        Theorem("Rl4co.Improve.argsort_of_cycle", "proved", "on a tour `rec.argsort()` is the predecessor array (proved, not assumed)"),
    ]
register(Unit("C09", "kopt", run_kopt, drivers=["drv_improve"], replay=replay_trace,
              lean_modules=["Rl4co.Props.C09.ImproveKopt", "Rl4co.Props.C09.ImproveCode"] if _kopt_thms else [],
              theorems=_kopt_thms,
              assumptions=[MODEL_NOTE,
                           "k-opt (k_max > 2): TSPkoptEnv has no mask of its own; 'admitted' means admitted by the masks the action "
                           "builder computes while sampling (model `genRun`, identical loop in `_random_action` and NeuOptPolicy). "
                           "Sampling is modelled as 'any node whose mask entry is false' (softmax of logits set to -1e30 gives "
                           "probability exactly 0 in float32); the `fix bug of pytorch` argmax override only replaces the sample by "
                           "another unmasked node",
                           "besides the theorems the harness still enumerates EVERY admitted node sequence on tiny tours and evaluates "
                           "the decidable KoptMoveWF on every action the real code emits (ties model↔code, not needed for the proof)"]
              + ([] if _kopt_thms else [_NO_THM])))

_pol_thms = []
if _has("Rl4co/Props/C09/ImprovePolicy.lean"):
    _pol_thms = [
        Theorem("Rl4co.Improve.Policy.decode_ok", "proved",
                "translator obligation: DACT and N2S assemble the pair as (k // seq_length, k % seq_length); N2S asks for the mask of pickup node action_removal + 1"),
        Theorem("Rl4co.Improve.Policy.dact_move_admitted", "proved",
                "DACT: whatever the network computes, a selected flat index with a true mask entry decodes to an in-range move admitted by get_mask"),
        Theorem("Rl4co.Improve.Policy.dact_move_fresh", "proved", "DACT never repeats its previous move in either orientation"),
        Theorem("Rl4co.Improve.Policy.dact_preserves", "proved", "hence every DACT move keeps the tour a single n-cycle"),
        Theorem("Rl4co.Improve.Policy.n2s_move_admitted", "proved",
                "N2S: selected pair index + selected flat reinsertion index with a true mask entry decode to a move admitted by get_mask"),
        Theorem("Rl4co.Improve.Policy.n2s_preserves", "proved", "hence every N2S move keeps a valid PDP tour valid"),
        Theorem("Rl4co.Improve.Policy.neuopt_preserves", "proved",
                "NeuOpt: its decoding loop is the modelled builder (previous first node masked); every emitted action keeps the tour a tour"),
    ]
register(Unit("C09", "policies", run_policies, drivers=["drv_improve"],
              lean_modules=["Rl4co.Props.C09.ImprovePolicy"] if _pol_thms else [], theorems=_pol_thms, replay=replay_trace,
              assumptions=[MODEL_NOTE,
                           "policies: the networks are uninterpreted, but the DECODING of a move from the index the decoding strategy "
                           "selects is modelled and proved (Policy.*): the only assumption left is 'the selected index has a true mask "
                           "entry' (C10's theorems; also checked on every recorded call). The harness records every DecodingStrategy.step "
                           "call of the real policies (mask handed over, index selected) and compares mask entries / decoded moves / "
                           "NeuOpt's per-sub-step masks with the model; validity of the resulting tours follows from the "
                           "move theorems of units kopt/pdprr (2-opt: Kopt.twoOpt_preserves, N2S: PdpRR.preserves, NeuOpt: its "
                           "mask loop is the modelled builder, Kopt.kopt_preserves)"]))

for _kind, _name in ((2, "kopt"), (0, "pdprr")):
    _thms = []
    if _has("Rl4co/Props/C06/Improve.lean"):
        if _kind == 2:
            _thms = [Theorem("Rl4co.Improve.Check.kopt_complete", "proved", "every single n-cycle passes the k-opt TSP checker"),
                     Theorem("Rl4co.Improve.Check.kopt_sound_counterexample", "proved",
                             "soundness fails: rec_best = [1,0,3,2] (two sub-tours) is accepted"),
                     Theorem("Rl4co.Improve.Check.kopt_sound_partial", "partial",
                             "accepted ⇒ the successor array is a permutation of 0..n-1 (not necessarily ONE cycle)")]
        else:
            _thms = [Theorem("Rl4co.Improve.Check.pdp_complete", "proved", "every valid PDP tour on 2h+1 nodes passes the checker"),
                     Theorem("Rl4co.Improve.Check.pdp_sound_counterexample", "proved",
                             "soundness fails: rec_best = [3,2,1,4,0] (depot cycle through both deliveries, pickups on a separate "
                             "sub-tour) is accepted"),
                     Theorem("Rl4co.Improve.Check.pdp_sound_partial", "partial",
                             "accepted ∧ single cycle ⇒ every pickup precedes its delivery")]
        if _kind == 2:
            _thms += [Theorem("Rl4co.Improve.Check.kopt_accepts_iff", "proved", "EXACT: accepted ⟺ the successor array is a permutation of 0..n-1"),
                      Theorem("Rl4co.Improve.Check.isTour_iff_perm_connected", "proved",
                              "single cycle ⟺ permutation ∧ the n-step walk from node 0 meets every node"),
                      Theorem("Rl4co.Improve.Check.kopt_valid_iff", "proved",
                              "soundness up to the sub-tour defect: valid tour ⟺ accepted ∧ walk from 0 meets every node"),
                      Theorem("Rl4co.Improve.Check.code_checkKopt_eq", "proved",
                              "translator tie: the executed checker model (tokens from the source) is the one of the theorems")]
        else:
            _thms += [Theorem("Rl4co.Improve.Check.pdp_accepts_iff", "proved",
                              "EXACT: accepted ⟺ permutation ∧ for every pair the LAST visit of the delivery along the gs-step walk from "
                              "the depot comes after the last visit of the pickup (never visited = 0)"),
                      Theorem("Rl4co.Improve.Check.visitedTime_eq_lastHit", "proved",
                              "the visited_time walk on ANY array stamps each node with the position of its last visit"),
                      Theorem("Rl4co.Improve.Check.pdp_valid_iff", "proved",
                              "soundness up to the sub-tour defect: valid PDP tour ⟺ accepted ∧ walk from the depot meets every node"),
                      Theorem("Rl4co.Improve.Check.code_checkPdp_eq", "proved",
                              "translator tie: the executed checker model (tokens from the source) is the one of the theorems")]
        if _kind == 2:
            _thms += [Theorem("Rl4co.Improve.Check.kopt_repaired_iff", "proved",
                              "repaired clause: with `(visited_time > 0).all()` added the k-opt checker accepts EXACTLY the single n-cycles"),
                      Theorem("Rl4co.Improve.Check.isTour_succ_mod", "proved", "Spec sanity: a tour exists for every n > 0 (j ↦ j+1 mod n)"),
                      Theorem("Rl4co.Improve.Check.cost_reverse", "proved",
                              "Spec sanity: for symmetric D the reversed tour (rec.argsort()) has the same length"),
                      Theorem("Rl4co.Improve.Check.cost_eq_sum_listing", "proved", "Spec sanity: the tour length is the sum of D along any listing of the nodes")]
        else:
            _thms += [Theorem("Rl4co.Improve.Check.pdp_repaired_iff", "proved",
                              "repaired clause: with `(visited_time > 0).all()` added the PDP checker accepts EXACTLY the valid PDP tours"),
                      Theorem("Rl4co.Improve.Check.stamped_iff_mem", "proved", "a node is stamped by the visited_time walk iff the walk meets it"),
                      Theorem("Rl4co.Improve.Check.before_asymm", "proved", "Spec sanity: `Before` is asymmetric and irreflexive on duplicate-free sequences")]
        _thms.append(Theorem("Rl4co.Improve.Check.checkParams_ok", "proved",
                             "translator obligation: `arange == sort(rec_best)`, `visited_time[pickups] < visited_time[deliveries]`, stamps i+1"))
        _thms.append(Theorem("Rl4co.Improve.isTourB_iff", "proved",
                             "the executable run-time oracle isTourB decides the declarative IsTour (single n-cycle)"))
        if _kind == 0:
            _thms.append(Theorem("Rl4co.Improve.pdpValidB_iff", "proved",
                                 "the executable run-time oracle pdpValidB decides the declarative PdpValid (gs odd)"))
    register(Unit("C06", _name, (lambda k: (lambda ctx: run_checker(ctx, k)))(_kind), drivers=["drv_improve"],
                  replay=replay_checker,
                  lean_modules=["Rl4co.Props.C06.Improve"] if _thms else [], theorems=_thms,
                  assumptions=[MODEL_NOTE,
                               "the checker looks only at td['rec_best'] (the `actions` argument is ignored by the code)"]
                  + ([] if _thms else [_NO_THM])))
