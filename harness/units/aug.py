"""`aug` family: C15 (augmentation preserves costs; evaluation reports true best-of-k) and C14 (greedy
inference is per-instance).  Real code: rl4co/data/transforms.py, rl4co/tasks/eval.py, the constructive
policies of rl4co/models/zoo.  Lean: Rl4co/Train/{Augment,Eval}.lean, Rl4co/Props/{C15,C14}/Aug*.lean.
"""
from __future__ import annotations

import math
import os
from fractions import Fraction

import aug_common as ac
import geom
import rl
from common import LEAN_DIR, Theorem, Unit, register
from leanio import parse_fields
from rl import TensorDict, torch

GRID = ac.GRID
KSYM = 60  # the symmetric transform is evaluated exactly over Rat; numbers are sent as numerators over 2^KSYM


# =====================================================================================================
# C15 / aug_transform : StateAugmentation, dihedral_8_augmentation, symmetric_transform
# =====================================================================================================

def _iso_exact(orig_row, new_row):
    n = len(orig_row)
    return all(ac.sq(orig_row[i], orig_row[j]) == ac.sq(new_row[i], new_row[j]) for i in range(n) for j in range(i + 1, n))


def _iso_dev(orig_row, new_row) -> float:
    n = len(orig_row)
    dev = 0.0
    for i in range(n):
        for j in range(i + 1, n):
            dev = max(dev, abs(float(ac.sq(orig_row[i], orig_row[j])) - float(ac.sq(new_row[i], new_row[j]))))
    return dev


def _to_grid(t):
    """real tensor [R, N, 2] → rows of exact grid integers (None if some value is off the grid)"""
    v = (t.double() * GRID)
    if not bool((v == v.round()).all()):
        return None
    return [[(int(p[0]), int(p[1])) for p in row] for row in v.round().long().tolist()]


def _real_state_aug(fn, A, fai, normalize, rows):
    from rl4co.data.transforms import StateAugmentation

    td = TensorDict({"locs": ac.rows_tensor(rows)}, batch_size=[len(rows)])
    aug = StateAugmentation(num_augment=A, augment_fn=fn, first_aug_identity=fai, normalize=normalize)
    return aug(td)["locs"]


def _check_dihedral(ctx, rows, fai, integral):
    B, N = len(rows), len(rows[0])
    witness = {"fn": "dihedral8", "A": 8, "first_aug_identity": fai, "rows": rows}
    reply = ctx.driver.ask(f"aug.dihedral {GRID} 8 {int(fai)} {N} | {ac.flat_ints(rows)}")
    f = parse_fields(reply)
    try:
        out = _real_state_aug("dihedral8", 8, fai, False, rows)
        real = _to_grid(out)
    except IndexError as e:
        real = "index-error"
    ctx.case(("dih", fai, tuple(map(tuple, rows))))
    ctx.count(f"dihedral fai={int(fai)} B={B}")
    if real == "index-error" or f.get("out") == "index-error":
        if not (real == "index-error" and f.get("out") == "index-error"):
            ctx.disagreement("aug: dihedral StateAugmentation index error", {"reply": reply, "real": str(real), **witness})
        else:
            ctx.violation("first_aug_identity_false.index_error",
                          "StateAugmentation(first_aug_identity=False) raises IndexError", witness)
        return
    if real is None:
        ctx.disagreement("aug: dihedral output left the exact grid", witness)
        return
    model = ac.parse_pts(f.get("out", ""))
    if model != real:
        ctx.disagreement("aug: StateAugmentation(dihedral8) differs from the model", {"model": model, "real": real, **witness})
    if len(real) != 8 * B:
        ctx.violation("dihedral.wrong_number_of_rows", "StateAugmentation(dihedral8) does not return 8*B rows", witness)
        return
    # the property, judged on the REAL output (whether or not the model agrees)
    for r, row in enumerate(real):
        a, b = divmod(r, B)
        if not _iso_exact(rows[b], row):
            key = "first_aug_identity_false.row_B_not_isometric" if (not fai and r == B) else "dihedral.copy_not_isometric"
            ctx.violation(key, f"augmented row {r} (copy {a} of instance {b}) is not an isometric image of the instance",
                          {"row": r, "copy": a, "instance": b, "augmented": row, **witness})
        if a == 0 and row != rows[b]:
            ctx.violation("dihedral.first_copy_not_identity", "first copy differs from the original", {"row": r, **witness})
    ctx.count("dihedral rows compared", len(real))
    if fai and N >= 2 and B >= 2:
        ctx.sample({"case": "StateAugmentation(dihedral8)", "B": B, "instance_1_grid_1024": rows[1][:3], "row_1*B+1 (copy 1)": real[B + 1][:3],
                    "sqdist node0-node1 original": ac.sq(rows[1][0], rows[1][1]), "on copy 1": ac.sq(real[B + 1][0], real[B + 1][1]),
                    "copy 0 == original": real[1] == rows[1]}, cap=1)


def _sym_params(seed, A, B):
    """the angles `symmetric_augmentation` draws for a tiled batch of A*B rows under torch seed `seed`"""
    torch.manual_seed(seed)
    u = torch.rand(A * B)
    phi = u * 4 * math.pi
    return u, phi  # RAW angles: zeroing the first `rows // num_augment` of them is the model's business (`symParams`)


def _q(v: float) -> int:
    return int(round(Fraction(float(v)) * (1 << KSYM)))


def _sym_model(ctx, A, fai, rows, c, s, swap):
    N = len(rows[0])
    prm = " ".join(f"{_q(ci)} {_q(si)} {int(wi)}" for ci, si, wi in zip(c.tolist(), s.tolist(), swap.tolist()))
    xs = " ".join(f"{x * ((1 << KSYM) // GRID)} {y * ((1 << KSYM) // GRID)}" for r in rows for (x, y) in r)
    reply = ctx.driver.ask(f"aug.sym {KSYM} {A} {int(fai)} {N} {1 << (KSYM - 1)} | {prm} | {xs}")
    return reply, parse_fields(reply)


def _check_symmetric(ctx, rows, A, fai, seed):
    B, N = len(rows), len(rows[0])
    witness = {"fn": "symmetric", "A": A, "first_aug_identity": fai, "torch_seed": seed, "rows": rows}
    u, phi = _sym_params(seed, A, B)
    c, s, swap = torch.cos(phi), torch.sin(phi), phi > 2 * math.pi  # raw draws, handed to the model as they are
    # hypothesis of `symmetric_isometry`, checked on the sampled angles
    dev = float((c.double() ** 2 + s.double() ** 2 - 1).abs().max())
    if dev > 1e-6:
        ctx.disagreement("aug: cos²+sin² ≠ 1 on a sampled angle", {"dev": dev, **witness})
    # the reflection test of the model (extracted comparison and factors of pi) on the sampled draws
    reps = ctx.driver.ask_many([f"aug.swap {int(Fraction(float(ui)) * (1 << 24))} {1 << 24}" for ui in u.tolist()])
    for k, (rp, ui) in enumerate(zip(reps, u.tolist())):
        want = bool(swap[k]) if k >= B else None
        if want is not None and parse_fields(rp).get("swap") != str(int(want)) and abs(ui - 0.5) > 1e-6:
            ctx.disagreement("aug: reflection test differs from the model", {"u": ui, "reply": rp, **witness})
    reply, f = _sym_model(ctx, A, fai, rows, c, s, swap)
    torch.manual_seed(seed)
    try:
        out = _real_state_aug("symmetric", A, fai, False, rows)
    except IndexError:
        out = "index-error"
    ctx.case(("sym", A, fai, seed, tuple(map(tuple, rows))))
    ctx.count(f"symmetric A={A} fai={int(fai)}")
    if isinstance(out, str) or f.get("out") == "index-error":
        if not (isinstance(out, str) and f.get("out") == "index-error"):
            ctx.disagreement("aug: symmetric StateAugmentation index error", {"reply": reply[:300], "real": str(out)[:300], **witness})
        else:
            ctx.violation("first_aug_identity_false.index_error",
                          "StateAugmentation(first_aug_identity=False) raises IndexError (row index B out of range)", witness)
        return
    model = ac.parse_pts(f.get("out", ""), frac=True)
    real = out.double().tolist()
    if len(model) != len(real) or len(real) != A * B:
        ctx.disagreement("aug: symmetric output has a different number of rows", {"model": len(model), "real": len(real), **witness})
        return
    worst = 0.0
    for r in range(len(real)):
        for j in range(N):
            worst = max(worst, abs(float(model[r][j][0]) - real[r][j][0]), abs(float(model[r][j][1]) - real[r][j][1]))
    if worst > 1e-5:
        ctx.disagreement("aug: StateAugmentation(symmetric) differs from the model by more than 1e-5", {"worst": worst, **witness})
    orig = [[(x / GRID, y / GRID) for (x, y) in r] for r in rows]
    for r, row in enumerate(real):
        a, b = divmod(r, B)
        d = _iso_dev(orig[b], [tuple(p) for p in row])
        if d > 1e-5:
            key = "first_aug_identity_false.row_B_not_isometric" if (not fai and r == B) else "symmetric.copy_not_isometric"
            ctx.violation(key, f"augmented row {r} (copy {a} of instance {b}) is not an isometric image of the instance "
                               f"(squared distances differ by {d:.3g})",
                          {"row": r, "copy": a, "instance": b, "augmented": row, **witness})
        if a == 0:
            d0 = max(abs(row[j][k] - orig[b][j][k]) for j in range(N) for k in range(2))
            if d0 > 1e-5:
                ctx.violation("symmetric.first_copy_not_identity", "first copy differs from the original", {"row": r, "dev": d0, **witness})
            if d0 == 0.0:
                ctx.count("symmetric first copy bit-identical")
    ctx.count("symmetric rows compared", len(real))
    if fai and A >= 2 and N >= 2 and len(ctx.samples) < 2:
        r = len(real) - 1
        ctx.sample({"case": "StateAugmentation(symmetric)", "A": A, "B": B, "torch_seed": seed, "phi_last_row": round(float(phi[r]), 4),
                    "reflected": bool(swap[r]), "instance": orig[r % B][:2], "augmented_row": [[round(v, 5) for v in pt] for pt in real[r][:2]],
                    "max |model-real|": worst, "sqdist dev of that row": _iso_dev(orig[r % B], [tuple(pt) for pt in real[r]])}, cap=2)


def _check_transform_direct(ctx):
    """`symmetric_transform` on hand-chosen angles incl. phi = 0 and both sides of 2π; `dihedral_8_augmentation` raw."""
    from rl4co.data.transforms import dihedral_8_augmentation, symmetric_transform

    rows = ac.gen_rows(ctx.rng, 6, 4, integral=False)
    xy = ac.rows_tensor(rows)
    us = [0.0, 0.25, 0.5 - 2 ** -20, 0.5 + 2 ** -20, 0.75, 1 - 2 ** -24]
    phi = torch.tensor(us, dtype=torch.float32) * 4 * math.pi
    out = symmetric_transform(xy[..., [0]], xy[..., [1]], phi[:, None, None])
    c, s, swap = torch.cos(phi), torch.sin(phi), phi > 2 * math.pi
    N = 4
    for k in range(6):
        prm = f"{_q(c[k])} {_q(s[k])} {int(swap[k])}"
        xs = " ".join(f"{x * ((1 << KSYM) // GRID)} {y * ((1 << KSYM) // GRID)}" for (x, y) in rows[k])
        f = parse_fields(ctx.driver.ask(f"aug.symraw {KSYM} 1 1 {N} {1 << (KSYM - 1)} | {prm} | {xs}"))
        model = ac.parse_pts(f.get("out", ""), frac=True)[0]
        real = out[k].double().tolist()
        worst = max(abs(float(model[j][t]) - real[j][t]) for j in range(N) for t in range(2))
        ctx.case(("symdirect", k, tuple(rows[k])))
        if worst > 1e-5:
            ctx.disagreement("aug: symmetric_transform differs from the model", {"u": us[k], "worst": worst, "row": rows[k]})
        sw = parse_fields(ctx.driver.ask(f"aug.swap {int(us[k] * (1 << 24))} {1 << 24}")).get("swap")
        if sw != str(int(swap[k])):
            ctx.disagreement("aug: reflection test differs from the model", {"u": us[k], "model": sw, "real": bool(swap[k])})
        if us[k] == 0.0 and real != [list(map(lambda v: v / GRID, p)) for p in rows[k]]:
            dev = max(abs(real[j][t] - rows[k][j][t] / GRID) for j in range(N) for t in range(2))
            ctx.count("symmetric_transform(phi=0) not bit-identical (float (x-0.5)+0.5)")
            if dev > 1e-6:
                ctx.violation("symmetric.first_copy_not_identity", "symmetric_transform(phi=0) moves points", {"dev": dev, "row": rows[k]})
    ctx.count("symmetric_transform direct angles", 6)
    raw = dihedral_8_augmentation(xy)
    f = parse_fields(ctx.driver.ask(f"aug.dihedral {GRID} 8 1 {N} | {ac.flat_ints(rows)}"))
    if ac.parse_pts(f.get("out", "")) != _to_grid(raw):
        ctx.disagreement("aug: dihedral_8_augmentation differs from the model", {"rows": rows})


def _check_normalize(ctx, rows, fn, A, seed):
    """`normalize=True` rescales by the batch-global min / max: a similarity, not an isometry — excluded from the
    property; checked only as `min_max_normalize(un-normalised output)`."""
    torch.manual_seed(seed)
    plain = _real_state_aug(fn, A, True, False, rows)
    torch.manual_seed(seed)
    normed = _real_state_aug(fn, A, True, True, rows)
    lo, hi = plain.min(), plain.max()
    if float(hi - lo) == 0.0:
        ctx.count("normalize: degenerate batch (max = min) skipped")
        return
    want = (plain - lo) / (hi - lo)
    if float((want - normed).abs().max()) > 1e-6:
        ctx.disagreement("aug: normalize=True is not min-max of the un-normalised output", {"fn": fn, "A": A, "rows": rows})
    # the Lean model of min_max_normalize (exact rationals) on the un-normalised real output, and its theorem's claim:
    # ONE ratio for the whole batch — every squared distance of every row is scaled by ratio²
    N = len(rows[0])
    vals = " ".join(str(int(Fraction(float(v)) * (1 << KSYM))) for v in plain.flatten().tolist())
    f = parse_fields(ctx.driver.ask(f"aug.normalize {KSYM} {N} | {vals}"))
    if f.get("out") not in (None, "degenerate"):
        model = ac.parse_pts(f["out"], frac=True)
        real = normed.double().tolist()
        worst = max(abs(float(model[r][j][k]) - real[r][j][k]) for r in range(len(real)) for j in range(N) for k in range(2))
        if worst > 1e-5:
            ctx.disagreement("aug: min_max_normalize differs from the model", {"worst": worst, "fn": fn, "A": A, "rows": rows})
        ratio = float(Fraction(f["ratio"]))
        pl = plain.double().tolist()
        for r in range(len(real)):
            for i in range(N):
                for j in range(i + 1, N):
                    d0 = ac.sq(tuple(pl[r][i]), tuple(pl[r][j]))
                    d1 = ac.sq(tuple(real[r][i]), tuple(real[r][j]))
                    if abs(d1 - ratio * ratio * d0) > 1e-5 * max(1.0, ratio * ratio):
                        ctx.violation("normalize.not_a_similarity", "normalize=True does not scale all distances by one common ratio",
                                      {"row": r, "ratio": ratio, "fn": fn, "A": A, "rows": rows})
        ctx.count("normalize=True: similarity with one ratio for the whole batch checked")
    ctx.count("normalize=True (similarity; excluded from the isometry claim)")
    ctx.case(("norm", fn, A, seed, tuple(map(tuple, rows))), nontrivial=False)


def _check_costs(ctx, kind, fn, A, n, B, seed):
    """any action list has the same cost on every augmented copy as on the original (real env reward on the
    augmented batch vs. Lean objective on the original distance matrix)"""
    from rl4co.data.transforms import StateAugmentation
    from rl4co.envs import CVRPEnv, TSPEnv

    env = (TSPEnv if kind == 0 else CVRPEnv)(generator_params=dict(num_loc=n), check_solution=False)
    insts = [(ac.tsp_instance if kind == 0 else ac.cvrp_instance)(ctx.rng, n) for _ in range(B)]
    td = env.reset(ac.to_td(insts))
    torch.manual_seed(seed)
    td_aug = StateAugmentation(num_augment=A, augment_fn=fn)(td)
    acts = []
    for _ in range(A * B):
        if kind == 0:
            p = list(range(n))
            ctx.rng.shuffle(p)
        else:
            p = list(range(1, n + 1))
            ctx.rng.shuffle(p)
            for _k in range(ctx.rng.randint(0, 2)):
                p.insert(ctx.rng.randrange(1, len(p) + 1), 0)
            p = p + [0] * (n + 3 - len(p))
        acts.append(p)
    r_aug = env.get_reward(td_aug, torch.tensor(acts))
    reps = ctx.driver.ask_many([ac.cost_line(insts[r % B], acts[r]) for r in range(A * B)])
    for r in range(A * B):
        f = parse_fields(reps[r])
        obj = int(f["obj"])
        got = float(r_aug[r]) * rl.SCALE
        ctx.case(("cost", kind, fn, A, r, tuple(acts[r]), tuple(insts[r % B]["pts"])))
        tol = 0 if fn == "dihedral8" else 1e-5 * rl.SCALE * len(acts[r])
        if abs(-got - obj) > tol:
            ctx.violation(f"{fn}.cost_changed",
                          f"cost of an action list on augmented copy {r // B} differs from its cost on the original instance",
                          {"fn": fn, "A": A, "torch_seed": seed, "row": r, "instance": insts[r % B], "actions": acts[r],
                           "cost_on_copy_ticks": -got, "cost_on_original_ticks": obj})
        if int(f["reward"]) != -obj:
            ctx.disagreement("aug: reward model differs from the Spec objective", {"reply": reps[r], "actions": acts[r]})
    ctx.count(f"cost invariance {['tsp', 'cvrp'][kind]} {fn} A={A}", A * B)
    ctx.sample({"case": "tour cost on an augmented copy", "env": ["tsp", "cvrp"][kind], "fn": fn, "A": A, "row": A * B - 1,
                "actions": acts[-1], "env reward on the copy (ticks)": float(r_aug[-1]) * rl.SCALE,
                "Lean objective on the original (ticks)": int(parse_fields(reps[-1])["obj"])}, cap=3)


def run_transform(ctx):
    torch.set_float32_matmul_precision("highest")
    reps = ctx.budget(6, 40)
    _check_transform_direct(ctx)
    for rep in range(reps):
        for B in (1, 2, 3, 4):
            N = ctx.rng.choice([1, 2, 3, 5, 8])
            integral = ctx.rng.random() < 0.5
            rows = ac.gen_rows(ctx.rng, B, N, integral)
            for fai in (True, False):
                _check_dihedral(ctx, rows, fai, integral)
                for A in (1, 2, 3, 8):
                    _check_symmetric(ctx, rows, A, fai, seed=ctx.rng.randrange(1 << 30))
            if rep < 3:
                _check_normalize(ctx, rows, "symmetric", ctx.rng.choice([2, 4]), ctx.rng.randrange(1 << 30))
                _check_normalize(ctx, rows, "dihedral8", 8, 0)
        for kind in (0, 1):
            _check_costs(ctx, kind, "dihedral8", 8, ctx.rng.choice([3, 5, 7]), ctx.rng.choice([1, 2, 3]), 0)
            _check_costs(ctx, kind, "symmetric", ctx.rng.choice([2, 3, 8]), ctx.rng.choice([3, 5, 7]),
                         ctx.rng.choice([1, 2, 3]), ctx.rng.randrange(1 << 30))
    # object reuse: ONE StateAugmentation object called on batch 1, a different batch 2, batch 1 again must give what fresh
    # objects give (same torch seed)
    from rl4co.data.transforms import StateAugmentation as _SA
    for fn, A in (("dihedral8", 8), ("symmetric", 3)):
        obj = _SA(num_augment=A, augment_fn=fn)
        b1, b2 = ac.gen_rows(ctx.rng, 2, 4), ac.gen_rows(ctx.rng, 3, 4)
        for call_no, rws in enumerate((b1, b2, b1)):
            sd = ctx.rng.randrange(1 << 30)
            td = TensorDict({"locs": ac.rows_tensor(rws)}, batch_size=[len(rws)])
            torch.manual_seed(sd)
            got = obj(td.clone())["locs"]
            torch.manual_seed(sd)
            fresh = _SA(num_augment=A, augment_fn=fn)(td.clone())["locs"]
            ctx.case(("aug-reuse", fn, call_no, sd))
            if got.shape != fresh.shape or not bool((got == fresh).all()):
                ctx.violation("augmentation.result_depends_on_call_history",
                              f"StateAugmentation({fn}) object: call {call_no + 1} differs from a fresh object on the same batch",
                              {"fn": fn, "A": A, "call_number": call_no + 1, "rows": rws, "torch_seed": sd})
    ctx.count("StateAugmentation objects reused over three calls", 2)
    # dihedral8 refuses any other number of copies (scope of the claim: num_augment = 8)
    from rl4co.data.transforms import StateAugmentation
    try:
        StateAugmentation(num_augment=4, augment_fn="dihedral8")
        ctx.note("StateAugmentation(dihedral8, num_augment=4) no longer refused")
    except AssertionError:
        ctx.count("dihedral8 with num_augment != 8 refused by assertion")


TRANSFORM_NOTE = ("coordinates modelled over a commutative ring (exact grid integers / rationals in the driver); float32 cos/sin, "
                  "the float rounding of (x-0.5)+0.5 and torch.rand are glue: the angles are re-drawn with the same torch seed and "
                  "c²+s²=1 is checked on the sampled angles (tolerance 1e-6); symmetric outputs compared within 1e-5, dihedral exactly")
NORMALIZE_NOTE = ("normalize=True (min-max over the whole batch) is a similarity, not an isometry: excluded from the isometry claim, "
                  "covered by its own theorems (one common ratio, costs scale by one factor, order of solutions preserved; the ratio "
                  "1/(max-min) and the homogeneity of sqrt are hypotheses) and by the correspondence with the exact model; it is off by "
                  "default and the evaluators never enable it")


def _exists(rel):
    return os.path.exists(os.path.join(LEAN_DIR, rel))


C15_ISO = "Rl4co/Props/C15/AugIsometry.lean"
C15_EVAL = "Rl4co/Props/C15/AugEval.lean"
C15_NORM = "Rl4co/Props/C15/AugNormalize.lean"
C15_HIST = "Rl4co/Props/C15/AugHistory.lean"
C15_KEYS = "Rl4co/Props/C15/AugKeys.lean"

register(Unit(
    "C15", "aug_transform", run_transform, drivers=["drv_aug"],
    lean_modules=(["Rl4co.Props.C15.AugIsometry"] + (["Rl4co.Props.C15.AugNormalize"] if _exists(C15_NORM) else []))
    if _exists(C15_ISO) else ["Rl4co.Train.Augment"],
    theorems=[
        Theorem("Rl4co.Augment.dihedral_isometry", "proved", "each map of the extracted dihedral table preserves squared distance (any commutative ring)"),
        Theorem("Rl4co.Augment.dihedral_first_id", "proved", "copy 0 of dihedral_8_augmentation is the identity"),
        Theorem("Rl4co.Augment.dihedral_maps_square", "proved", "each dihedral map sends the square [0,one]² into itself"),
        Theorem("Rl4co.Augment.symmetric_isometry", "proved", "c²+s²=1 ⇒ symmetric_transform (extracted rotation table, shifts, optional axis swap) preserves squared distance"),
        Theorem("Rl4co.Augment.symmetric_first_id", "proved", "c=1, s=0, no swap ⇒ symmetric_transform is the identity"),
        Theorem("Rl4co.Augment.swap_first", "proved", "phi = 0 is never reflected (extracted comparison)"),
        Theorem("Rl4co.Augment.cost_invariant", "proved", "any objective that sees coordinates only through pairwise distances has the same value on an isometric copy, for every action list"),
        Theorem("Rl4co.Augment.stateAugDihedral_row", "proved", "row a*B+b of StateAugmentation(dihedral8) is copy a of instance b; rows 0..B-1 are the originals"),
        Theorem("Rl4co.Augment.stateAugSym_row", "proved", "row a*B+b of StateAugmentation(symmetric) is instance b under that row's rotation"),
        Theorem("Rl4co.Augment.cost_invariant_dihedral", "proved", "TSP tour length and CVRP routes length of any action list are the same on each of the 8 dihedral copies"),
        Theorem("Rl4co.Augment.stateAugSym_all_isometric", "proved", "StateAugmentation(symmetric): unit (c,s) per row and φ=0 on the first B rows ⇒ every row is an isometric image of its instance, first B rows are the originals"),
        Theorem("Rl4co.Augment.stateAug_all_isometric_partial", "partial", "first_aug_identity=True ⇒ every augmented row is an isometric image of its instance and the first B rows are the originals"),
        Theorem("Rl4co.Augment.first_aug_identity_false_counterexample", "proved", "¬ (the same statement with first_aug_identity=False): row B keeps node 0 un-transformed"),
    ] + ([
        Theorem("Rl4co.Augment.first_rows_are_batch", "proved", "the extracted bound `xy.shape[0] // num_augment`, with num_augment forwarded by StateAugmentation, zeroes exactly the first B of the A·B angles"),
        Theorem("Rl4co.Augment.symParams_ok", "proved", "the parameters symmetric_augmentation really uses (raw draws + phi[:B]=0) satisfy the side conditions: first B rows identity, all rows unit rotations"),
        Theorem("Rl4co.Augment.stateAugSymDraws_all_isometric", "proved", "StateAugmentation(symmetric, num_augment=A) from RAW draws: every row isometric image of its instance, first B rows the originals, for every A > 0"),
        Theorem("Rl4co.Augment.normalize_similarity", "proved", "normalize=True: min_max_normalize scales every squared distance by the one ratio r² of the batch"),
        Theorem("Rl4co.Augment.normalize_cost_scales", "proved", "normalize=True: tour / routes costs of every action list scale by one common factor ρ"),
        Theorem("Rl4co.Augment.normalize_preserves_order", "proved", "normalize=True: the order of any two solutions by cost is unchanged (ρ > 0)"),
    ] if _exists(C15_NORM) else []) if _exists(C15_ISO) else [],
    assumptions=[TRANSFORM_NOTE, NORMALIZE_NOTE] + ([] if _exists(C15_ISO) else ["no theorem yet: correspondence + spec oracle only"]),
))


# =====================================================================================================
# C15 / aug_eval : evaluate_policy with every method
# =====================================================================================================

METHODS = {  # method → (model code, uses augmentation, uses multistart)
    "greedy": (0, False, False),
    "sampling": (4, False, False),
    "multistart_greedy": (2, False, True),
    "augment_dihedral_8": (1, True, False),
    "augment": (1, True, False),
    "multistart_greedy_augment_dihedral_8": (3, True, True),
    "multistart_greedy_augment": (3, True, True),
}


def _make_rec(policy):
    import torch.nn as nn

    class Rec(nn.Module):
        """records, per policy call, the input batch and ALL candidate action rows (for sampling with
        select_best the candidates are obtained by an identical extra pass under the same RNG state)"""

        def __init__(self, p):
            super().__init__()
            self.p = p
            self.calls = []

        def forward(self, td, *a, **kw):
            cand = None
            td0 = td.clone()
            if kw.get("decode_type") == "sampling" and kw.get("select_best"):
                st = torch.get_rng_state()
                cand = self.p(td.clone(), *a, **dict(kw, select_best=False))["actions"].clone()
                torch.set_rng_state(st)
            out = self.p(td, *a, **kw)
            self.calls.append({"td": td0, "kw": {k: v for k, v in kw.items() if not callable(v)},
                               "cand": (out["actions"] if cand is None else cand).clone(),
                               "out_actions": out["actions"].clone()})
            return out

    return Rec(policy)


def _make_stub(n):
    """TSP stub policy: a deterministic pseudo-random tour per (row coordinates, start node); candidates of
    different copies / starts differ, which makes every regrouping mistake visible in the rewards."""
    import hashlib
    import random as _r

    import torch.nn as nn

    class Stub(nn.Module):
        def __init__(self):
            super().__init__()
            self.w = nn.Parameter(torch.zeros(1))

        @staticmethod
        def tour(loc_row, start):
            h = int.from_bytes(hashlib.sha256(loc_row.numpy().tobytes()).digest()[:8], "big")
            if start is None:
                start = h % n
            rest = [j for j in range(n) if j != start]
            _r.Random(h * 131 + start).shuffle(rest)
            return [start] + rest

        def forward(self, td, env=None, decode_type="greedy", num_starts=0, **kw):
            B = td.batch_size[0]
            locs = td["locs"]
            if decode_type.startswith("multistart"):
                acts = [self.tour(locs[r % B], r // B) for r in range(num_starts * B)]
            else:
                acts = [self.tour(locs[b], None) for b in range(B)]
            acts = torch.tensor(acts, dtype=torch.long)
            return {"actions": acts, "reward": torch.zeros(acts.shape[0]), "log_likelihood": torch.zeros(acts.shape[0])}

    return Stub().eval()


ENVN = ["tsp", "cvrp", "op"]


def _strip(kind, a):
    a = list(a)
    if kind >= 1:
        while a and a[-1] == 0:
            a.pop()
    return a


def _eval_once(ctx, env, kind, insts, policy, pname, method, nb, A, samples, solo_greedy):
    from rl4co.data.dataset import TensorDictDataset
    from rl4co.tasks.eval import evaluate_policy

    M, n = len(insts), (len(insts[0]["pts"]) - (0 if kind == 0 else 1))
    mcode, uses_aug, uses_ms = METHODS[method]
    S = n if uses_ms else (samples if method == "sampling" else 1)
    Aeff = (8 if method.endswith("dihedral_8") else A) if uses_aug else 1
    K = Aeff * S
    kw = {}
    if uses_aug and not method.endswith("dihedral_8"):
        kw["num_augment"] = A
    if method == "sampling":
        kw["samples"] = samples
    seed = ctx.rng.randrange(1 << 30)
    witness = {"env": ENVN[kind], "policy": pname, "method": method, "batch_size": nb, "num_augment": Aeff,
               "num_starts_or_samples": S, "torch_seed": seed, "instances": insts}
    rec = _make_rec(policy)
    ds = TensorDictDataset(ac.to_td(insts))
    torch.manual_seed(seed)
    try:
        with ac.quiet():
            out = evaluate_policy(env, rec, ds, method=method, batch_size=nb, auto_batch_size=False, **kw)
    except Exception as e:
        ctx.case((kind, pname, method, nb, A, samples, seed, "crash"))
        ctx.violation("eval.crash", f"evaluate_policy(method={method}) raises {type(e).__name__}: {str(e)[:120]}", witness)
        return
    rewards, actions = out["rewards"].flatten(), out["actions"].reshape(out["actions"].shape[0], -1).tolist()
    ctx.count(f"eval {ENVN[kind]} {pname} {method}")
    ctx.count("batch size divides dataset" if M % nb == 0 else "batch size does not divide dataset")
    if nb == 1:
        ctx.count("loader batch size 1")
    ctx.case((kind, pname, method, nb, A, samples, seed, tuple(tuple(i["pts"]) for i in insts)))
    # loader chunking
    sizes = ac.parse_ints(parse_fields(ctx.driver.ask(f"aug.chunks {nb} {M}")).get("sizes", ""))
    got_sizes = [c["td"].batch_size[0] // (Aeff if uses_aug else 1) for c in rec.calls]
    if sizes != got_sizes:
        ctx.disagreement("aug: loader batches differ from the chunk model", {"model": sizes, "real": got_sizes, **witness})
        return
    if len(rewards) != M or len(actions) != M:
        ctx.violation("eval.wrong_length", "evaluate_policy returned a different number of results than instances", witness)
        return
    try:
        rew_ticks = [rl.ticks(v) for v in rewards.tolist()]
    except ValueError:
        ctx.disagreement("aug: reported reward left the exact grid", {"rewards": rewards.tolist(), **witness})
        return
    # ---- model of each `_inner` on the recorded candidates, then padding + concatenation ------------
    off, lines, metas = 0, [], []
    for c, Bj in zip(rec.calls, sizes):
        cand = c["cand"].tolist()
        L = len(cand[0])
        if len(cand) != K * Bj:
            ctx.disagreement("aug: number of candidate rows is not K*B", {"rows": len(cand), "K": K, "B": Bj, **witness})
            return
        secs = " | ".join(ac.D_flat(i) for i in insts[off:off + Bj])
        m = len(insts[0]["pts"])
        lines.append(f"aug.inner {mcode} {kind} {m} {Bj} {Aeff} {S} {L} | {secs} | " + " ".join(str(v) for r in cand for v in r))
        metas.append((off, Bj, L, cand))
        off += Bj
    reps = ctx.driver.ask_many(lines)
    model_rewards, model_batches = [], []
    for rp in reps:
        f = parse_fields(rp)
        if "rewards" not in f:
            ctx.disagreement("aug: driver error", {"reply": rp[:200], **witness})
            return
        model_rewards += ac.parse_ints(f["rewards"])
        model_batches.append(ac.parse_rows(f.get("actions", "")))
    cat = parse_fields(ctx.driver.ask("aug.concat | " + " | ".join(
        f"{len(b[0])} " + " ".join(str(v) for r in b for v in r) for b in model_batches)))
    model_actions = ac.parse_rows(cat.get("actions", ""))
    if model_rewards != rew_ticks:
        ctx.disagreement("aug: reported rewards differ from the evaluator model", {"model": model_rewards, "real": rew_ticks, **witness})
    if model_actions != actions:
        ctx.disagreement("aug: returned (padded, concatenated) actions differ from the evaluator model",
                         {"model": model_actions, "real": actions, **witness})
    if len({len(b[0]) for b in model_batches}) > 1:
        ctx.count("loader batches with different action lengths (padding exercised)")
    # ---- the property, judged by the Lean objective on the ORIGINAL instances -----------------------
    cost_lines, idx = [], []
    for i in range(M):
        cost_lines.append(ac.cost_line(insts[i], actions[i]))
        idx.append(("ret", i, None))
    for (off, Bj, L, cand) in metas:
        for r, row in enumerate(cand):
            cost_lines.append(ac.cost_line(insts[off + r % Bj], row))
            idx.append(("cand", off + r % Bj, r // Bj))
    creps = ctx.driver.ask_many(cost_lines)
    best, ret_obj, cand_of = {}, {}, {}
    for (tag, i, k), rp in zip(idx, creps):
        obj = int(parse_fields(rp)["obj"])
        if tag == "ret" and parse_fields(rp).get("feas") == "0":
            ctx.violation("eval.returned_actions_infeasible",
                          f"{method}: the actions returned for instance {i} are not a feasible solution of the ORIGINAL instance "
                          "(Lean Spec: a customer twice, or the length budget exceeded)",
                          {"instance_index": i, "returned_actions": actions[i], **witness})
        if tag == "ret":
            ret_obj[i] = obj
        else:
            best[i] = min(best.get(i, obj), obj)
            cand_of.setdefault(i, []).append((k, obj))
    td_all = env.reset(ac.to_td(insts))
    own = None
    try:
        with ac.quiet():
            own = env.get_reward(td_all, torch.tensor(actions))
    except Exception as e:  # the env's own checker rejects what evaluate_policy returned
        ctx.violation("eval.returned_actions_rejected_by_env",
                      f"{method}: env.get_reward(original instances, returned actions) raises {type(e).__name__}: {str(e)[:80]}",
                      {"returned_actions": actions, **witness})
    for i in range(M):
        if rew_ticks[i] != -ret_obj[i]:
            ctx.violation("eval.reported_ne_cost_of_returned_actions",
                          f"{method}: reported reward of instance {i} is not the objective of the returned actions on the original instance",
                          {"instance_index": i, "reported_ticks": rew_ticks[i], "objective_of_returned_ticks": ret_obj[i],
                           "returned_actions": actions[i], **witness})
        if own is not None and rl.ticks(own[i]) != rew_ticks[i]:
            ctx.violation("eval.reported_ne_env_reward_of_returned_actions",
                          f"{method}: env.get_reward(original, returned actions) differs from the reported reward", {"instance_index": i, **witness})
        if rew_ticks[i] != -best[i]:
            ctx.violation("eval.reported_ne_max_over_candidates",
                          f"{method}: reported reward of instance {i} is not the maximum over that instance's {K} candidates",
                          {"instance_index": i, "reported_ticks": rew_ticks[i], "best_candidate_ticks": -best[i],
                           "candidates": cand_of[i], **witness})
        if len(cand_of[i]) != K:
            ctx.disagreement("aug: candidate count per instance", {"i": i, "got": len(cand_of[i]), "K": K, **witness})
        if len({o for _, o in cand_of[i]}) > 1:
            ctx.count("instances whose candidates have different costs")
    if K > 1 and M >= 2:
        ctx.sample({"case": "evaluate_policy", "env": ENVN[kind], "policy": pname, "method": method, "dataset": M,
                    "loader_batches": sizes, "K candidates/instance": K, "instance 1 reported reward (ticks)": rew_ticks[1],
                    "objective of returned actions on the ORIGINAL instance": ret_obj[1], "returned actions": actions[1],
                    "costs of its candidates (copy/start index, ticks)": cand_of[1][:8]}, cap=3)
    # ---- never worse than solo greedy when the greedy rollout is among the candidates ----------------
    if solo_greedy is not None and method != "sampling":
        for (off, Bj, L, cand) in metas:
            for b in range(Bj):
                i = off + b
                g_actions, g_obj = solo_greedy[i]
                mine = [_strip(kind, cand[k * Bj + b]) for k in range(K)]
                if _strip(kind, g_actions) in mine:
                    ctx.count("greedy rollout found among the candidates")
                    if rew_ticks[i] < -g_obj:
                        ctx.violation("eval.worse_than_greedy", f"{method}: reported reward is worse than single greedy decoding although "
                                      "the greedy rollout is among the candidates", {"instance_index": i, **witness})
                else:
                    ctx.count("greedy rollout NOT among the candidates (rounding tie / batch effect): skipped")
    # ---- determinism of the oracle: re-running the policy on a recorded batch reproduces the candidates
    if method != "sampling":
        c = rec.calls[ctx.rng.randrange(len(rec.calls))]
        with ac.quiet():
            again = policy(c["td"].clone(), **c["kw"])["actions"]
        if again.shape != c["cand"].shape or not bool((again == c["cand"]).all()):
            ctx.disagreement("aug: policy is not deterministic on a recorded batch (hypothesis Deterministic π)", witness)


def _eval_float_envs(ctx):
    """generic (float) stream: evaluators on envs whose FEASIBLE FIRST MOVES DIFFER per instance (length budgets, time windows,
    skills, mixed MTVRP variants), datasets whose per-instance parameters differ, loader batches of >= 2 instances and
    samples >= 2.  Judged by the real env on the ORIGINAL instances one at a time (its checker included): the reported
    reward is the reward of the returned actions, and the maximum over that instance's recorded candidates."""
    import aug_zoo as zoo
    from rl4co.data.dataset import TensorDictDataset
    from rl4co.envs import get_env
    from rl4co.tasks.eval import evaluate_policy

    todo = [("op", ["sampling", "greedy", "augment"]), ("svrp", ["sampling", "greedy"])]
    # (CVRPTW is left out: on generated instances with max_time != default its mask admits rollouts that its own checker rejects
    #  — "vehicle cannot perform service and get back to depot in time" — an env-level matter of C01/C06, not of the evaluators)
    # (MTVRP cannot go through evaluate_policy at all: the evaluators call the policy WITHOUT the env, the policy then builds
    #  `get_env("mtvrp")` with default arguments, whose generator asserts "Cannot use subsample if variant_preset is not specified")
    if ctx.tier != "thorough" and not ctx.searching:
        todo = [(e, ms[:2] if e == "op" else ms[:1]) for e, ms in todo]
    for ename, methods in todo:
        try:
            env = get_env(ename, generator_params=zoo.ENV_PARAMS[ename])
            variants = zoo.ENV_VARIANTS.get(ename, [{}])[:3]
            torch.manual_seed(ctx.rng.randrange(1 << 30))
            data = torch.cat([get_env(ename, generator_params={**zoo.ENV_PARAMS[ename], **v}).generator(batch_size=[2]) for v in variants], 0)
            order = list(range(data.batch_size[0]))
            ctx.rng.shuffle(order)
            data = data[order]
            pol = zoo._am(ename).eval()
        except Exception as e:
            ctx.note(f"float-stream eval unavailable on {ename}: {type(e).__name__}: {str(e)[:80]}")
            continue
        M = data.batch_size[0]
        singles = [env.reset(data[i:i + 1]) for i in range(M)]

        def solo_reward(i, row):
            with ac.quiet():
                return float(env.get_reward(singles[i], torch.tensor([row]))[0])

        for method in methods:
            for nb in (2, 4):
                samples = ctx.rng.choice([2, 3])
                kw = {"samples": samples} if method == "sampling" else ({"num_augment": 2} if method == "augment" else {})
                seed = ctx.rng.randrange(1 << 30)
                witness = {"env": ename, "policy": "am", "method": method, "batch_size": nb, "dataset": M, "torch_seed": seed, **kw}
                rec = _make_rec(pol)
                ctx.case(("float", ename, method, nb, seed))
                ctx.count(f"eval(float) {ename} {method} batch={nb}")
                try:
                    torch.manual_seed(seed)
                    with ac.quiet():
                        out = evaluate_policy(env, rec, TensorDictDataset(data), method=method, batch_size=nb, auto_batch_size=False, **kw)
                except Exception as e:
                    ctx.violation("eval.crash", f"evaluate_policy(method={method}) on {ename} raises {type(e).__name__}: {str(e)[:120]}", witness)
                    continue
                rewards = out["rewards"].flatten().tolist()
                actions = out["actions"].reshape(out["actions"].shape[0], -1).tolist()
                if len(rewards) != M:
                    ctx.violation("eval.wrong_length", "evaluate_policy returned a different number of results than instances", witness)
                    continue
                off = 0
                for c in rec.calls:
                    rows = c["cand"].tolist()
                    Bj = min(nb, M - off)
                    K = len(rows) // Bj
                    for b in range(Bj):
                        i = off + b
                        tol = 1e-5 * max(1.0, abs(rewards[i]))
                        try:
                            own = solo_reward(i, actions[i])
                        except Exception as e:
                            ctx.violation("eval.returned_actions_rejected_by_env",
                                          f"{method} on {ename}: the env rejects the actions returned for instance {i} on the original instance "
                                          f"({type(e).__name__}: {str(e)[:60]})", {"instance_index": i, "returned_actions": actions[i], **witness})
                            continue
                        if abs(own - rewards[i]) > tol:
                            ctx.violation("eval.reported_ne_env_reward_of_returned_actions",
                                          f"{method} on {ename}: reported {rewards[i]} but the returned actions are worth {own} on the original instance",
                                          {"instance_index": i, "returned_actions": actions[i], **witness})
                        best, bad = None, 0
                        for k in range(K):
                            try:
                                v = solo_reward(i, rows[k * Bj + b])
                                best = v if best is None else max(best, v)
                            except Exception:
                                bad += 1
                        if bad:
                            ctx.violation("eval.candidate_infeasible_for_its_instance",
                                          f"{method} on {ename}: {bad} of the {K} candidate rollouts of instance {i} are rejected by the env on that instance",
                                          {"instance_index": i, **witness})
                        elif best is not None and abs(best - rewards[i]) > tol:
                            ctx.violation("eval.reported_ne_max_over_candidates",
                                          f"{method} on {ename}: reported {rewards[i]}, best candidate of the instance {best}",
                                          {"instance_index": i, **witness})
                    off += Bj


def _check_model_steps(ctx):
    """the MODELS' own val / test paths: the real `POMO.shared_step` and `SymNCO.shared_step` (they call the augmentation
    themselves), no Trainer: `log_metrics` is replaced by a recorder.  Judged by the Lean objective on the ORIGINAL instances:
    `max_aug_reward` = objective of `best_aug_actions`, those actions are feasible on the original, and the value is the maximum
    over all A·S candidate rollouts of the instance; `max_reward[b]` likewise for the multistart-only case."""
    from rl4co.models.zoo.am import AttentionModelPolicy
    from rl4co.models.zoo.pomo import POMO
    from rl4co.models.zoo.symnco import SymNCO, SymNCOPolicy

    for kind in (0, 1, 2):
        n = ctx.rng.choice([4, 5])
        B = ctx.rng.choice([2, 3])
        env = _make_env(kind, n)
        insts = _make_insts(ctx, kind, n, B)
        batch = ac.to_td(insts)
        for mname in ("POMO", "SymNCO"):
            for A, fn in ((8, "dihedral8"), (2, "symmetric")):
                for phase in (("val",) if A == 2 else ("test",)):
                    seed = ctx.rng.randrange(1 << 30)
                    witness = {"model": mname, "env": ENVN[kind], "phase": phase, "num_augment": A, "augment_fn": fn, "num_starts": n,
                               "torch_seed": seed, "instances": insts}
                    cap = {}
                    try:
                        torch.manual_seed(seed)
                        if mname == "POMO":
                            pol = AttentionModelPolicy(env_name=env.name, embed_dim=16, num_encoder_layers=1, num_heads=2, feedforward_hidden=32,
                                                       normalization="instance", use_graph_context=False)
                            m = POMO(env, policy=pol, num_augment=A, num_starts=n, augment_fn=fn)
                        else:
                            pol = SymNCOPolicy(env_name=env.name, embed_dim=16, num_encoder_layers=1, num_heads=2, feedforward_hidden=32)
                            m = SymNCO(env, policy=pol, num_augment=A, num_starts=n, augment_fn=fn)
                        m.eval()
                        m.log_metrics = lambda out, phase, dataloader_idx=None: cap.update(out=out) or {}
                        with ac.quiet(), torch.inference_mode():
                            m.shared_step(batch.clone(), 0, phase)
                        out = cap["out"]
                    except Exception as e:
                        ctx.case(("step", mname, kind, A, phase, seed, "crash"))
                        ctx.violation(f"model_step:{mname}:crash", f"{mname}.shared_step(phase={phase}) on {ENVN[kind]} raises {type(e).__name__}: {str(e)[:120]}", witness)
                        continue
                    ctx.case(("step", mname, kind, A, phase, seed))
                    ctx.count(f"{mname}.shared_step {ENVN[kind]} {fn} phase={phase}")
                    if "max_aug_reward" not in out or "best_aug_actions" not in out:
                        ctx.disagreement("aug: shared_step did not produce max_aug_reward / best_aug_actions", {"keys": sorted(out.keys()), **witness})
                        continue
                    mar = out["max_aug_reward"].flatten().tolist()
                    one_tour = out["best_aug_actions"].dim() == 2 and out["best_aug_actions"].shape[0] == B
                    if not one_tour:
                        ctx.violation(f"model_step:{mname}:best_actions_not_one_tour_per_instance",
                                      f"{mname}.shared_step(phase={phase}): best_aug_actions has shape {tuple(out['best_aug_actions'].shape)} (and "
                                      f"best_multistart_actions {tuple(out['best_multistart_actions'].shape) if 'best_multistart_actions' in out else None}): "
                                      "several tours per instance instead of THE tour of the reported max_aug_reward",
                                      {"best_aug_actions_shape": list(out["best_aug_actions"].shape), "max_aug_reward": mar, **witness})
                    best = out["best_aug_actions"].reshape(B, -1, out["best_aug_actions"].shape[-1])[:, 0].tolist()
                    cands = out["actions"].reshape(B, -1, out["actions"].shape[-1]).tolist()  # [B, A*S, L] in some order, all of instance b
                    lines = [ac.cost_line(insts[b], best[b]) for b in range(B)]
                    for b in range(B):
                        lines += [ac.cost_line(insts[b], row) for row in cands[b]]
                    reps = ctx.driver.ask_many(lines)
                    K = len(cands[0])
                    tol = (1 if fn == "dihedral8" else 1e-5 * rl.SCALE * (len(best[0]) + 1))
                    for b in range(B):
                        f = parse_fields(reps[b])
                        obj = int(f["obj"])
                        if one_tour and f.get("feas") == "0":
                            ctx.violation(f"model_step:{mname}:best_aug_actions_infeasible",
                                          f"{mname}.shared_step on {ENVN[kind]}: best_aug_actions of instance {b} is not feasible on the ORIGINAL instance "
                                          "(Lean Spec: length budget / duplicates)", {"instance_index": b, "best_aug_actions": best[b], **witness})
                        if one_tour and abs(mar[b] * rl.SCALE + obj) > tol:
                            ctx.violation(f"model_step:{mname}:max_aug_reward_ne_cost_of_best_aug_actions",
                                          f"{mname}.shared_step on {ENVN[kind]}: max_aug_reward of instance {b} is {mar[b]:.6f} but best_aug_actions cost "
                                          f"{-obj / rl.SCALE:.6f} on the ORIGINAL instance", {"instance_index": b, "best_aug_actions": best[b],
                                                                                             "max_aug_reward": mar[b], "objective_ticks": obj, **witness})
                        objs = [int(parse_fields(reps[B + b * K + k])["obj"]) for k in range(K)]
                        feas = [parse_fields(reps[B + b * K + k]).get("feas") != "0" for k in range(K)]
                        if not all(feas):
                            ctx.violation(f"model_step:{mname}:candidate_infeasible_on_original",
                                          f"{mname}.shared_step on {ENVN[kind]}: {feas.count(False)} of the {K} candidate rollouts of instance {b} are "
                                          "infeasible on the ORIGINAL instance (the policy decoded a non-isometric copy)", {"instance_index": b, **witness})
                        elif abs(mar[b] * rl.SCALE + min(objs)) > tol:
                            ctx.violation(f"model_step:{mname}:max_aug_reward_ne_max_over_candidates",
                                          f"{mname}.shared_step on {ENVN[kind]}: max_aug_reward of instance {b} is not the best of its {K} candidates on the "
                                          "ORIGINAL instance", {"instance_index": b, "max_aug_reward": mar[b], "best_candidate_ticks": -min(objs), **witness})
                    ctx.sample({"case": "model shared_step", "model": mname, "env": ENVN[kind], "phase": phase, "A": A, "S": n,
                                "max_aug_reward[0] (ticks)": mar[0] * rl.SCALE, "objective of best_aug_actions[0] on the original": int(parse_fields(reps[0])["obj"]),
                                "best_aug_actions[0]": best[0]}, cap=3)


def _make_env(kind, n):
    from rl4co.envs import CVRPEnv, OPEnv, TSPEnv

    return [TSPEnv, CVRPEnv, OPEnv][kind](generator_params=dict(num_loc=n))


def _make_insts(ctx, kind, n, M):
    gen = [ac.tsp_instance, ac.cvrp_instance, ac.op_instance][kind]
    return [gen(ctx.rng, n) for _ in range(M)]


def _check_object_reuse(ctx, kind, n, pol):
    """every evaluator OBJECT is called three times (dataset 1, a different and longer dataset 2, dataset 1 again);
    each call must return what a FRESH object returns for that dataset (same torch seed), with one row per instance and
    the reported reward of row i being the Lean objective of row i's actions on instance i of THAT dataset"""
    from torch.utils.data import DataLoader

    from rl4co.data.dataset import TensorDictDataset
    from rl4co.tasks.eval import (AugmentationEval, GreedyEval, GreedyMultiStartAugmentEval, GreedyMultiStartEval,
                                  SamplingEval)

    env = _make_env(kind, n)
    makers = {
        "GreedyEval": lambda: GreedyEval(env, progress=False),
        "AugmentationEval(dihedral8)": lambda: AugmentationEval(env, num_augment=8, force_dihedral_8=True, progress=False),
        "AugmentationEval(symmetric,3)": lambda: AugmentationEval(env, num_augment=3, progress=False),
        "SamplingEval(3)": lambda: SamplingEval(env, samples=3, progress=False),
        "GreedyMultiStartEval": lambda: GreedyMultiStartEval(env, num_starts=n, progress=False),
        "GreedyMultiStartAugmentEval(2)": lambda: GreedyMultiStartAugmentEval(env, num_starts=n, num_augment=2, progress=False),
    }
    d1, d2 = _make_insts(ctx, kind, n, 3), _make_insts(ctx, kind, n, 5)

    def loader(insts, nb):
        ds = TensorDictDataset(ac.to_td(insts))
        return DataLoader(ds, batch_size=nb, shuffle=False, num_workers=0, collate_fn=ds.collate_fn)

    for name, mk in makers.items():
        try:
            ev = mk()
        except Exception as e:
            ctx.note(f"evaluator {name} unavailable on {ENVN[kind]}: {type(e).__name__}")
            continue
        history = []
        for call_no, (insts, nb) in enumerate([(d1, 2), (d2, 2), (d1, 3)]):
            seed = ctx.rng.randrange(1 << 30)
            witness = {"evaluator": name, "env": ENVN[kind], "call_number": call_no + 1,
                       "datasets_sizes_so_far": history + [len(insts)], "torch_seed": seed}
            try:
                torch.manual_seed(seed)
                with ac.quiet():
                    got = ev(pol, loader(insts, nb))
                torch.manual_seed(seed)
                with ac.quiet():
                    fresh = mk()(pol, loader(insts, nb))
            except Exception as e:
                ctx.violation("eval.crash", f"{name}: call {call_no + 1} on the same evaluator object raises {type(e).__name__}: {str(e)[:100]}", witness)
                break
            history.append(len(insts))
            ctx.case(("reuse", name, kind, call_no, seed))
            ctx.count(f"evaluator object reused: call {call_no + 1}")
            r, a = got["rewards"].flatten().tolist(), got["actions"].reshape(got["actions"].shape[0], -1).tolist()
            fr, fa = fresh["rewards"].flatten().tolist(), fresh["actions"].reshape(fresh["actions"].shape[0], -1).tolist()
            if len(r) != len(insts) or len(a) != len(insts) or r != fr or a != fa \
                    or abs(float(got["avg_reward"]) - float(fresh["avg_reward"])) > 1e-6:
                ctx.violation("eval.result_depends_on_call_history",
                              f"{name}: call {call_no + 1} on a reused evaluator object differs from a fresh evaluator on the same dataset "
                              f"({len(r)} rows returned for {len(insts)} instances)",
                              {"rows_returned": len(r), "instances": len(insts), "rewards_reused": r[:8], "rewards_fresh": fr[:8], **witness})
                continue
            reps = ctx.driver.ask_many([ac.cost_line(i, row) for i, row in zip(insts, a)])
            for k, rp in enumerate(reps):
                if rl.ticks(r[k]) != -int(parse_fields(rp)["obj"]):
                    ctx.violation("eval.reported_ne_cost_of_returned_actions",
                                  f"{name} (reused object, call {call_no + 1}): reported reward of instance {k} is not the objective of the "
                                  "returned actions on that instance", {"instance_index": k, **witness})
        # the model's `callSeq` on the same history (results = per-instance rewards, one dummy action each)
        secs = " | ".join(f"{nb} " + " ".join(f"{k} 0" for k in range(len(insts))) for insts, nb in [(d1, 2), (d2, 2), (d1, 3)])
        f = parse_fields(ctx.driver.ask(f"aug.callseq 1 | {secs}"))
        if f.get("n") != str(len(d1)) or f.get("listsLocal") != "1":
            ctx.disagreement("aug: evaluator-object model: last call of a history returns more than its own dataset", {"reply": f})


def run_eval(ctx):
    from rl4co.models.zoo.am import AttentionModelPolicy

    torch.set_float32_matmul_precision("highest")
    rounds = ctx.budget(2, 12)
    for rnd in range(rounds):
        for kind in (0, 1, 2):
            if kind == 2 and rnd >= max(1, rounds // 2):
                continue
            n = ctx.rng.choice([4, 5, 6])
            M = ctx.rng.choice([3, 4, 5, 6, 7])
            env = _make_env(kind, n)
            insts = _make_insts(ctx, kind, n, M)
            if ctx.rng.random() < 0.5 and M >= 2:
                insts[-1] = insts[0]  # duplicated instance in the dataset
            torch.manual_seed(ctx.rng.randrange(1 << 30))
            am = AttentionModelPolicy(env_name=env.name, embed_dim=16, num_encoder_layers=1, num_heads=2,
                                      feedforward_hidden=32).eval()
            policies = [("am", am)] + ([("stub", _make_stub(n))] if kind == 0 else [])
            if rnd == 0:
                _check_object_reuse(ctx, kind, n, am)
            for pname, pol in policies:
                solo = []
                for i in insts:
                    with ac.quiet(), torch.inference_mode():
                        a = pol(env.reset(ac.to_td([i])), env, decode_type="greedy")["actions"][0].tolist()
                    solo.append((a, int(parse_fields(ctx.driver.ask(ac.cost_line(i, a)))["obj"])))
                divs = [d for d in range(1, M + 1) if M % d == 0]
                nondivs = [d for d in range(2, M + 2) if M % d != 0]
                for method in METHODS:
                    if pname == "stub" and method == "sampling":
                        continue
                    nbs = {ctx.rng.choice(divs), ctx.rng.choice(nondivs), 1 if rnd == 0 else ctx.rng.choice(divs)}
                    if method == "sampling":
                        nbs.add(max(2, M - 1))  # B >= 2 with samples >= 2: forced random starts laid out start-major
                    for nb in nbs:
                        _eval_once(ctx, env, kind, insts, pol, pname, method, nb, A=ctx.rng.choice([1, 2, 3, 4]),
                                   samples=ctx.rng.choice([2, 3, 5]), solo_greedy=solo)
    _eval_float_envs(ctx)
    for _ in range(ctx.budget(1, 4)):
        _check_model_steps(ctx)


EVAL_NOTE = ("the models' own val/test paths are covered too: the real POMO.shared_step and SymNCO.shared_step (no Trainer, log_metrics "
             "replaced by a recorder) on TSP / CVRP / OP (depot in its own key, per-instance budgets) with num_augment 8 (dihedral) and 2 "
             "(symmetric), num_starts = num_loc, judged by the Lean objective and feasibility on the ORIGINAL instances; "
             "every evaluator object (and StateAugmentation object) is called three times on different datasets and compared with "
             "fresh objects; OP (per-instance length budgets, some customers out of reach) is part of the exact sweep, and OP / "
             "SVRP datasets with differing per-instance parameters go through a float-stream sweep judged by the real env one "
             "instance at a time; MTVRP cannot go through evaluate_policy (the evaluators call the policy without the env and the "
             "default MTVRPEnv() asserts); matmul precision pinned to 'highest'; "
             "the policy is an oracle: the evaluators' models receive the candidate action rows the real policy returned (recorded "
             "by a wrapper; for sampling by an identical extra pass under the same RNG state) and reproduce rewards, best-of-k "
             "selection, padding and concatenation; rewards are exact (integral-distance instances, ticks); the property itself is "
             "judged by the Lean objective on the ORIGINAL instances and by brute max over the recorded candidates; "
             "Deterministic π is re-checked on a recorded batch per run")

register(Unit(
    "C15", "aug_eval", run_eval, drivers=["drv_aug"],
    lean_modules=(["Rl4co.Props.C15.AugEval"] + (["Rl4co.Props.C15.AugHistory"] if _exists(C15_HIST) else [])
                  + (["Rl4co.Props.C15.AugKeys"] if _exists(C15_KEYS) else []))
    if _exists(C15_EVAL) else ["Rl4co.Train.Eval"],
    theorems=[
        Theorem("Rl4co.Eval.eval_reports_max", "proved", "AugmentationEval / GreedyMultiStartEval: reported reward of b = reward of the returned actions on the original instance = max over b's K candidates; returned actions are one of b's candidates"),
        Theorem("Rl4co.Eval.eval_reports_max_msaug", "proved", "same for GreedyMultiStartAugmentEval (batchify (A,S) vs the policy's start-major layout: both put instance r % B at row r)"),
        Theorem("Rl4co.Eval.eval_reports_max_sampling", "proved", "same for SamplingEval (policy-side select_best, reward recomputed on the selected rows)"),
        Theorem("Rl4co.Eval.eval_greedy_reports", "proved", "GreedyEval reports the reward of the returned actions"),
        Theorem("Rl4co.Eval.eval_ge_greedy", "proved", "if some candidate of b is the greedy rollout on the unmodified instance, reported ≥ greedy reward"),
        Theorem("Rl4co.Eval.eval_ge_greedy_identity_copy", "proved", "row-wise policy + identity first copy ⇒ AugmentationEval ≥ greedy"),
        Theorem("Rl4co.Eval.concat_batches", "proved", "padding with 0 and concatenation keep every row, in loader order, as row ++ zeros"),
        Theorem("Rl4co.Eval.flatten_chunks", "proved", "the loader's chunks concatenate back to the dataset (any batch size > 0, last batch short)"),
        Theorem("Rl4co.Eval.evalCall_eq_map", "proved", "per-instance _inner ⇒ rewards of evaluate_policy over ANY batch size = map over the dataset"),
        Theorem("Rl4co.Eval.evalCall_actions", "proved", "… and the returned actions are each instance's own action list followed by zeros only, in dataset order"),
        Theorem("Rl4co.Eval.pad_cost_invariant", "proved", "depot padding does not change the routes objective (D 0 0 = 0)"),
    ] + ([
        Theorem("Rl4co.Eval.eval_call_independent_of_history", "proved", "a call on a reused evaluator object returns exactly what a fresh evaluator returns and leaves the object unchanged (rewards_list / actions_list are locals of __call__: extracted)"),
        Theorem("Rl4co.Eval.callSeq_eq_map", "proved", "for every history of calls on one evaluator object, result k is the fresh result for dataset k"),
        Theorem("Rl4co.Eval.callObj_attr_counterexample", "proved", "with the lists kept as object attributes the second call returns the first call's rows in front"),
        Theorem("Rl4co.closedLen_rotate", "proved", "Spec sanity: the closed tour length does not depend on the start of the tour"),
        Theorem("Rl4co.closedLen_reverse", "proved", "Spec sanity: for a symmetric matrix the closed tour length is the same in both directions"),
    ] if _exists(C15_HIST) else []) + ([
        Theorem("Rl4co.Eval.augTd_isometric", "proved", "an augmentation over `feats` preserves ALL pairwise distances (also across keys, depot ↔ customers) when every coordinate key is in feats"),
        Theorem("Rl4co.Eval.augTd_depot_counterexample", "proved", "raw batch of a depot env with feats=['locs']: the depot stays, customers move, the depot–customer distance changes"),
        Theorem("Rl4co.Eval.reset_coord_keys_in_feats", "proved", "obligation (extracted per env): every coordinate key of the reset td of tsp/cvrp/sdvrp/op/pctsp/pdp/mtsp/cvrptw is in the default feats"),
        Theorem("Rl4co.Eval.models_augment_reset_td", "proved", "obligation (extracted): POMO.shared_step and SymNCO.shared_step reset first and augment the reset td"),
        Theorem("Rl4co.Eval.shared_step_aug_isometric", "proved", "the augmentation inside POMO / SymNCO val/test steps is isometric on every coordinate key of every env of the table"),
    ] if _exists(C15_KEYS) else []) if _exists(C15_EVAL) else [],
    assumptions=[EVAL_NOTE] + ([] if _exists(C15_EVAL) else ["no theorem yet: correspondence + spec oracle only"]),
))


# =====================================================================================================
# C14 : greedy inference is per-instance (every bundled constructive policy × its environments)
# =====================================================================================================

import contextlib  # noqa: E402

LOGIT_TOL = 1e-4


@contextlib.contextmanager
def _record_logits(store):
    """record (raw logits, mask) of every decoding step by wrapping `process_logits` where the policies look it up"""
    import importlib

    mods = []
    for name in ("rl4co.utils.decoding", "rl4co.models.zoo.matnet.decoder", "rl4co.models.zoo.l2d.policy"):
        try:
            mods.append(importlib.import_module(name))
        except Exception:
            pass
    orig = [(m, m.process_logits) for m in mods if hasattr(m, "process_logits")]

    def wrap(fn):
        def rec(logits, mask=None, *a, **kw):
            store.append((logits.detach().clone(), None if mask is None else mask.detach().clone()))
            return fn(logits, mask, *a, **kw)
        return rec

    try:
        for m, fn in orig:
            m.process_logits = wrap(fn)
        yield
    finally:
        for m, fn in orig:
            m.process_logits = fn


def _decode(pol, env, td, call, seed, **kw):
    """one greedy decoding under a fixed torch seed (so that policies that draw random numbers in `forward`
    — MatNet's random one-hot columns — are compared like for like); returns actions, reward, log-lik, logits trace"""
    store = []
    torch.manual_seed(seed)
    with ac.quiet(), torch.inference_mode(), _record_logits(store):
        out = call(pol, env, td.clone(), **kw)
    return {"actions": out["actions"].clone(), "reward": out["reward"].clone(),
            "ll": out["log_likelihood"].clone() if "log_likelihood" in out else None, "trace": store}


def _default_call(pol, env, td, **kw):
    return pol(td, env, phase="test", decode_type=kw.pop("decode_type", "greedy"), **kw)


def _key(tag, kind):
    """violation key `<policy>:<kind>:<env>` (known findings match by prefix `<policy>:<kind>`)"""
    pol, env = tag.split(":", 1)
    return f"{pol}:{kind}:{env}"


def _strip_pad(a):
    a = list(a)
    while len(a) > 1 and a[-1] == a[-2]:
        a.pop()
    return a


def _compare_row(ctx, tag, solo, batch, p, Bsz, what, witness, S=1, s=0, kp=""):
    """solo row `s` (of S multistart rows) vs batch row `s*Bsz+p`.  Returns 'same' | 'tie' | 'diff'.
    `kp` is non-empty for policies that draw random numbers in inference mode: their logit-level differences get the
    kinds `rng-logits:batch` (position >= 1), `rng-logits-pos0:batch` (position 0: same draws as solo for a single
    `torch.rand(b, c)`), every other difference `rng-other:<kind>`.  A log-likelihood-only difference ("ll") does not
    stop the remaining comparisons."""
    r_solo, r_bat = s, s * Bsz + p
    a1 = solo["actions"][r_solo].tolist()
    a2 = batch["actions"][r_bat].tolist()
    T1 = len(a1)
    # per-step logits over the solo horizon
    gap_small, worst, row_scale = False, 0.0, 1.0
    n_steps = min(len(solo["trace"]), len(batch["trace"]))
    comparable = len(solo["trace"]) > 0 and all(
        solo["trace"][t][0].shape[0] == S and batch["trace"][t][0].shape[0] == S * Bsz for t in range(n_steps))
    if comparable:
        # float32: 1e-4 relative to the largest logit magnitude this row sees over the whole decoding (un-normalised
        # features such as CVRPTW's give logits of ~1e3-1e4; a step whose logits cancel to small values keeps that noise)
        row_scale = 1.0
        for t in range(n_steps):
            v = solo["trace"][t][0][r_solo]
            v = v[torch.isfinite(v)]
            if v.numel():
                row_scale = max(row_scale, float(v.abs().max()))
        for t in range(n_steps):
            l1, m1 = solo["trace"][t]
            l2, m2 = batch["trace"][t]
            v1, v2 = l1[r_solo].double(), l2[r_bat].double()
            if m1 is not None and m2 is not None:
                if not bool((m1[r_solo] == m2[r_bat]).all()):
                    break  # rows already diverged; the action comparison below reports it
                keep = m1[r_solo].bool()
                v1, v2 = v1[keep], v2[keep]
            fin = torch.isfinite(v1) & torch.isfinite(v2)
            if bool(fin.any()):
                worst = max(worst, float((v1[fin] - v2[fin]).abs().max()) / row_scale)
            if v1.numel() >= 2:
                top = torch.topk(v1[torch.isfinite(v1)], min(2, int(torch.isfinite(v1).sum()))).values
                if top.numel() == 2 and float(top[0] - top[1]) < LOGIT_TOL * row_scale:
                    gap_small = True
        ctx.count("rows with per-step logits compared")
    else:
        ctx.count("rows without comparable logit trace (policy does not use process_logits per row)")
    Lc = min(T1, len(a2))  # common horizon; whatever follows are idle steps of a finished row (the reward check covers them)
    same_actions = a2[:Lc] == a1[:Lc]
    # the batch may run longer (batch-mates still decoding): the tail must be idle steps of a finished row; the reward says so
    t1, t2 = solo["reward"][r_solo].double().flatten(), batch["reward"][r_bat].double().flatten()
    r1, r2 = t1.tolist(), t2.tolist()
    same_reward = t1.shape == t2.shape and bool(((t1 - t2).abs() <= 1e-5 * t1.abs().clamp(min=1.0)).all())
    ctx._last_dev = worst
    # attention scores of magnitude M carry float32 noise ~1e-7*M which the softmax turns into a RELATIVE error of the
    # same size in the glimpse and hence in the logits: allowed relative gap 1e-4 + 4e-7*M (M <= 10: 1e-4; CVRPTW's
    # un-normalised features give M ~ 1e3-1e4)
    if worst > LOGIT_TOL + 4e-7 * row_scale:
        ctx.violation(_key(tag, ("rng-logits-pos0:batch" if p == 0 else "rng-logits:batch") if kp else "logits_depend_on_batch"),
                      f"{what}: per-step logits of the same instance differ by {worst:.3g} (> {LOGIT_TOL}) between solo and batch decoding",
                      {"max_logit_dev": worst, **witness})
        return "diff"
    if same_actions and same_reward:
        if solo["ll"] is not None and batch["ll"] is not None:
            u1, u2 = solo["ll"][r_solo].double().flatten(), batch["ll"][r_bat].double().flatten()
            l1, l2 = u1.tolist(), u2.tolist()
            if not (u1.shape == u2.shape and bool((((u1 - u2).abs() <= 1e-4 * u1.abs().clamp(min=1.0)) | (u1 == u2)).all())):
                ctx.violation(_key(tag, kp + "loglik-only_depends_on_batch"),
                              f"{what}: same actions and reward but log-likelihood {l1} (solo) vs {l2} (batch)",
                              {"ll_solo": l1, "ll_batch": l2, **witness})
                return "ll"
        return "same"
    if gap_small:
        ctx.count("tie-skipped (top-2 logit gap < 1e-4 at some step)")
        return "tie"
    ctx.violation(_key(tag, kp + ('actions' if not same_actions else 'reward') + "_depend_on_batch"),
                  f"{what}: greedy {'actions' if not same_actions else 'reward'} of the same instance differ between solo and batch decoding",
                  {"solo_actions": a1, "batch_actions": a2, "solo_reward": r1, "batch_reward": r2, **witness})
    return "diff"


def _replay_check(ctx, tag, env, pool, idx, bat, kp, label, witness):
    """the idle-step hypothesis of `batch_reward_eq_solo`, on the real env: the reward a batch row got must be the reward of the
    SAME actions replayed on that instance alone, stopping when it is done (rows that finished early were stepped on with idle /
    wait actions while their batch-mates ran).  Independent of the policy, so it also applies to RNG-consuming policies."""
    acts_all = bat["actions"].tolist()
    for j, k in enumerate(idx):
        try:
            td = pool[k:k + 1].clone()
            acts = []
            for a in acts_all[j]:
                if bool(td["done"].all()):
                    break
                td.set("action", torch.tensor([a]))
                td = env.step(td)["next"]
                acts.append(a)
            if not bool(td["done"].all()):
                ctx.count("solo replay: row not done after its batch actions (skipped)")
                continue
            with ac.quiet():
                r = env.get_reward(td, torch.tensor([acts])).double().flatten()
        except Exception as e:
            ctx.count(f"solo replay unavailable ({type(e).__name__})")
            return
        rb = bat["reward"][j].double().flatten()
        if rb.numel() != r.numel():
            rb = rb[-r.numel():] if rb.numel() > r.numel() else rb
        ctx.case((tag, "replay", label, j, tuple(acts_all[j])))
        if len(acts) < len(acts_all[j]):
            ctx.count("solo replay: row finished earlier than its batch (idle tail exercised)")
        if rb.numel() == r.numel() and not bool(((rb - r).abs() <= 1e-5 * r.abs().clamp(min=1.0)).all()) and kind_ok(tag):
            ctx.violation(_key(tag, ("rng-other:" if kp else "") + "reward_differs_from_solo_replay"),
                          f"{tag}, {label}: the reward of batch row {j} is {rb.tolist()} but the same actions replayed on that instance alone "
                          f"(stopping when it is done after {len(acts)} of {len(acts_all[j])} steps) give {r.tolist()}",
                          {"row": j, "actions": acts_all[j], "steps_until_done": len(acts), "reward_in_batch": rb.tolist(),
                           "reward_solo_replay": r.tolist(), "composition": label, **witness})
    ctx.count("batch rows replayed solo through the env")


def kind_ok(tag):
    return not tag.startswith("mdam:")  # MDAM returns one reward per decoder path for the actions of the last path only


def _loop_model(ctx, tag, pol, env, call, pool, seed, witness):
    """the Lean loop model on the recorded traces: rows decoded alone give T_b and their actions; the model's
    batched loop must make max_b T_b steps and reproduce the batch rows (solo prefix + idle tail)"""
    idx = [0, 1, 2]
    tdb = pool[idx]
    bat = _decode(pol, env, tdb, call, seed)
    rows = []
    for k in idx:
        so = _decode(pol, env, pool[k:k + 1], call, seed)
        a = so["actions"][0].tolist()
        full = bat["actions"][len(rows)].tolist()
        if len(full) < len(a) or so["actions"].shape[0] != 1:
            return
        rows.append((len(a), a + full[len(a):]))
    line = "aug.loop 100000 | " + " | ".join(f"{T} " + " ".join(map(str, acts)) for T, acts in rows)
    f = parse_fields(ctx.driver.ask(line))
    steps = bat["actions"].shape[1]
    ctx.case(("loop", tag, seed))
    if any(v["witness"].get("policy") == witness["policy"] and v["witness"].get("env") == witness["env"] for v in ctx.violations):
        return  # the rows are not comparable for this policy (already reported)
    if int(f.get("steps", -1)) != steps or ac.parse_rows(f.get("actions", "")) != bat["actions"].tolist():
        if bat["actions"].tolist() != [r[1] for r in rows]:
            return  # batch rows do not extend the solo rows: reported by the row comparison, not a model question
        ctx.disagreement("aug: decoding-loop model differs from the real loop (number of steps / stacked actions)",
                         {"model": f, "real_steps": steps, "real_actions": bat["actions"].tolist(), **witness})
    ctx.count("decoding loop model vs real loop")


def _batch_invariance(ctx, pname, build, ename, multistart, call=None, env_factory=None):
    import aug_zoo as zoo

    call = call or _default_call
    tag = f"{pname}:{ename}"
    try:
        env = (env_factory or zoo.make_env)(ename)
        torch.manual_seed(ctx.rng.randrange(1 << 30))
        pol = build(ename).eval()
        torch.manual_seed(ctx.rng.randrange(1 << 30))
        pool, groups, differing = zoo.make_pool(ename, env, ctx.rng, 9, env_factory)
        seed = ctx.rng.randrange(1 << 30)
        for k in differing:
            ctx.count(f"per-instance parameter differs inside the batches: {ename}.{k}")
    except Exception as e:
        ctx.count(f"unavailable: {tag}")
        ctx.note(f"unavailable {tag}: {type(e).__name__}: {str(e)[:120]}")
        return
    wit0 = {"policy": pname, "env": ename, "policy_seed_and_instances": "regenerated from VERIF_SEED", "torch_seed": seed}
    solo, err_solo, err_b3 = None, None, None
    try:
        solo = _decode(pol, env, pool[0:1], call, seed)
    except Exception as e:
        err_solo = e
    try:
        _decode(pol, env, pool[0:3], call, seed)
    except Exception as e:
        err_b3 = e
    if err_solo is not None and err_b3 is not None:  # cannot be decoded here at all (offline / repo defect outside C14)
        ctx.count(f"unavailable: {tag}")
        ctx.note(f"unavailable {tag}: {type(err_b3).__name__}: {str(err_b3)[:120]}")
        return
    ctx.count(f"policy×env {tag}")
    if err_solo is not None:
        ctx.case((tag, "solo-crash", seed))
        ctx.violation(_key(tag, "crash_at_batch_size_one"),
                      f"{pname} on {ename}: a batch of three decodes, the same instance alone (batch size 1) raises "
                      f"{type(err_solo).__name__}: {str(err_solo)[:160]}", wit0)
        return
    if err_b3 is not None:
        ctx.case((tag, "batch-crash", seed))
        ctx.violation(_key(tag, "crash_in_batch"),
                      f"{pname} on {ename}: every instance decodes alone, the batch of three raises {type(err_b3).__name__}: {str(err_b3)[:160]}",
                      wit0)
        return
    # determinism of the oracle
    again = _decode(pol, env, pool[0:1], call, seed)
    if not bool((again["actions"] == solo["actions"]).all()):
        ctx.violation(_key(tag, "not_deterministic"), "two solo greedy decodings of the same instance under the same seed differ", wit0)
        return
    # does greedy decoding consume the torch RNG?  (it must not: the answer has to be a function of the instance)
    torch.manual_seed(seed)
    st0 = torch.get_rng_state().clone()
    with ac.quiet(), torch.inference_mode():
        call(pol, env, pool[0:1].clone())
    consumes_rng = not bool((torch.get_rng_state() == st0).all())
    kp = ""
    if consumes_rng:
        ctx.count("policies that consume the torch RNG during greedy decoding")
        kp = "rng-other:"  # non-logit differences of an RNG-consuming policy (never covered by a known finding)
        for alt in range(1, 9):
            other = _decode(pol, env, pool[0:1], call, seed + alt)
            rng_dev = 0.0
            for (l1, _m1), (l2, _m2) in zip(solo["trace"], other["trace"]):
                if l1.shape == l2.shape:
                    fin = torch.isfinite(l1) & torch.isfinite(l2)
                    if bool(fin.any()):
                        rng_dev = max(rng_dev, float((l1[fin] - l2[fin]).abs().max()) / max(1.0, float(l1[fin].abs().max())))
            if (other["actions"].shape != solo["actions"].shape or not bool((other["actions"] == solo["actions"]).all())
                    or rng_dev > LOGIT_TOL):
                ctx.violation(_key(tag, "rng-logits:state"),
                              "greedy decoding of the same instance ALONE gives different logits / actions under a different torch RNG state: "
                              "the policy draws random numbers in inference mode, so its answer is not a function of the instance",
                              {"max_logit_dev_between_seeds": rng_dev, "actions_seed_a": solo["actions"][0].tolist(),
                               "actions_seed_b": other["actions"][0].tolist(), **wit0})
                break
    comps = []
    sizes = [1, 2, 3, 8]
    for Bsz in sizes:
        positions = range(Bsz) if (Bsz <= 3 or ctx.tier == "thorough") else [0, ctx.rng.randrange(1, Bsz - 1), Bsz - 1]
        for p in positions:
            others = [k for k in range(1, 9)]
            ctx.rng.shuffle(others)
            if p > 0:  # the row at position 0 comes from another parameter group than the instance under test
                others.sort(key=lambda k: groups[k] == groups[0])
            idx = others[:Bsz - 1]
            idx.insert(p, 0)
            if p > 0 and groups[idx[0]] != groups[0]:
                ctx.count("compositions whose row 0 has other per-instance parameters than the instance under test")
            comps.append((f"unrelated B={Bsz} pos={p}", idx, p))
    comps.append(("duplicates B=2", [0, 0], 1))
    comps.append(("duplicates B=3", [0, 0, 0], 2))
    comps.append(("mixed duplicates B=3", [1, 0, 1], 1))
    # env-side idle-step law on two decoded batches (for every policy, also those that consume the RNG)
    for ridx in ([1, 2, 0], [3, 0, 4, 5, 6, 7, 8, 1]):
        try:
            rb = _decode(pol, env, pool[ridx], call, seed)
            _replay_check(ctx, tag, env, pool, ridx, rb, kp, f"rows {ridx}", wit0)
        except Exception as e:
            ctx.count(f"solo replay unavailable ({type(e).__name__})")
    results = {"same": 0, "tie": 0, "diff": 0, "ll": 0}
    for label, idx, p in comps:
        tdb = pool[idx]
        try:
            bat = _decode(pol, env, tdb, call, seed)
        except Exception as e:
            ctx.violation(_key(tag, "crash_in_batch"), f"decoding raises {type(e).__name__} for batch composition {label}", {"error": str(e)[:200], **wit0})
            continue
        Bsz = len(idx)
        ctx.case((tag, label, seed))
        ctx.count(f"composition {label.split(' pos=')[0]}")
        res = _compare_row(ctx, tag, solo, bat, p, Bsz, f"{pname} on {ename}, {label}", {"composition": label, "rows": idx, **wit0}, kp=kp)
        results[res] += 1
        if Bsz == 3 and p == 2 and res == "same" and label.startswith("unrelated") and (differing or not ctx.samples):
            ctx.sample({"case": "solo vs batch greedy decoding", "policy": pname, "env": ename, "composition": label, "pool_rows": idx,
                        "per-instance parameters differing in the pool": differing, "solo actions": solo["actions"][0].tolist(),
                        "batch row actions": bat["actions"][p].tolist(), "solo reward": solo["reward"][0].flatten().tolist(),
                        "batch reward": bat["reward"][p].flatten().tolist(),
                        "max relative logit gap over the steps": getattr(ctx, "_last_dev", None)}, cap=3)
        if res == "diff" and not ctx.searching:
            break
    # the SECOND instance under test (row 1: from the last parameter variant — the largest fleet / budget / capacity …)
    if results["diff"] == 0 and len(set(groups)) > 1:
        try:
            solo1 = _decode(pol, env, pool[1:2], call, seed)
            for label, idx, p in (("second instance B=2 pos=0", [1, 0], 0), ("second instance B=2 pos=1", [0, 1], 1),
                                  ("second instance B=3 pos=1", [0, 1, 2], 1), ("second instance B=8 pos=7", [0, 2, 3, 4, 5, 6, 7, 1], 7)):
                bat = _decode(pol, env, pool[idx], call, seed)
                ctx.case((tag, label, seed))
                ctx.count("composition second instance")
                res = _compare_row(ctx, tag, solo1, bat, p, len(idx), f"{pname} on {ename}, {label}",
                                   {"composition": label, "rows": idx, **wit0}, kp=kp)
                results[res] += 1
        except Exception as e:
            ctx.note(f"second-instance sweep unavailable {tag}: {type(e).__name__}")
    if multistart and results["diff"] == 0:
        try:
            S = int(env.get_num_starts(pool[0:1]))
            solo_ms = _decode(pol, env, pool[0:1], call, seed, decode_type="multistart_greedy", num_starts=S)
            for Bsz, p in ((2, 1), (3, 0), (3, 2)):
                idx = list(range(1, Bsz))
                idx.insert(p, 0)
                bat = _decode(pol, env, pool[idx], call, seed, decode_type="multistart_greedy", num_starts=S)
                # rows are matched by their forced first action: WHICH start nodes an instance gets is start selection
                # (C12; OP resamples them at random for the whole batch), C14 is about the decoding that follows
                solo_first = {int(solo_ms["actions"][s2][0]): s2 for s2 in range(S)}
                for s in range(S):
                    first = int(bat["actions"][s * Bsz + p][0])
                    if first not in solo_first:
                        ctx.count("multistart: start node of the batch row not among the solo starts (start selection, C12): skipped")
                        continue
                    s_solo = solo_first[first]
                    ctx.case((tag, "ms", Bsz, p, s, seed))
                    sub_solo = {"actions": solo_ms["actions"][s_solo:s_solo + 1], "reward": solo_ms["reward"][s_solo:s_solo + 1],
                                "ll": None if solo_ms["ll"] is None else solo_ms["ll"][s_solo:s_solo + 1],
                                "trace": [(l[s_solo:s_solo + 1], None if m is None else m[s_solo:s_solo + 1]) for l, m in solo_ms["trace"]
                                          if l.shape[0] == S]}
                    sub_bat = {"actions": bat["actions"][s * Bsz + p:s * Bsz + p + 1], "reward": bat["reward"][s * Bsz + p:s * Bsz + p + 1],
                               "ll": None if bat["ll"] is None else bat["ll"][s * Bsz + p:s * Bsz + p + 1],
                               "trace": [(l[s * Bsz + p:s * Bsz + p + 1], None if m is None else m[s * Bsz + p:s * Bsz + p + 1]) for l, m in bat["trace"]
                                         if l.shape[0] == S * Bsz]}
                    _compare_row(ctx, tag + "/multistart", sub_solo, sub_bat, 0, 1,
                                 f"{pname} on {ename}, multistart_greedy start node {first}, B={Bsz} pos={p}",
                                 {"composition": f"multistart S={S} B={Bsz} pos={p}", "start_node": first, **wit0})
                ctx.count(f"multistart factorisation (B={Bsz}, S) compared")
        except Exception as e:
            ctx.note(f"multistart unavailable {tag}: {type(e).__name__}: {str(e)[:100]}")
    if results["diff"] == 0:
        _loop_model(ctx, tag, pol, env, call, pool, seed, wit0)


def _ffsp_multistage(env_name):
    from rl4co.models.zoo.matnet.policy import MultiStageFFSPPolicy

    return MultiStageFFSPPolicy(stage_cnt=2, embed_dim=16, num_heads=2, num_encoder_layers=1, feedforward_hidden=32,
                                test_decode_type="greedy")


def _ffsp_env(name):
    from rl4co.envs import FFSPEnv

    return FFSPEnv(generator_params=dict(num_stage=2, num_machine=2, num_job=4, flatten_stages=False))


def _ffsp_call(pol, env, td, **kw):
    return pol(td, env, phase="test")


def _tensors(x):
    if isinstance(x, torch.Tensor):
        return [x] if x.dim() >= 1 else []
    if isinstance(x, (tuple, list)):
        return [t for y in x for t in _tensors(y)]
    return []


def _check_embeddings_rowlocal(ctx):
    """module-level row-locality of EVERY init / context / dynamic embedding class, independent of any policy: on a batch whose rows
    carry different per-instance parameters, `emb(td)[i]` must equal `emb(td[i:i+1])[0]` — at reset and after two decoding steps.
    Also lists, per env, the td keys the embedding classes read and whether they differ inside the pool."""
    import inspect
    import re

    import aug_zoo as zoo
    from rl4co.models.nn.env_embeddings import env_context_embedding, env_dynamic_embedding, env_init_embedding

    for ename in zoo.ENV_PARAMS:
        try:
            env = zoo.make_env(ename)
            torch.manual_seed(ctx.rng.randrange(1 << 30))
            pool, groups, differing = zoo.make_pool(ename, env, ctx.rng, 6)
            states = [pool]
            td = pool.clone()
            for _ in range(2):
                if bool(td["done"].all()):
                    break
                td.set("action", td["action_mask"].float().argmax(-1))
                td = env.step(td)["next"]
                states.append(td.clone())
        except Exception as e:
            ctx.count(f"embedding check: env unavailable {ename}")
            continue
        B = pool.batch_size[0]
        N = pool["action_mask"].shape[-1] if "locs" not in pool.keys() else pool["locs"].shape[-2]
        E = torch.randn(B, N, 16, generator=torch.Generator().manual_seed(7))
        for kind, factory in (("init", env_init_embedding), ("context", env_context_embedding), ("dynamic", env_dynamic_embedding)):
            try:
                torch.manual_seed(11)
                emb = factory(ename, {"embed_dim": 16}).eval()
            except Exception:
                continue
            cls = type(emb).__name__
            try:
                src = inspect.getsource(type(emb))
                for k in sorted(set(re.findall(r'td\["(\w+)"\]', src))):
                    if k in pool.keys() and pool[k].reshape(B, -1).shape[1] <= 3:
                        flat = pool[k].reshape(B, -1).float()
                        ctx.count(f"embedding {cls} reads per-instance scalar {ename}.{k}: "
                                  + ("differs inside the batch" if not bool((flat == flat[0]).all()) else "CONSTANT in the batch"))
            except Exception:
                pass
            for si, st in enumerate(states if kind != "init" else states[:1]):
                def run(tdx, rows):
                    with torch.inference_mode():
                        if kind == "context":
                            return _tensors(emb(E[rows], tdx))
                        return _tensors(emb(tdx))
                try:
                    full = run(st, list(range(B)))
                    ok = True
                    for i in range(B):
                        one = run(st[i:i + 1], [i])
                        for tf, to in zip(full, one):
                            if tf.shape[0] != B:
                                continue
                            if to.numel() != tf[i].numel():
                                continue
                            if to.dim() != tf.dim():  # a bare `.squeeze()` also dropped the batch dimension at B = 1 (values are compared)
                                ctx.count(f"embedding {cls}: output drops the batch dimension at B=1 (squeeze)")
                            d = float((tf[i].double().reshape(-1) - to.double().reshape(-1)).abs().max())
                            sc = max(1.0, float(to.abs().max()))
                            if d > 1e-5 * sc:
                                ok = False
                                ctx.violation(f"embedding:{cls}:output_row_depends_on_batch",
                                              f"{cls} ({kind} embedding of {ename}), state after {si} steps: row {i} of emb(td) differs from emb(td[{i}:{i + 1}]) by {d:.3g} "
                                              f"on a batch whose rows have different {differing}",
                                              {"env": ename, "embedding": cls, "row": i, "steps": si, "max_abs_dev": d,
                                               "per_instance_parameters_differing": differing})
                                break
                        if not ok:
                            break
                    ctx.case(("emb", ename, cls, si))
                    ctx.count("embedding classes checked for row-locality (class × state)")
                except Exception as e:
                    ctx.count(f"embedding check unavailable: {cls} on {ename} ({type(e).__name__})")


def _check_cache_replication(ctx):
    """`PrecomputedCache.batchify(S)` on tagged tensors vs the model (`cacheReplicate`), and the claim of
    `cache_state_aligned`: row s*B+b of every expanded field, and of `batchify(td, S)`, is instance b"""
    from rl4co.models.zoo.am.decoder import PrecomputedCache
    from rl4co.utils.ops import batchify

    for B in (1, 2, 3, 5):
        for S in (1, 2, 3, 4):
            tags = [100 + 7 * b for b in range(B)]
            t = torch.tensor(tags, dtype=torch.float32).reshape(B, 1, 1).expand(B, 3, 2).contiguous()
            cache = PrecomputedCache(node_embeddings=t.clone(), graph_context=0, glimpse_key=t.clone() + 1000,
                                     glimpse_val=t.clone() + 2000, logit_key=t.clone() + 3000)
            big = cache.batchify(num_starts=S)
            state = batchify(TensorDict({"tag": torch.tensor(tags)}, batch_size=[B]), S)["tag"].tolist()
            model = ac.parse_ints(parse_fields(ctx.driver.ask(f"aug.cache {S} | " + " ".join(map(str, tags)))).get("rows", ""))
            ctx.case(("cache", B, S))
            for name, off in (("node_embeddings", 0), ("glimpse_key", 1000), ("glimpse_val", 2000), ("logit_key", 3000)):
                rows = [int(v) - off for v in getattr(big, name)[:, 0, 0].tolist()]
                if rows != model:
                    ctx.disagreement("aug: PrecomputedCache.batchify differs from the model", {"field": name, "B": B, "S": S, "real": rows, "model": model})
                if rows != state or any(rows[s * B + b] != tags[b] for s in range(S) for b in range(B)):
                    ctx.violation("am:cache_row_not_own_instance:multistart",
                                  "PrecomputedCache.batchify: row s*B+b of the expanded cache is not instance b's cache (the state rows are "
                                  "start-major), so multi-start decoding with a dynamic embedding scores states against another instance",
                                  {"field": name, "B": B, "S": S, "cache_rows_instances": rows, "state_rows_instances": state})
            if big.graph_context != 0:
                ctx.disagreement("aug: non-tensor cache field was changed by batchify", {"B": B, "S": S})
    ctx.count("PrecomputedCache.batchify (B, S) factorisations compared", 16)


def _repad(raw, k, width):
    """instance `k` of a raw scheduling batch with its OPERATION axis cut / zero-padded to `width` columns, the way the generator
    pads (zero processing times, `pad_mask = True`)"""
    one = raw[k:k + 1].clone()
    pt, pm = one["proc_times"], one["pad_mask"]
    cur = pt.shape[-1]
    if width <= cur:
        if not bool(pm[..., width:].all()):
            raise ValueError("would cut real operations")
        pt, pm = pt[..., :width], pm[..., :width]
    else:
        extra = width - cur
        pt = torch.cat((pt, torch.zeros(*pt.shape[:-1], extra, dtype=pt.dtype)), -1)
        pm = torch.cat((pm, torch.ones(*pm.shape[:-1], extra, dtype=torch.bool)), -1)
    return TensorDict({"start_op_per_job": one["start_op_per_job"], "end_op_per_job": one["end_op_per_job"],
                       "proc_times": pt, "pad_mask": pm}, batch_size=[1])


def _check_padding_widths(ctx, pname, build, ename):
    """PADDING WIDTH as a batch-composition dimension: the same instance at its own minimal width and re-padded to larger widths
    (own+1, own+5, 2*own, the generator's n_ops_max), decoded greedy alone at each width and inside mixed batches padded to a
    longer batch-mate: actions, reward and log-likelihood must agree up to rounding"""
    import aug_zoo as zoo

    tag = f"{pname}:{ename}"
    try:
        env = zoo.make_env(ename)
        torch.manual_seed(ctx.rng.randrange(1 << 30))
        pol = build(ename).eval()
        torch.manual_seed(ctx.rng.randrange(1 << 30))
        raw = env.generator(batch_size=[6])
        n_ops = (~raw["pad_mask"]).sum(-1).tolist()
        seed = ctx.rng.randrange(1 << 30)

        def dec(td_raw):
            return _decode(pol, env, env.reset(td_raw.clone()), _default_call, seed)

        k = min(range(6), key=lambda j: n_ops[j])  # the shortest instance: most padding next to its batch-mates
        own = n_ops[k]
        base = dec(_repad(raw, k, own))
    except Exception as e:
        ctx.count(f"padding-width sweep unavailable: {tag}")
        ctx.note(f"padding-width sweep unavailable {tag}: {type(e).__name__}: {str(e)[:100]}")
        return
    ctx.count(f"padding-width sweep {tag}")
    wit0 = {"policy": pname, "env": ename, "operations_of_the_instance": own, "operations_of_the_pool": n_ops, "torch_seed": seed}

    def compare(other, row, label):
        a1, a2 = base["actions"][0].tolist(), other["actions"][row].tolist()
        L = min(len(a1), len(a2))
        r1, r2 = float(base["reward"][0]), float(other["reward"][row])
        l1 = None if base["ll"] is None else float(base["ll"][0])
        l2 = None if other["ll"] is None else float(other["ll"][row])
        ctx.case((tag, "pad", label, seed))
        if a1[:L] != a2[:L] or abs(r1 - r2) > 1e-5 * max(1.0, abs(r1)):
            ctx.violation(_key(tag, "result_depends_on_padding_width"),
                          f"{pname} on {ename}: the same instance decoded at its own width ({own} operation columns) and {label} gives "
                          f"different greedy actions / reward", {"composition": label, "actions_own_width": a1, "actions_padded": a2,
                                                              "reward_own_width": r1, "reward_padded": r2, **wit0})
        elif l1 is not None and l2 is not None and abs(l1 - l2) > 1e-4 * max(1.0, abs(l1)):
            ctx.violation(_key(tag, "loglik_depends_on_padding_width"),
                          f"{pname} on {ename}: same actions and reward but log-likelihood {l1} at its own width vs {l2} {label}",
                          {"composition": label, "ll_own_width": l1, "ll_padded": l2, **wit0})

    for width in sorted({own + 1, own + 5, 2 * own, raw["pad_mask"].shape[-1]}):
        try:
            compare(dec(_repad(raw, k, width)), 0, f"alone, padded to {width} columns")
            ctx.count("padding widths compared (solo)")
        except Exception as e:
            ctx.violation(_key(tag, "crash_depends_on_padding_width"), f"{pname} on {ename}: decoding the instance padded to {width} columns raises "
                          f"{type(e).__name__}: {str(e)[:80]}", {"width": width, **wit0})
    # mixed batches: next to longer batch-mates, at the batch's minimal common width and at a larger one
    mates = sorted(range(6), key=lambda j: -n_ops[j])[:2]
    for pos in (0, 1, 2):
        idx = [m for m in mates if m != k][:2]
        idx.insert(min(pos, len(idx)), k)
        for width in (max(n_ops[j] for j in idx), max(n_ops[j] for j in idx) + 3):
            try:
                batch = torch.cat([_repad(raw, j, width) for j in idx], 0)
                compare(dec(batch), idx.index(k), f"at position {idx.index(k)} of a batch padded to {width} columns (batch-mates with {[n_ops[j] for j in idx]} operations)")
                ctx.count("padding widths compared (mixed batch)")
            except Exception as e:
                ctx.violation(_key(tag, "crash_depends_on_padding_width"), f"{pname} on {ename}: batch padded to {width} columns raises {type(e).__name__}",
                              {"width": width, **wit0})
    ctx.sample({"case": "same instance under different amounts of operation padding", "policy": pname, "env": ename, "own_columns": own,
                "actions_own_width": base["actions"][0].tolist(), "reward": float(base["reward"][0])}, cap=3)


def _check_nar_history(ctx):
    """non-autoregressive (heatmap) decoding over a HISTORY of calls whose (B, S) splits vary with B*S repeated:
    (4,2) → (8,1) → (2,4) → (8,1) → …  Each decoded row is compared with (i) a from-scratch greedy walk over its OWN
    instance's heatmap row, (ii) the solo decode of its instance with the same number of starts; the row→instance index the
    real `_multistart_batched_index` returns at that point of the history is compared with the model (`narCachedIndex`)."""
    import aug_zoo as zoo
    from rl4co.envs import TSPEnv
    from rl4co.models.common.constructive.nonautoregressive import decoder as nar_dec

    n = 6
    env = TSPEnv(generator_params=dict(num_loc=n))
    torch.manual_seed(ctx.rng.randrange(1 << 30))
    pol = zoo._nar("tsp").eval()
    torch.manual_seed(ctx.rng.randrange(1 << 30))
    pool = env.reset(env.generator(batch_size=[16]))
    with torch.inference_mode():
        heats = [pol.encoder(pool[k:k + 1])[0][0] for k in range(16)]

    def reference(k, start):
        heat = heats[k]
        cur = int(heat.mean(-1).argmax()) if start is None else start
        tour, seen = [cur], {cur}
        while len(tour) < n:
            row = heat[cur].clone()
            row[list(seen)] = -float("inf")
            cur = int(row.argmax())
            tour.append(cur)
            seen.add(cur)
        return tour

    def decode(td, S):
        with ac.quiet(), torch.inference_mode():
            if S <= 1:
                return pol(td.clone(), env, phase="test", decode_type="greedy")["actions"].tolist()
            return pol(td.clone(), env, phase="test", decode_type="multistart_greedy", num_starts=S)["actions"].tolist()

    seq = [(4, 2), (8, 1), (2, 4), (8, 1), (2, 3), (3, 2), (6, 1), (1, 6), (4, 2)]
    if ctx.rng.random() < 0.5:
        seq = [(8, 1), (4, 2)] + seq
    hist = []
    for call_no, (B, S) in enumerate(seq):
        off = ctx.rng.randrange(0, 16 - B + 1)
        rows_idx = list(range(off, off + B))
        witness = {"policy": "NonAutoregressivePolicy + NonAutoregressiveDecoder, hand-written pairwise-MLP heatmap encoder", "env": "tsp",
                   "call_number": call_no + 1, "calls_so_far_(B,S)": hist + [(B, S)], "pool_rows": rows_idx}
        ctx.case(("nar", call_no, B, S, off))
        ctx.count(f"nar history call (B={B}, S={S})")
        try:
            got = decode(pool[rows_idx], S)
        except Exception as e:
            ctx.violation("nar-heatmap:crash_depends_on_call_history:tsp",
                          f"NAR decoding of a batch (B={B}, S={S}) raises {type(e).__name__} after the calls {hist}: {str(e)[:100]}", witness)
            hist.append((B, S))
            continue
        # the real index at this point of the history vs the model's cache
        try:
            real_idx = nar_dec._multistart_batched_index(B, S)
            real_idx = real_idx.tolist()
        except Exception:
            real_idx = None
        f = parse_fields(ctx.driver.ask("aug.narindex " + " ".join(f"{b} {s}" for b, s in hist + [(B, S)])))
        if real_idx is not None and ac.parse_ints(f.get("cached", "")) != real_idx:
            ctx.disagreement("aug: _multistart_batched_index differs from the model (narCachedIndex)", {"real": real_idx, "model": f, **witness})
        hist.append((B, S))
        bad = None
        for r, row in enumerate(got):
            s_, b = divmod(r, B)
            ref = reference(rows_idx[b], None if S <= 1 else s_ % n)
            if row[:n] != ref:
                bad = (r, b, s_, row, ref)
                break
        if bad is not None:
            r, b, s_, row, ref = bad
            ctx.violation("nar-heatmap:row_not_decoded_from_own_heatmap:tsp",
                          f"NAR greedy decoding, call {call_no + 1} (B={B}, S={S}) after {hist[:-1]}: decoded row {r} (instance {b}, start {s_}) is "
                          f"{row} but greedy decoding of that instance's own heatmap gives {ref}",
                          {"row": r, "instance_in_batch": b, "decoded": row, "own_heatmap_greedy": ref, **witness})
            continue
        # solo decode of one instance of the batch with the same number of starts
        b = ctx.rng.randrange(B)
        try:
            solo = decode(pool[rows_idx[b]:rows_idx[b] + 1], S)
            hist.append((1, S))
            if [got[s_ * B + b] for s_ in range(max(S, 1))] != solo:
                ctx.violation("nar-heatmap:actions_depend_on_batch:tsp",
                              f"NAR decoding (B={B}, S={S}): instance {b} decoded alone gives other tours than in the batch",
                              {"instance_in_batch": b, "solo": solo, "batch_rows": [got[s_ * B + b] for s_ in range(max(S, 1))], **witness})
        except Exception as e:
            ctx.violation("nar-heatmap:crash_depends_on_call_history:tsp",
                          f"NAR decoding of ONE instance with S={S} raises {type(e).__name__} after the calls {hist}", witness)
            hist.append((1, S))
    ctx.sample({"case": "NAR heatmap decoding over a history of (B,S) calls", "calls": hist[:10], "n": n,
                "last decoded row": got[-1] if isinstance(got, list) else None}, cap=3)


def _run_zoo(ctx, names):
    import aug_zoo as zoo

    if "l2d" in names:
        for _ in range(ctx.budget(2, 6)):
            for pname, build, envs, _ms in zoo.ZOO:
                if pname in ("l2d", "l2d-attn"):
                    for ename in envs:
                        _check_padding_widths(ctx, pname, build, ename)
    if "nar-heatmap" in names:
        for _ in range(ctx.budget(2, 8)):
            _check_nar_history(ctx)

    # PRECISION PIN: RL4COTrainer sets torch.set_float32_matmul_precision("medium") process-wide; with reduced-precision
    # matmuls the rounding unit is ~2^-8 and near-ties flip with the evaluation chunk size (see the unit's assumptions)
    torch.set_float32_matmul_precision("highest")

    if "am" in names:
        _check_cache_replication(ctx)
        _check_embeddings_rowlocal(ctx)

    for _rep in range(ctx.budget(1, 5)):  # fresh random weights and instance pools each round
        for pname, build, envs, ms in zoo.ZOO:
            if pname not in names:
                continue
            for ename in envs:
                _batch_invariance(ctx, pname, build, ename, ms)
        if "ffsp-multistage" in names:
            _batch_invariance(ctx, "matnet-multistage", _ffsp_multistage, "ffsp", False, call=_ffsp_call, env_factory=_ffsp_env)


GROUPS = {
    "aug_batch_am": ["am"],
    "aug_batch_variants": ["am-instnorm-nographctx(pomo)", "am-layernorm", "symnco", "ham", "mdam", "polynet", "ptrnet", "mvmoe-am", "mvmoe-pomo", "nar-heatmap"],
    "aug_batch_sched": ["matnet", "ffsp-multistage", "l2d", "l2d-attn", "nargnn"],
}

C14_FILE = "Rl4co/Props/C14/AugDecode.lean"
C14_ROW = "Rl4co/Props/C14/AugRowWise.lean"
C14_CACHE = "Rl4co/Props/C14/AugCache.lean"
C14_NOTE = ("the Lean theorems cover (a) the decoding LOOP and the REGROUPING (batched loop = map of per-row runs, solo run = prefix of "
            "the batch row, idle tail invisible under the C04 idle-step law, unbatchify/rearrange round trip, cache replication for "
            "multi-start), and (b) the row-wise structure of the attention-model forward pass at the level of index algebra: row-local "
            "layer kinds (linear, per-instance attention, instance / layer norm, eval-mode batch norm, mean pooling, context gather) compose "
            "to a RowWise policy, and the kinds that break it (batch statistics, batch-mean gate, parameter read from row 0, row-major "
            "random draws, squeeze at B = 1) are refuted by counterexamples.  WHAT STAYS SAMPLED, NOT PROVED: that each concrete PyTorch "
            "module computes the per-row formula of its kind, and float rounding — checked here on random weights, tiny sizes, eval mode: "
            "an instance decoded alone vs at every position of batches of sizes 1,2,3,8 with unrelated / duplicated batch-mates whose "
            "per-instance parameters differ; per-step logits to 1e-4 (+4e-7·|logit| float term), actions / reward exactly unless the top-2 "
            "gap is below the tolerance.  That the decoder keeps no state between calls is covered by the correspondence only (one policy "
            "object decodes many equal-shaped batches in a row).  PRECISION: the sweep pins torch.set_float32_matmul_precision('highest'); "
            "RL4COTrainer's default 'medium' lets CPU matmuls run in bf16, whose rounding unit (2^-8) flips greedy selections with a top-2 "
            "gap below ~1e-2 depending on the evaluation chunk size — inside the property's clause 'up to float rounding that does "
            "not flip a selection', documented here, not a violation.  The env-side idle-step law (hypothesis of batch_reward_eq_solo) is "
            "checked on every policy×env, RNG-consuming policies included, by replaying each batch row's actions on its instance alone.  "
            "PER-INSTANCE PARAMETERS: pools mix rows from several generator settings (row 0 from the smallest, row 1 from the largest variant, both "
            "are instances under test), and every init / context / dynamic embedding class is additionally checked at module level "
            "(emb(td)[i] == emb(td[i:i+1])[0] on mixed batches, at reset and after two steps); the evidence lists per embedding class which "
            "per-instance scalar td keys it reads and whether they differ inside the batch.  FLP / MCP `to_choose` is not covered: no bundled "
            "constructive policy has embeddings for those envs.  PADDING WIDTH: for the scheduling policies (L2D on FJSP / JSSP) the same instance is decoded at its own minimal operation width, "
            "re-padded to own+1, own+5, 2·own and the generator's n_ops_max (zero columns + pad_mask, as the generator pads), alone and in "
            "mixed batches next to longer batch-mates.  NON-AUTOREGRESSIVE policies: the bundled GNN encoders need torch_geometric (not installed); NonAutoregressivePolicy and its bundled "
            "NonAutoregressiveDecoder are swept with a deterministic hand-written pairwise-MLP heatmap encoder on TSP, greedy and "
            "multistart, over histories of calls whose (B, S) splits vary with B·S repeated, every decoded row compared with a from-scratch "
            "greedy walk over its own instance's heatmap and with its solo decode.  "
            "No deterministic bundled policy supports FFSP (MatNetPolicy('ffsp') cannot be constructed, MultiStageFFSPPolicy draws random "
            "one-hot columns): FFSP is covered through MultiStageFFSPPolicy by that replay check only")
C14_THEOREMS = [
    Theorem("Rl4co.Eval.batchLoop_rowwise", "proved", "row-wise network ⇒ the batched loop is runN on every row; it stops at the first step where all rows are done"),
    Theorem("Rl4co.Eval.batch_eq_map_solo", "proved", "RowWise π ⇒ greedy decode of a batch = map of the per-row runs (any composition, position, size)"),
    Theorem("Rl4co.Eval.solo_prefix_of_batch", "proved", "the solo decoding of a row is a prefix of its batch row; T_solo ≤ T_batch; solo ends done"),
    Theorem("Rl4co.Eval.batch_reward_eq_solo", "proved", "… and with done absorbing + idle step reward-neutral (C04) the reward in the batch equals the solo reward"),
    Theorem("Rl4co.Eval.regroup_unbatch", "proved", "AM decoder multi-start regrouping: rearrange '(s b)' ∘ unbatchify(·, S) = id for every factorisation S·B"),
]
C14_MODULES = ["Rl4co.Props.C14.AugDecode"]
if _exists(C14_ROW):
    C14_MODULES.append("Rl4co.Props.C14.AugRowWise")
    C14_THEOREMS += [
        Theorem("Rl4co.Eval.compL_rowLocal", "proved", "row-local layers compose"),
        Theorem("Rl4co.Eval.zipL_rowLocal", "proved", "entry-wise combination of two row-local branches (residuals, context + graph context) is row-local"),
        Theorem("Rl4co.Eval.normLayer_rowLocal", "proved", "instance norm, the code's layer norm and eval-mode batch norm are row-local"),
        Theorem("Rl4co.Eval.encoderLayer_rowLocal", "proved", "one AM encoder layer norm(x+MHA(x)), norm(h+FF(h)) is row-local whenever its normalisation is"),
        Theorem("Rl4co.Eval.amNetwork_rowLocal", "proved", "encoder stack of any depth + graph context + context gather is row-local unless the norm uses batch statistics"),
        Theorem("Rl4co.Eval.rowWise_of_rowLocal", "proved", "row-local network + per-row decision = the RowWise hypothesis of batch_eq_map_solo"),
        Theorem("Rl4co.Eval.batch_eq_map_solo_of_rowLocal", "proved", "greedy decoding with a network of row-local layers is per-instance"),
        Theorem("Rl4co.Eval.batchNormTrain_not_rowLocal", "proved", "batch statistics (train mode / track_running_stats=False) mix rows"),
        Theorem("Rl4co.Eval.batchMeanGate_not_rowLocal", "proved", "a gate computed from the batch mean mixes rows (MVMoE light decoder)"),
        Theorem("Rl4co.Eval.readsRowZero_not_rowLocal", "proved", "a per-instance parameter read from row 0 mixes rows"),
        Theorem("Rl4co.Eval.rngLayer_not_rowLocal", "proved", "row-major random draws make the output depend on the batch position (MatNet / MultiStageFFSP)"),
        Theorem("Rl4co.Eval.squeezeAll_not_rowLocal", "proved", "a squeeze that drops the batch dim at B = 1 is not row-local (mTSP context before 182aaab)"),
        Theorem("Rl4co.Eval.configured_norms_rowLocal_in_eval", "proved", "obligation on the extracted Normalization table: no configured kind uses batch statistics in eval mode"),
        Theorem("Rl4co.Eval.layerNorm_dims_exclude_batch", "proved", "obligation: the 'layer' branch reduces over dims (1,2), never the batch dim"),
    ]
C14_LAYERS = "Rl4co/Props/C14/AugLayers.lean"
if _exists(C14_LAYERS):
    C14_MODULES.append("Rl4co.Props.C14.AugLayers")
    C14_THEOREMS += [
        Theorem("Rl4co.Eval.mlp_rowLocal", "proved", "the feed-forward block Linear → activation → Linear is row-local"),
        Theorem("Rl4co.Eval.amDecoder_rowLocal", "proved", "one AM decoder step (context gather + graph context, dynamic keys/values, masked pointer attention) is row-local"),
        Theorem("Rl4co.Eval.amPolicyStep_rowLocal", "proved", "encoder (any depth, non-batch-statistics norm) ∘ row-local state ∘ decoder step: a row's logits depend on that row only"),
        Theorem("Rl4co.Eval.decoderReadsRowZero_not_rowLocal", "proved", "a decoder context that takes a state field from row 0 is not row-local"),
        Theorem("Rl4co.Eval.batch_dim_reductions_known", "proved", "obligation on the extracted scan: every reduction over dim 0 in the nn modules of the bundled policies is a known one (MVMoE gate)"),
        Theorem("Rl4co.Eval.forced_train_sites_known", "proved", "obligation: every site forcing training behaviour (dropout without training=, .train()) is a known, guarded one"),
    ]
C14_PAD = "Rl4co/Props/C14/AugPadding.lean"
if _exists(C14_PAD):
    C14_MODULES.append("Rl4co.Props.C14.AugPadding")
    C14_THEOREMS += [
        Theorem("Rl4co.Eval.maskedAttn_padding_local", "proved", "masked attention (mask before the softmax): numerator and denominator on a real row do not depend on the number or content of masked / padded columns"),
        Theorem("Rl4co.Eval.hgnnAttn_padding_local", "proved", "HetGNNLayer's attention, in the form extracted from hgnn.py (-inf fill before F.softmax), is padding-local"),
        Theorem("Rl4co.Eval.maskAfterSoftmax_not_padding_local", "proved", "softmax over all columns then multiply by the mask (un-renormalised): one extra padded column changes the result"),
    ]
C14_NAR = "Rl4co/Props/C14/AugNar.lean"
if _exists(C14_NAR):
    C14_MODULES.append("Rl4co.Props.C14.AugNar")
    C14_THEOREMS += [
        Theorem("Rl4co.Eval.narIndex_getElem?", "proved", "NAR decoder: _multistart_batched_index(B, S)[r] = r mod B for every B, S (the row→instance map of batch_eq_map_solo / C12)"),
        Theorem("Rl4co.Eval.narLogitsRow_own_instance", "proved", "heatmap_to_logits scores decoded row r against the heatmap of instance r mod B"),
        Theorem("Rl4co.Eval.narCachedIndex_eq", "proved", "with the memoisation keyed by (batch_size, num_starts) (extracted) the cached index equals the fresh one after EVERY history of calls"),
        Theorem("Rl4co.Eval.narCachedIndex_rowsKey_counterexample", "proved", "keyed by the number of decoded rows only, (4,2) then (8,1) hands rows 4..7 the heatmaps of instances 0..3"),
        Theorem("Rl4co.Eval.decode_caches_known", "proved", "obligation on the extracted scan: every memoised function / module-level dict cache in the decoding path is a known one"),
    ]
if _exists(C14_CACHE):
    C14_MODULES.append("Rl4co.Props.C14.AugCache")
    C14_THEOREMS += [
        Theorem("Rl4co.Eval.cacheReplicate_row", "proved", "PrecomputedCache.batchify (extracted: ops.batchify, start-major): row s·B+b of an expanded field is instance b's row"),
        Theorem("Rl4co.Eval.cache_state_aligned", "proved", "every expanded cache field and the batchify-ed state hold instance b at row s·B+b"),
        Theorem("Rl4co.Eval.repeatInterleave_misaligned", "proved", "the instance-major alternative (repeat_interleave) pairs a state row with another instance's cache"),
    ]

for _name, _members in GROUPS.items():
    register(Unit(
        "C14", _name, (lambda members: (lambda ctx: _run_zoo(ctx, members)))(_members), drivers=["drv_aug"],
        lean_modules=C14_MODULES if _exists(C14_FILE) else ["Rl4co.Train.Eval"],
        theorems=C14_THEOREMS if _exists(C14_FILE) else [],
        assumptions=[C14_NOTE, "policies that cannot be built or decoded offline are listed as `unavailable` in the evidence notes"],
    ))
