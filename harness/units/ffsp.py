"""FFSP units (C02, C03, C04, C05, C07): real `FFSPEnv` (+ `IndexTables`, driven also through the
multi-start layout `MultiStageFFSPPolicy.pre_forward` builds) vs the `Rl4co.Ffsp` model vs `Rl4co.Spec.Ffsp`."""
from __future__ import annotations

import math
import os

import ffsp_corr as fc
from common import LEAN_DIR, Theorem, Unit, register

MODEL_NOTE = ("FFSPEnv modelled per batch row over integers (Rl4co/Env/Ffsp.lean): `_step`, `_move_to_next_machine` "
              "(fuelled loop; fuel proved sufficient), `_update_step_state`, `IndexTables`; the batch-global "
              "`done.all()` is an explicit flag of the row step; int64 arithmetic, no float involved before the "
              "final cast of the reward; torch advanced indexing / `batchify` layout are glue compared on every run")
SCOPE_NOTE = ("scope: states up to and including the step at which the whole batch is finished (the bundled loops stop "
              "there); both flatten_stages settings, IndexTables (permutation table, set_bs, get_*_index) and the "
              "generator are inside the model and compared; the env object is re-used across resets with growing batch sizes")


def shapes(ctx):
    if ctx.tier == "thorough":
        return [(S, M, J) for S in (1, 2, 3) for M in (1, 2, 3) for J in (1, 2, 3, 4, 6, 9)]
    return [(1, 1, 1), (1, 2, 3), (2, 1, 2), (2, 2, 3), (2, 3, 4), (3, 2, 4), (3, 3, 5), (1, 3, 6), (2, 2, 1)]


def make_batch(ctx, S, M, J, B, env, kinds=None):
    return [fc.gen_inst(ctx.rng, S, M, J, ctx.rng.choice(kinds or fc.KINDS), env) for _ in range(B)]


def warm_up(ctx, env, insts):
    """The env object is cached per shape and re-used; before some batches it is additionally reset with a
    SMALLER batch (and stepped once), so that anything the env object remembers from an earlier, smaller
    reset (IndexTables.bs, tables, step counters) would leak into the batch under test."""
    ctx._ffsp_warm = None
    if ctx.rng.random() < 0.5:
        small = insts[: ctx.rng.choice([1, 1, 2])]
        td = env.reset(fc.to_td(small))
        ctx._ffsp_warm = len(small)
        ctx.count("ffsp.env-reused-after-smaller-reset")
        if ctx.rng.random() < 0.5:
            feas = [[j for j, b in enumerate(td["action_mask"][r].tolist()) if b][0] for r in range(len(small))]
            td.set("action", fc.torch.tensor(feas, dtype=fc.torch.long))
            fc.guarded_step(env, td)


def report_crash(ctx, ep, rows, B, k):
    if ep.crashed:
        ctx.violation("ffsp:env-raises",
                      "the real env raises on a well-formed batch (same env object, earlier reset with batch size "
                      f"{getattr(ctx, '_ffsp_warm', None)}; this batch: {B} instances x {k} starts): {ep.crashed}",
                      {"insts": rows, "B": B, "k": k, "earlier_reset_batch_size": getattr(ctx, "_ffsp_warm", None),
                       "error": ep.crashed})


def expand(insts, k):
    """instances of the rows after `batchify(td, k)`: copy j of instance b at row j*B + b, using machine
    permutation j (`pomo_idx = row // bs`)."""
    return [dict(i, pomo=j) for j in range(k) for i in insts]


def drive(ctx, S, M, J, B, k=1, kinds=None, wait_bias=None, flatten=None):
    if flatten is None:
        flatten = ctx.rng.random() < 0.5
    env = fc.get_env(S, M, J, flatten)
    insts = make_batch(ctx, S, M, J, B, env, kinds)
    if any(i["kind"] == "large" for i in insts) and S * M * J > 12:
        for i in insts:
            if i["kind"] == "large":
                i["dur"] = [[min(d, 7) for d in row] for row in i["dur"]]
    ctx.count(f"ffsp.flatten_stages={flatten}")
    warm_up(ctx, env, insts)
    wb = ctx.rng.choice([0.0, 0.3, 0.8]) if wait_bias is None else wait_bias
    rows = expand(insts, k)
    cap = 2 * max(fc.step_bound(i) for i in rows) + 10
    ep = fc.run_real(env, insts, fc.chooser(ctx.rng, wb, J), k=k, max_steps=cap)
    report_crash(ctx, ep, rows, B, k)
    if ctx.rng.random() < 0.3 and not ep.crashed:
        fc.check_tables(ctx, env, B, k)
    fc.judge_generator(ctx)
    return env, rows, ep


def ask_rows(ctx, rows, ep):
    lines = [fc.episode_line(rows[r], ep.actions[r], ep.gflags) for r in range(len(rows))]
    return lines, ctx.driver.ask_many(lines)


def count_dist(ctx, rows, ep, k):
    S, M, J = rows[0]["S"], rows[0]["M"], rows[0]["J"]
    ctx.count(f"ffsp.shape=S{S}M{M}J{J}")
    ctx.count(f"ffsp.starts={k}")
    for r, i in enumerate(rows):
        ctx.count(f"ffsp.kind={i['kind']}")
        if J in ep.actions[r]:
            ctx.count("ffsp.rows-with-wait-actions")
        d = ep.done[r]
        if 1 in d and d.index(1) < len(d) - 1:
            ctx.count("ffsp.rows-padded-after-finish")


# ---------------------------------------------------------------------------------------------------------
# C07: the final schedule is valid and the reward is its makespan
# ---------------------------------------------------------------------------------------------------------
def run_c07(ctx):
    total = ctx.budget(240, 3000)
    n = 0
    while n < total:
        S, M, J = ctx.rng.choice(shapes(ctx))
        B = ctx.rng.choice([1, 2, 4])
        k = ctx.rng.choice([1, 1, 2, math.factorial(M)])
        k = min(k, math.factorial(M))
        env, rows, ep = drive(ctx, S, M, J, B, k)
        if ep.hung or ep.empty_mask_rows:
            ctx.violation("ffsp:episode-did-not-finish", "real episode hung / hit an empty mask",
                          {"insts": rows, "actions": ep.actions, "hung_inside_env_step": ep.hung_in_step})
            if ep.hung_in_step:
                return  # env.step does not return: decisive, do not burn the budget on further watchdog timeouts
            n += len(rows)
            continue
        lines, reps = ask_rows(ctx, rows, ep)
        count_dist(ctx, rows, ep, k)
        for r in range(len(rows)):
            f = fc.compare_row(ctx, rows[r], ep, r, reps[r], "C07")
            fc.judge_schedule(ctx, rows[r], ep, r, f, lines[r])
            fc.judge_reward(ctx, rows[r], ep, r, f, lines[r])
            ctx.case(("ffsp", repr(rows[r]), tuple(ep.actions[r])), nontrivial=len(ep.actions[r]) > 1)
            ctx.sample({"env": "ffsp", "inst": rows[r], "actions": ep.actions[r], "spec_valid": f.get("valid"),
                        "makespan": f.get("mk")})
        n += len(rows)


# ---------------------------------------------------------------------------------------------------------
# C02: no dead ends (finished rows included), done stable, step bound
# ---------------------------------------------------------------------------------------------------------
def run_c02(ctx):
    total = ctx.budget(240, 3000)
    n = 0
    while n < total:
        S, M, J = ctx.rng.choice(shapes(ctx))
        B = ctx.rng.choice([1, 2, 3, 5, 8])
        k = ctx.rng.choice([1, 1, 1, min(2, math.factorial(M))])
        # mixed progress: very short rows next to slow ones
        kinds = ctx.rng.choice([None, ["fast", "skewed"], ["fast", "random", "gen"], ["zero", "skewed"]])
        env, rows, ep = drive(ctx, S, M, J, B, k, kinds=kinds)
        count_dist(ctx, rows, ep, k)
        if ep.hung:
            ctx.violation("ffsp:no-termination", f"real batch episode not finished after {ep.steps} steps"
                          + (" (env.step itself did not return: _move_to_next_machine loops)" if ep.hung_in_step else ""),
                          {"insts": rows, "actions": ep.actions})
            if ep.hung_in_step:
                return
            n += len(rows)
            continue
        for (r, t) in ep.empty_mask_rows:
            ctx.violation("ffsp:dead-end", "a row is offered no action while the batch is still running",
                          {"inst": rows[r], "actions": ep.actions[r], "step": t, "row_done": ep.done[r][t]})
        lines, reps = ask_rows(ctx, rows, ep)
        for r in range(len(rows)):
            f = fc.compare_row(ctx, rows[r], ep, r, reps[r], "C02", observables=("mask", "done", "clock"))
            d = ep.done[r]
            ctx.case(("ffsp", repr(rows[r]), tuple(ep.actions[r]), len(rows), r))
            if any(d[q] == 1 and d[q + 1] == 0 for q in range(len(d) - 1)):
                ctx.violation("ffsp:done-unstable", "a finished row became unfinished again",
                              {"inst": rows[r], "actions": ep.actions[r], "done": d})
            if 1 not in d:
                ctx.violation("ffsp:not-finished", "row not finished at the end of the batch episode",
                              {"inst": rows[r], "actions": ep.actions[r]})
                continue
            fin = d.index(1)
            J_, S_ = rows[r]["J"], rows[r]["S"]
            jobsteps = sum(1 for a in ep.actions[r][:fin] if a < J_)
            if jobsteps != J_ * S_:
                ctx.violation("ffsp:op-steps", f"{jobsteps} scheduling steps before finishing, expected {J_ * S_}",
                              {"inst": rows[r], "actions": ep.actions[r]})
            if "bound" in f and int(f["bound"]) != fc.step_bound(rows[r]):
                ctx.disagreement("ffsp: step bound differs", {"model": f["bound"], "harness": fc.step_bound(rows[r])})
            if fin > fc.step_bound(rows[r]):
                ctx.violation("ffsp:step-bound", f"row needed {fin} steps, bound is {fc.step_bound(rows[r])}",
                              {"inst": rows[r], "actions": ep.actions[r]})
            # clock strictly increases lexicographically while the row is unfinished
            ck = [tuple(map(int, c.split(":")[:2])) for c in ep.clock[r]]
            if any(not ck[q] < ck[q + 1] for q in range(fin - 1)):
                ctx.violation("ffsp:clock-not-increasing", "(time, sub_time) did not increase on a step of an unfinished row",
                              {"inst": rows[r], "actions": ep.actions[r], "clock": ep.clock[r]})
            # finished rows must be offered exactly the wait action while batch-mates run
            for q in range(fin, len(d) - 1):
                if ep.masks[r][q] != "0" * J_ + "1":
                    ctx.violation("ffsp:finished-row-mask", "finished row is not offered exactly the wait action",
                                  {"inst": rows[r], "actions": ep.actions[r], "step": q, "mask": ep.masks[r][q]})
        ctx.sample({"env": "ffsp", "shape": (S, M, J), "B": B, "k": k, "steps": ep.steps, "inst0": rows[0],
                    "actions0": ep.actions[0], "first_done": [d.index(1) if 1 in d else None for d in ep.done]})
        n += len(rows)


# ---------------------------------------------------------------------------------------------------------
# C03: reward = - makespan
# ---------------------------------------------------------------------------------------------------------
def run_c03(ctx):
    total = ctx.budget(200, 3000)
    n = 0
    while n < total:
        S, M, J = ctx.rng.choice(shapes(ctx))
        B = ctx.rng.choice([1, 2, 4])
        k = ctx.rng.choice([1, 1, min(2, math.factorial(M))])
        huge = ctx.rng.random() < 0.08  # hand-supplied durations above the sentinel (outside WF): small shapes only
        if huge:
            S, M, J = ctx.rng.choice([(1, 2, 1), (1, 2, 2), (1, 3, 2), (1, 3, 1)])  # S = 1, J <= M: no long waits
            k = 1
        env, rows, ep = drive(ctx, S, M, J, B, k, kinds=["huge"] if huge else None, wait_bias=0.0 if huge else None)
        if ep.hung or ep.empty_mask_rows:
            n += len(rows)
            ctx.count("ffsp.unfinished-skipped")
            ctx.violation("ffsp:episode-did-not-finish", "real episode hung / hit an empty mask",
                          {"insts": rows, "actions": ep.actions, "hung_inside_env_step": ep.hung_in_step})
            if ep.hung_in_step:
                return
            continue
        lines, reps = ask_rows(ctx, rows, ep)
        count_dist(ctx, rows, ep, k)
        import torch
        rew = env.get_reward(ep.td, torch.tensor(ep.actions, dtype=torch.long))
        for r in range(len(rows)):
            f = fc.compare_row(ctx, rows[r], ep, r, reps[r], "C03", observables=("sched", "reward"))
            fc.judge_reward(ctx, rows[r], ep, r, f, lines[r])
            if float(rew[r]) != float(ep.td["reward"][r]):
                ctx.violation("ffsp:get_reward-differs", "env.get_reward differs from td['reward']",
                              {"inst": rows[r], "actions": ep.actions[r]})
            ctx.case(("ffsp", repr(rows[r]), tuple(ep.actions[r])), nontrivial=True)
            ctx.sample({"env": "ffsp", "inst": rows[r], "actions": ep.actions[r], "reward": fc.real_reward(ep.td, r),
                        "spec_makespan": f.get("mk")})
        n += len(rows)


# ---------------------------------------------------------------------------------------------------------
# C04: independence of batch-mates, of the position, of padding; multi-start layout
# ---------------------------------------------------------------------------------------------------------
def run_c04(ctx):
    total = ctx.budget(40, 500)
    for g in range(total):
        S, M, J = ctx.rng.choice(shapes(ctx))
        B = ctx.rng.choice([2, 3, 5, 8])
        k = ctx.rng.choice([1, 1, min(2, math.factorial(M)), math.factorial(M)])
        if B * k > 24:
            k = 1
        kinds = ctx.rng.choice([None, ["fast", "skewed"], ["fast", "random", "gen"]])
        flatten = ctx.rng.random() < 0.5
        env = fc.get_env(S, M, J, flatten)
        ctx.count(f"ffsp.flatten_stages={flatten}")
        insts = make_batch(ctx, S, M, J, B, env, kinds)
        warm_up(ctx, env, insts)
        if ctx.rng.random() < 0.5:  # copies of itself among the batch-mates
            insts[ctx.rng.randrange(B)] = insts[0]
        rows = expand(insts, k)
        cap = 2 * max(fc.step_bound(i) for i in rows) + 10
        ep = fc.run_real(env, insts, fc.chooser(ctx.rng, ctx.rng.choice([0.0, 0.3, 0.8]), J), k=k, max_steps=cap)
        report_crash(ctx, ep, rows, B, k)
        if ep.crashed:
            continue
        fc.check_tables(ctx, env, B, k)
        fc.judge_generator(ctx)
        if ep.hung or ep.empty_mask_rows:
            ctx.count("ffsp.unfinished-skipped")
            ctx.violation("ffsp:episode-did-not-finish", "real episode hung / hit an empty mask",
                          {"insts": rows, "actions": ep.actions, "hung_inside_env_step": ep.hung_in_step})
            if ep.hung_in_step:
                return
            continue
        count_dist(ctx, rows, ep, k)
        # every batched row against the per-row model (with the batch-global flag as the code computes it)
        lines, reps = ask_rows(ctx, rows, ep)
        for r in range(len(rows)):
            fc.compare_row(ctx, rows[r], ep, r, reps[r], "C04 batched row vs per-row model")
        # real solo re-run of some rows with the same actions (machine permutation 0 rows only: a solo
        # reset always uses permutation 0), stopping when the row itself finishes
        cand = [r for r in range(len(rows)) if rows[r]["pomo"] == 0]
        pick = cand if ctx.tier == "thorough" else ctx.rng.sample(cand, min(len(cand), 3))
        for r in pick:
            d = ep.done[r]
            fin = d.index(1)
            solo_actions = ep.actions[r][:fin]
            ep1 = fc.run_real(env, [rows[r]], lambda *_: 0, forced=[solo_actions], max_steps=fin)
            if ep1.crashed:
                report_crash(ctx, ep1, [rows[r]], 1, 1)
                continue
            ctx.case(("ffsp", repr(rows[r]), tuple(ep.actions[r]), len(rows), r), nontrivial=len(rows) > 1)
            ctx.count(f"ffsp.B={len(rows)}")
            wit = {"inst": rows[r], "batched_actions": ep.actions[r], "solo_actions": solo_actions, "row": r,
                   "batch": rows}
            if ep1.actions[0] != solo_actions or ep1.done[0][-1] != 1 or 1 in ep1.done[0][:-1]:
                ctx.violation("ffsp:batch-dependence:finish-step",
                              "solo run does not finish at the same step as inside the batch", wit)
                continue
            if ep1.masks[0][:fin] != ep.masks[r][:fin]:
                ctx.violation("ffsp:batch-dependence:mask", "masks differ between solo and batched run",
                              dict(wit, solo=ep1.masks[0][:fin], batched=ep.masks[r][:fin]))
            if ep1.clock[0][:fin] != ep.clock[r][:fin]:
                ctx.violation("ffsp:batch-dependence:clock", "clock differs between solo and batched run", wit)
            if ep1.masks[0][fin] != ep.masks[r][fin]:
                ctx.count("ffsp.terminal-mask-differs")
                ctx.violation("ffsp:batch-dependence:terminal-mask",
                              "the action mask of the row's terminal state differs between the solo run (stale mask, "
                              "`_update_step_state` skipped when `done.all()`) and the batched run (wait only)",
                              dict(wit, solo=ep1.masks[0][fin], batched=ep.masks[r][fin]))
            rs, rb = fc.real_reward(ep1.td, 0), fc.real_reward(ep.td, r)
            if rs != rb:
                ctx.violation("ffsp:batch-dependence:reward", "reward differs between the solo and the batched (padded) run",
                              dict(wit, solo_reward=rs, batched_reward=rb))
            if fc.real_sched(ep1.td, 0)[:] != fc.real_sched(ep.td, r):
                # only the dummy (wait) column may differ through padding
                Jc = J + 1
                a, b = fc.real_sched(ep1.td, 0), fc.real_sched(ep.td, r)
                if any(a[q] != b[q] for q in range(len(a)) if q % Jc != J):
                    ctx.violation("ffsp:batch-dependence:schedule", "real-job schedule differs between solo and batched run", wit)
        ctx.sample({"env": "ffsp", "shape": (S, M, J), "B": B, "k": k, "steps": ep.steps, "inst0": rows[0],
                    "actions0": ep.actions[0], "reward0": fc.real_reward(ep.td, 0)})


# ---------------------------------------------------------------------------------------------------------
# C05: what the mask can reach on tiny instances vs brute force
# ---------------------------------------------------------------------------------------------------------
TINY = [  # (S, M, J, max duration)
    (1, 1, 2, 3), (1, 2, 2, 3), (1, 2, 3, 2), (2, 1, 2, 2), (2, 2, 2, 2), (1, 3, 2, 3), (1, 1, 3, 2), (2, 1, 3, 1),
]


def tiny_instance(ctx, g):
    S, M, J, dmax = TINY[g % len(TINY)] if g < 2 * len(TINY) else ctx.rng.choice(TINY)
    MT = S * M
    mode = ctx.rng.choice(["random", "skewed", "ties", "zero"])
    if mode == "skewed":
        dur = [[(1 if m % M == 0 else dmax) for m in range(MT)] for _ in range(J)]
    elif mode == "ties":
        dur = [[1 for _ in range(MT)] for _ in range(J)]
    elif mode == "zero":  # zero durations: several operations may start at the same time, a machine only one
        dur = [[ctx.rng.choice([0, 0, 1, dmax]) for _ in range(MT)] for _ in range(J)]
    else:
        dur = [[ctx.rng.randint(1, dmax) for _ in range(MT)] for _ in range(J)]
    return {"kind": "tiny-" + mode, "S": S, "M": M, "J": J, "dur": dur, "pomo": 0}


def run_c05(ctx):
    total = ctx.budget(24, 150)
    for g in range(total):
        inst = tiny_instance(ctx, g)
        S, M, J = inst["S"], inst["M"], inst["J"]
        flatten = ctx.rng.random() < 0.5
        env = fc.get_env(S, M, J, flatten)
        inst["flat"] = flatten
        H = fc.work_bound(inst)
        ncand = (M * (H + 1)) ** (J * S)
        if ncand > 400000:
            ctx.count("ffsp.tiny-too-large-skipped")
            continue
        try:
            finals = fc.real_bfs(env, inst)
        except fc.StepTimeout:
            ctx.violation("ffsp:episode-did-not-finish", "env.step did not return during exhaustive exploration", {"inst": inst})
            return
        except RuntimeError as e:
            ctx.violation("ffsp:exploration-unbounded", f"exhaustive exploration of the real env does not end ({e})", {"inst": inst})
            return
        real_set = sorted({tuple(s) for _, s, _ in finals})
        real_best = max(r for _, _, r in finals)
        sec = fc.inst_sections(inst)
        rb, re_ = ctx.driver.ask_many([f"ffsp.bfs {sec} | {fc.step_bound(inst) + 2}", f"ffsp.enum {sec} | {H}"])
        from leanio import parse_fields
        fb, fe = parse_fields(rb), parse_fields(re_)
        dec = lambda s: sorted(tuple(int(x) for x in m.split(",")) for m in s.split(";") if m)
        ctx.case(("ffsp", repr(inst)), nontrivial=len(finals) > 1)
        ctx.count(f"ffsp.shape=S{S}M{M}J{J}")
        ctx.count(f"ffsp.kind={inst['kind']}")
        ctx.count("ffsp.real-complete-episodes", len(finals))
        ctx.count("ffsp.valid-candidates", int(fe["nvalid"]))
        wit = {"inst": inst, "mask_best_reward": real_best, "n_reachable": len(real_set),
               "bruteforce_opt_makespan": fe.get("opt"), "expressible_opt_makespan": fe.get("optE")}
        if int(fb["runs"]) != len(finals) or dec(fb.get("scheds", "")) != real_set or fb["best"] != str(real_best):
            ctx.disagreement("ffsp: exhaustive exploration differs between model and real env",
                             {"inst": inst, "model": rb[:400], "real_runs": len(finals), "real_best": real_best})
        if fe.get("sndsub") == "0":
            ctx.disagreement("ffsp: a strictly non-delay valid schedule is not expressible (contradicts expressible_of_strictNonDelay)",
                             {"inst": inst})
        ctx.count("ffsp.valid-nondelay", int(fe.get("nnd", 0)))
        ctx.count("ffsp.valid-nondelay-expressible", int(fe.get("ndexpr", 0)))
        if dec(fe.get("expr", "")) != real_set:
            ctx.disagreement("ffsp: Spec.expressible does not characterise the mask-reachable schedules",
                             {"inst": inst, "expressible": fe.get("expr", "")[:400], "reachable": real_set[:10]})
        # every reachable schedule is Spec-valid: it must be among the brute-force valid ones (expr ⊆ valid by construction)
        if fe["opt"] == "none":
            ctx.violation("ffsp:no-valid-schedule", "brute force finds no valid schedule", wit)
        elif -real_best != int(fe["opt"]):
            ctx.violation("ffsp:mask-hides-optimum",
                          "the best makespan reachable through the action mask is worse than the brute-force optimum over "
                          "all valid schedules (an idle machine must take an available job unless a job is still in an "
                          "earlier stage)", wit)
        else:
            ctx.count("ffsp.optimum-reachable")
        # best over all machine permutations (multi-start) vs optimum
        best_any = real_best
        for p in range(1, math.factorial(M)):
            fp = parse_fields(ctx.driver.ask(f"ffsp.bfs {fc.inst_sections(dict(inst, pomo=p))} | {fc.step_bound(inst) + 2}"))
            best_any = max(best_any, int(fp["best"]))
        if fe["opt"] != "none" and -best_any != int(fe["opt"]):
            ctx.count("ffsp.optimum-hidden-under-every-permutation")
        ctx.sample(dict(wit, best_over_permutations=best_any))


UNITS = [("C07", run_c07), ("C02", run_c02), ("C03", run_c03), ("C04", run_c04), ("C05", run_c05)]
T = Theorem
THEOREMS = {
    "C07": [
        T("Rl4co.Ffsp.schedule_valid", "proved",
          "solo: every finished mask-confined episode carries a Spec-valid schedule (each job once per stage on a machine of "
          "that stage, stages in order without overlap, machines never double-booked); any S, M, J, durations ≥ 0"),
        T("Rl4co.Ffsp.schedule_valid_row", "proved",
          "row of any batch: after any admitted step with any value of the batch-global done.all(), a finished row carries a valid schedule"),
        T("Rl4co.Ffsp.bookMachine_eq", "proved",
          "obligation on the extracted source key: _step books schedule / duration / machine wait on td['machine_idx'] "
          "(never on stage_machine_idx, which differs when flatten_stages=False)"),
        T("Rl4co.Ffsp.smidx_unflat", "proved",
          "flatten_stages=False: machine_idx = stage_machine_idx + M·stage_idx and stage_machine_idx < M in every state of a running row"),
        T("Rl4co.Ffsp.smidx_flat", "proved", "flatten_stages=True: stage_machine_idx = machine_idx"),
        T("Rl4co.Ffsp.apply_flat_irrelevant", "proved", "the bookkeeping of _step does not depend on flatten_stages"),
        T("Rl4co.Ffsp.rowInst_wf", "proved", "the instance a batch row is stepped as (permutation from IndexTables) is WF"),
        T("Rl4co.Ffsp.batch_final", "proved",
          "∀ batch ∀ row: at the step finishing the batch every row (however long padded) is done, carries a Spec-valid schedule "
          "and its written reward is −makespan"),
        T("Rl4co.Ffsp.valid_schedule_exists", "proved", "Spec sanity: every WF instance has a valid schedule (Valid is never vacuous)"),
        T("Rl4co.Spec.Ffsp.valid_of_perm", "proved", "Spec sanity: validity does not depend on the listing order of the operations"),
        T("Rl4co.Spec.Ffsp.valid_shift", "proved", "Spec sanity: validity is invariant under a common time shift c ≥ 0"),
        T("Rl4co.Spec.Ffsp.isMakespan_shift", "proved", "Spec sanity: the makespan shifts along"),
        T("Rl4co.Spec.Ffsp.makespan_ge", "proved", "Spec sanity: the makespan dominates every completion time and every processing time used"),
        T("Rl4co.Ffsp.tables_match", "proved",
          "obligation on the REGENERATED index tables (IndexTables source executed for 2x3, both flatten settings): "
          "stage_table / machine_table / stage_machine_table = the model's stageOf / machineOf / stageMachineOf"),
        T("Rl4co.Ffsp.job_steps", "proved", "in a finished episode every job was chosen exactly S times (all other actions are waits)"),
        T("Rl4co.Ffsp.reward_eq_makespan", "proved", "solo: the reward written equals minus the Spec makespan (latest completion)"),
        T("Rl4co.Ffsp.reward_eq_makespan_row", "proved", "row of a batch: the reward written at the batch's last step is minus the makespan"),
    ],
    "C03": [
        T("Rl4co.Ffsp.reward_eq_makespan", "proved",
          "solo: reward is written at the finishing step and equals −makespan of the schedule (durations < 999999, the sentinel)"),
        T("Rl4co.Ffsp.reward_eq_makespan_row", "proved", "row of a batch: same at the step where done.all() becomes true"),
        T("Rl4co.Ffsp.rewardCols_eq", "proved", "obligation on the extracted slice bound: the makespan ignores the dummy (wait) column"),
        T("Rl4co.Ffsp.reward_sentinel_threshold", "proved",
          "exact threshold of the sentinel collision: unused duration 10^6 still harmless at makespan 1, 10^6+1 gives reward −2"),
        T("Rl4co.Ffsp.small_lt_unset", "proved", "obligation on the extracted sentinel (WF.dur_lt is stated against it)"),
        T("Rl4co.Ffsp.reward_needs_duration_bound", "proved",
          "counterexample (known finding): without the duration bound the reward is not −makespan (sentinel −999999 wins the max)"),
    ],
    "C02": [
        T("Rl4co.Ffsp.moveLoop_fuel_enough", "proved",
          "_move_to_next_machine terminates: fuel (maxWait+2)·M·S is never exhausted, the loop stops on an idle machine with an available job"),
        T("Rl4co.Ffsp.move_terminates", "proved", "same, for every unfinished state satisfying the schedule invariant"),
        T("Rl4co.Ffsp.mask_nonempty", "proved", "every state of a row whose batch is still running (finished or not) offers an action"),
        T("Rl4co.Ffsp.mask_nonempty_solo", "proved", "solo: every unfinished state offers an action"),
        T("Rl4co.Ffsp.finished_offers_wait_only", "proved", "a finished row next to running batch-mates is offered exactly the wait action"),
        T("Rl4co.Ffsp.done_stable", "proved", "done is absorbing under every admitted step, whatever done.all() is"),
        T("Rl4co.Ffsp.clock_increases", "proved", "(time_idx, sub_time_idx) strictly increases on every step that leaves the row unfinished"),
        T("Rl4co.Ffsp.move_iterations_le", "proved",
          "_move_to_next_machine: the while body runs n ≥ 1 times per step, pos' = pos + n < (D+1)·M·S — instance data only; "
          "fewer than (D+1)·M·S body runs over a whole episode"),
        T("Rl4co.Ffsp.batch_mask_nonempty", "proved", "∀ batch ∀ row: every row of every running batch is offered an action"),
        T("Rl4co.Ffsp.exists_finished_episode", "proved", "every WF instance has a finished mask-confined episode"),
        T("Rl4co.Ffsp.repaired_mask_nonempty", "proved",
          "repaired clause: with the done.all() shortcut removed, every state reachable by ANY mask-confined run offers an action"),
        T("Rl4co.Ffsp.repaired_done_absorbing", "proved", "repaired clause: … and done is absorbing, also after the batch is finished"),
        T("Rl4co.Ffsp.time_le_work", "proved", "all durations ≥ 0: time_idx of an unfinished row ≤ total work D (a duration 0 counted as 1)"),
        T("Rl4co.Ffsp.steps_le", "proved", "all durations ≥ 0: a row is finished after at most (D+1)·M·S steps"),
        T("Rl4co.Ffsp.default_gen_wf", "proved",
          "instances of the bundled generator at its (extracted) default parameters, at any batch row inside the permutation "
          "table, are WF with positive durations — so all C02 theorems apply to them"),
        T("Rl4co.Ffsp.gen_wf", "proved", "run_time = min_time + u, u < max_time − min_time, max_time ≤ 999999 ⇒ WF"),
        T("Rl4co.Ffsp.params_match", "proved", "the operators / constants / statement shapes the model hard-codes are the extracted ones"),
        T("Rl4co.Ffsp.steps_le_solo", "proved", "same for the instance stepped alone"),
        T("Rl4co.Ffsp.stale_mask_after_all_done", "proved",
          "scope remark made precise: after the step finishing the whole batch the stored mask still offers the last job, whose choice would un-finish the row"),
    ],
    "C04": [
        T("Rl4co.Ffsp.batchStep_eq", "proved", "the batched _step is the per-row step with the one common flag done.all()"),
        T("Rl4co.Ffsp.step_eq_stepM", "proved", "while the row is unfinished after its step, solo step = step next to running batch-mates"),
        T("Rl4co.Ffsp.finishing_step_agree", "proved", "at the finishing step solo and batched agree on everything but mask/reward fields"),
        T("Rl4co.Ffsp.pad_noop", "proved", "a finished row can only be padded with wait; done, mask, clock, real-job schedule, reward value unchanged"),
        T("Rl4co.Ffsp.reward_batch_invariant", "proved",
          "reward written at the batch's last step after arbitrary padding = reward of the solo run with the same actions"),
        T("Rl4co.Ffsp.batchMoveLoop_eq_map", "proved",
          "the batched while-loop of _move_to_next_machine (shrinking index set) acts on every row independently"),
        T("Rl4co.Ffsp.batchMove_eq_moveNext", "proved",
          "with the unfinished rows selected and enough global fuel, the batched loop = per-row moveNext on every row"),
        T("Rl4co.Ffsp.batchRun_row_reach", "proved", "∀ batch ∀ row: every row of a running batch is in a state of its own per-row machine"),
        T("Rl4co.Ffsp.repaired_state_batch_independent", "proved",
          "repaired clause for the terminal-mask finding: without the shortcut the state a row ends in (mask included) is "
          "independent of the batch-mates up to the reward field"),
        T("Rl4co.Ffsp.repaired_terminal_mask_independent", "proved", "repaired clause: terminal mask equal for every value of done.all()"),
        T("Rl4co.Ffsp.repaired_agrees", "proved", "the repaired step agrees with the real one on everything the bundled loops observe"),
        T("Rl4co.Ffsp.tables_match", "proved", "regenerated IndexTables tables (2x3, both settings) = model index functions"),
        T("Rl4co.Ffsp.permsOf_length", "proved", "IndexTables: the permutation table has M! rows (get_num_starts)"),
        T("Rl4co.Ffsp.tables_perm_lt", "proved", "every table row a batch row can select maps 0..M-1 into itself"),
        T("Rl4co.Ffsp.kmajor_perm", "proved",
          "after reset with batch size B and batchify(td, k): row j·B+b is stepped with table row j (pomo_idx = row // bs, operator extracted)"),
        T("Rl4co.Ffsp.unreplicated_identity", "proved", "un-replicated batch: every row, at every position, sweeps machines in identity order"),
        T("Rl4co.Ffsp.pomoIdx_layout", "proved", "IndexTables: under the k-major batchify layout row j·B+b uses machine permutation j"),
        T("Rl4co.Ffsp.terminal_mask_batch_dependent", "proved",
          "counterexample (known finding): the mask of a row's terminal state differs between solo and batched runs"),
    ],
    "C05": [
        T("Rl4co.Ffsp.mask_iff_available", "proved",
          "per decision the mask offers exactly the jobs in the current stage whose previous operation is completed by now (≤, equality included)"),
        T("Rl4co.Ffsp.episode_expressible", "proved",
          "soundness of the class: the schedule of every finished mask-confined episode is Spec.Ffsp.Expressible (all durations ≥ 0)"),
        T("Rl4co.Ffsp.finished_row_expressible", "proved", "same for a row of any batch, whatever the batch-mates do"),
        T("Rl4co.Ffsp.expressible_reachable", "proved",
          "completeness of the class: every valid expressible schedule is the schedule of some finished mask-confined episode"),
        T("Rl4co.Ffsp.reachable_iff_expressible", "proved", "mask-reachable schedule matrices = matrices whose operation list is valid and expressible"),
        T("Rl4co.Ffsp.reachable_rewards_eq", "proved", "rewards reachable through the mask = negated makespans of the valid expressible schedules"),
        T("Rl4co.Ffsp.best_reward_is_expressible_optimum", "proved",
          "best reward through the mask = −(least makespan over valid expressible schedules), as an ∃…∧∀… equivalence"),
        T("Rl4co.Ffsp.rowInst_permBij", "proved", "every IndexTables row is a bijection, so the class theorems apply to every batch row"),
        T("Rl4co.Spec.Ffsp.expressible_iff", "proved", "the run-time oracle `expressible` is the decision procedure of the definition"),
        T("Rl4co.Ffsp.expressible_of_strictNonDelay", "proved",
          "every schedule that is non-delay under the sweep's tie rule is expressible (strict non-delay ⊆ expressible ⊆ valid)"),
        T("Rl4co.Ffsp.nondelay_permutation_not_expressible", "proved",
          "refutation: a valid, non-delay, permutation schedule (2 stages x 2 machines, 3 unit jobs) that is not expressible "
          "under either machine permutation"),
        T("Rl4co.Ffsp.double_start_clause_needed", "proved",
          "zero durations: two zero-length jobs at the same time on one machine are valid but unreachable — why Expressible has its second clause"),
        T("Rl4co.Ffsp.not_opt_reachable", "proved",
          "counterexample (known finding): 'some mask-confined episode is as good as any VALID schedule' is false"),
        T("Rl4co.Ffsp.optimum_hidden", "proved",
          "on the witness every episode has makespan 3 under either machine permutation while a valid schedule has 2"),
    ],
}
MODULES = {
    "C07": ["Rl4co.Props.C07.Ffsp", "Rl4co.Props.C03.Ffsp", "Rl4co.Proofs.FfspTables", "Rl4co.Proofs.FfspSpec",
            "Rl4co.Props.C04.FfspBatch"],
    "C03": ["Rl4co.Props.C03.Ffsp"],
    "C02": ["Rl4co.Props.C02.Ffsp", "Rl4co.Proofs.FfspTables", "Rl4co.Proofs.FfspSpec", "Rl4co.Props.C04.FfspBatch"],
    "C04": ["Rl4co.Props.C04.Ffsp", "Rl4co.Proofs.FfspTables", "Rl4co.Props.C04.FfspBatch"],
    "C05": ["Rl4co.Props.C05.Ffsp"],
}
EXTRA = {
    "C02": ["WF: S, M, J ≥ 1, perm maps 0..M-1 into itself, durations in [0, 999999); the step/time bound holds for all such "
            "instances (zero durations included: a duration 0 counts as 1 in D)"],
    "C03": ["WF.dur_lt: durations < 999999 (the schedule's 'unset' sentinel); a larger duration on an unused machine would "
            "win the max over the whole schedule+duration matrix"],
    "C04": ["the batched while-loop of _move_to_next_machine is modelled (batchMoveLoop) and proved equal to the per-row "
            "loops; that the torch index-set code implements batchMoveLoop is compared on every run (clock of every row)"],
    "C05": ["the class theorems assume a bijective machine permutation (proved for every IndexTables row); the exhaustive "
            "exploration of the real env on tiny instances (zero durations included) ties Spec.Ffsp.Expressible to the code"],
}
for prop, fn in UNITS:
    mods = MODULES.get(prop, [])
    ok = all(os.path.exists(os.path.join(LEAN_DIR, m.replace(".", "/") + ".lean")) for m in mods)
    thms = THEOREMS.get(prop, []) if ok else []
    assumptions = [MODEL_NOTE, SCOPE_NOTE] + EXTRA.get(prop, [])
    if not thms:
        assumptions.append("no theorem yet: correspondence + spec oracle only")
    register(Unit(prop, "ffsp", fn, drivers=["drv_ffsp"], lean_modules=mods if ok else [], theorems=thms,
                  assumptions=assumptions))
