"""Job-shop units (C07, C02, C03, C04, C05): real `FJSPEnv` / `JSSPEnv` vs the `Rl4co.Fjsp` model
(per-instance and batched) vs the `Rl4co.Spec.Fjsp` oracle (`ValidSchedule`, makespan, schedule
classes).  Units `fjsp` and `jssp` per property."""
from __future__ import annotations

import os
from typing import List

import jobshop_lib as jl
from common import LEAN_DIR, Theorem, Unit, register
from leanio import parse_fields
from rl import torch

MODEL_NOTE = ("FJSPEnv/JSSPEnv modelled per instance over integers (Rl4co/Env/Fjsp.lean: reset, mask, _make_step, "
              "_transit_to_next_time, the `while step_complete.any()` loop with fuel M+1) and as a batch (stepBatch); "
              "feature tensors (lbs, is_ready, adjacency) are not modelled; processing times are integral so float32 is exact")
WF_NOTE = ("theorems assume WF: ≥1 job, job ranges contiguous/disjoint inside the unpadded prefix, processing times ≥ 0, "
           "every real operation has ≥ 1 eligible machine (JSSP: exactly 1); the harness evaluates WF on every instance it uses")
COVER_NOTE = ("input classes driven through the real env at the quick tier: durations 1 … 20000 (schedule horizons beyond "
              "the INIT_FINISH = 9999 filler of finish_times, event times exactly 9999/9998/10000), unbalanced jobs, unusable "
              "machines, padded rows, generator instances at default-like and at large processing times, instances read from "
              "files, mask_no_ops on/off, check_mask and stepwise_reward on/off (not modelled: they must not change "
              "mask/done/time/schedule, and get_reward(td, actions) must stay −makespan); the op_is_ready feature td['is_ready'] is "
              "modelled (Fjsp.isReady) and compared at every step of the C07 stream")
NO_THM = "no theorem yet: correspondence + spec oracle only"


def tag(jssp: bool) -> str:
    return "jssp" if jssp else "fjsp"


def sizes(ctx):
    if ctx.tier == "thorough":
        return dict(J=[1, 2, 3, 4, 6], M=[1, 2, 3, 4], max_ops=4)
    return dict(J=[1, 2, 3, 4], M=[1, 2, 3], max_ops=3)


def make_batch(ctx, jssp: bool, B: int) -> List[dict]:
    """a batch of instances sharing J and M; sources: hand-built exact-stream kinds, the repo's
    generator, and (FJSP) files written by the repo's writer and read back"""
    r = ctx.rng.random()
    if r < 0.2:
        insts = jl.generator_instances(ctx.rng, jssp, B)
    elif r < 0.3:
        insts = jl.file_instances(ctx.rng, jssp, B)
    else:
        sz = sizes(ctx)
        J, M = ctx.rng.choice(sz["J"]), ctx.rng.choice(sz["M"])
        insts = [jl.gen_instance(ctx.rng, J, M, ctx.rng.choice(jl.KINDS), jssp, sz["max_ops"]) for _ in range(B)]
    for i in insts:
        if not jl.wf(i, jssp):
            raise RuntimeError(f"harness produced a non-WF instance: {i}")
    return insts


def drive(ctx, jssp: bool, mno: bool, insts: List[dict], extra_pad: int = 0, forced=None, n_extra: int = 0):
    cm, sw = ctx.rng.random() < 0.3, ctx.rng.random() < 0.3
    env = jl.make_env(jssp, mno, check_mask=cm, stepwise_reward=sw)
    ctx.count(f"{tag(jssp)}.check_mask={int(cm)}.stepwise_reward={int(sw)}")
    src = jl.source_td(insts)
    if src is not None:
        # drive the env on the generator's / file reader's own TensorDict (its dtypes and padding)
        td0, N = src.clone(), src["proc_times"].shape[-1]
        ctx.count(f"{tag(jssp)}.driven-on-original-tensordict")
    else:
        N = max(jl.min_N(i) for i in insts) + n_extra
        td0, N = jl.to_td(insts, N)
    style = ctx.rng.choice(["uniform", "uniform", "waity", "eager"])
    ep = jl.run_real(env, td0, jl.chooser(ctx.rng, style), extra_pad=extra_pad, forced=forced)
    return env, ep, N, style


def count_dist(ctx, t: str, insts, N, mno, style, ep):
    for r, i in enumerate(insts):
        ctx.count(f"{t}.kind={i['kind']}")
        ctx.count(f"{t}.J={i['J']}.M={i['M']}")
        ctx.count(f"{t}.ops={min(jl.total_ops(i), 12)}")
        if ep.times[r] and ep.times[r][-1] >= jl.INIT_FINISH:
            ctx.count(f"{t}.horizon>=INIT_FINISH")
            fd = ep.done[r].index(1) if 1 in ep.done[r] else len(ep.times[r]) - 1
            if any(tm >= jl.INIT_FINISH for tm in ep.times[r][:fd]):
                ctx.count(f"{t}.clock>=INIT_FINISH-while-unfinished")
        if jl.INIT_FINISH in ep.times[r]:
            ctx.count(f"{t}.event-time==INIT_FINISH")
        if jl.total_ops(i) < N:
            ctx.count(f"{t}.padded-row")
        acts, tms, dn = ep.actions[r], ep.times[r], ep.done[r]
        for k, a in enumerate(acts):
            if k + 1 >= len(tms):
                break
            if dn[k]:
                ctx.count(f"{t}.steps.finished-row-stepped")
            elif a == 0:
                ctx.count(f"{t}.steps.wait")
            elif tms[k + 1] != tms[k]:
                ctx.count(f"{t}.steps.schedule+clock-advanced-by-loop")
            else:
                ctx.count(f"{t}.steps.schedule")
    ctx.count(f"{t}.mask_no_ops={int(mno)}")
    ctx.count(f"{t}.chooser={style}")
    ctx.count(f"{t}.B={len(insts)}")
    if len({jl.total_ops(i) for i in insts}) > 1:
        ctx.count(f"{t}.batch-with-unequal-op-counts")


def spec_verdicts(ctx, env, insts, N, ep):
    """Lean Spec oracle on the REAL final tensors of every row"""
    rew = jl.real_reward(env, ep.td, ep.actions)
    lines = []
    for r, i in enumerate(insts):
        fin = ep.final(r)
        lines.append(jl.line_spec(i, N, fin["start"], fin["finish"], fin["assign"], -rew[r]))
    return rew, [parse_fields(x) for x in ctx.driver.ask_many(lines)]


def broken_episode(ctx, t, jssp, mno, insts, N, ep, what):
    """the real env raised inside `_step` or showed an all-False mask row although every instance is WF:
    compare the recorded prefix with the model (which, by theorem, runs through) — a broken tie"""
    why = ep.error or f"all-False mask row {ep.empty_mask_rows[:1]}"
    replies = ctx.driver.ask_many([jl.line_episode(i, N, mno, jssp, ep.actions[r]) for r, i in enumerate(insts)])
    for r, i in enumerate(insts):
        jl.compare_row(ctx, t, i, N, mno, jssp, ep.actions[r], ep.masks[r], ep.done[r], ep.times[r], None, None,
                       parse_fields(replies[r]), what=what, observables=("mask", "done", "time"), real_broke=why)
    ctx.count(f"{t}.broken-episodes")


CLAUSE = {1: "once-eligible-duration", 2: "job-order", 3: "machine-overlap", 4: "makespan"}


# ------------------------------------------------------------------------------------------------
# C07: valid schedules with the reported makespan
# ------------------------------------------------------------------------------------------------
def check_schedules(ctx, jssp: bool):
    t = tag(jssp)
    total = ctx.budget(80, 3000)
    n = 0
    while n < total:
        B = ctx.rng.choice([1, 2, 3, 5])
        mno = ctx.rng.random() < 0.5
        insts = make_batch(ctx, jssp, B)
        env, ep, N, style = drive(ctx, jssp, mno, insts, extra_pad=ctx.rng.choice([0, 0, 2]),
                                  n_extra=ctx.rng.choice([0, 0, 1, 3]))
        n += len(insts)
        count_dist(ctx, t, insts, N, mno, style, ep)
        if ep.error or ep.empty_mask_rows:
            ctx.violation(f"{t}:episode-broke", f"real env stopped: {ep.error or 'empty mask row'}",
                          {"insts": insts, "N": N, "mask_no_ops": mno, "actions": ep.actions})
            broken_episode(ctx, t, jssp, mno, insts, N, ep, "C07 stream")
            continue
        rew, verdicts = spec_verdicts(ctx, env, insts, N, ep)
        replies = ctx.driver.ask_many([jl.line_episode(i, N, mno, jssp, ep.actions[r]) for r, i in enumerate(insts)])
        for r, i in enumerate(insts):
            f = parse_fields(replies[r])
            fin = ep.final(r)
            jl.compare_row(ctx, t, i, N, mno, jssp, ep.actions[r], ep.masks[r], ep.done[r], ep.times[r], fin, rew[r], f,
                           what="C07 stream", ready=ep.ready[r])
            # op_is_ready beyond the INIT_FINISH filler: an operation is reported ready although its job predecessor
            # is not even scheduled (model and code agree; Lean: Fjsp.isReady_wrong_beyond_sentinel) — counted, not a C07 clause
            if any(tm >= jl.INIT_FINISH for tm in ep.times[r]):
                ctx.count(f"{t}.is_ready-evaluated-beyond-INIT_FINISH")
            ctx.case((t, repr(i), N, mno, tuple(ep.actions[r])), nontrivial=jl.total_ops(i) > 1)
            v = verdicts[r]
            if v.get("valid") != "1":
                k = int(v.get("fail", "0") or 0)
                ctx.violation(f"{t}:invalid-schedule:{CLAUSE.get(k, k)}",
                              "final schedule of a mask-confined episode of the real env is not a valid schedule (Lean Spec)",
                              {"inst": i, "N": N, "mask_no_ops": mno, "actions": ep.actions[r], "final": fin,
                               "reward": rew[r], "batch": insts, "row": r})
            if f.get("valid") not in (None, "1"):
                ctx.count(f"{t}.model-schedule-invalid")
            ctx.sample({"env": t, "inst": i, "N": N, "mask_no_ops": mno, "actions": ep.actions[r], "final": fin,
                        "reward": rew[r], "spec_valid": v.get("valid")})


# ------------------------------------------------------------------------------------------------
# C02: no dead ends (finished rows included), done stable, step bound
# ------------------------------------------------------------------------------------------------
def check_termination(ctx, jssp: bool):
    t = tag(jssp)
    total = ctx.budget(80, 3000)
    n = 0
    while n < total:
        B = ctx.rng.choice([1, 2, 3, 5, 8])
        mno = ctx.rng.random() < 0.5
        insts = make_batch(ctx, jssp, B)
        pad = ctx.rng.choice([0, 1, 3, 6])
        try:
            env, ep, N, style = drive(ctx, jssp, mno, insts, extra_pad=pad, n_extra=ctx.rng.choice([0, 0, 2]))
        except RuntimeError as e:
            ctx.violation(f"{t}:no-termination", f"real env: {e}", {"insts": insts, "mask_no_ops": mno})
            n += len(insts)
            continue
        n += len(insts)
        count_dist(ctx, t, insts, N, mno, style, ep)
        if ep.error:
            ctx.violation(f"{t}:assertion-in-step", f"the real env raised inside _step on a WF instance: {ep.error}",
                          {"insts": insts, "N": N, "mask_no_ops": mno, "actions": ep.actions, "step": ep.error_step})
            continue
        for (r, k) in ep.empty_mask_rows:
            ctx.violation(f"{t}:dead-end", "a row is offered no action while the batch is still running",
                          {"inst": insts[r], "N": N, "mask_no_ops": mno, "actions": ep.actions[r], "step": k,
                           "row_done": ep.done[r][k] if k < len(ep.done[r]) else None, "batch": insts, "row": r})
        replies = ctx.driver.ask_many([jl.line_episode(i, N, mno, jssp, ep.actions[r]) for r, i in enumerate(insts)])
        for r, i in enumerate(insts):
            f = parse_fields(replies[r])
            jl.compare_row(ctx, t, i, N, mno, jssp, ep.actions[r], ep.masks[r], ep.done[r], ep.times[r], None, None, f,
                           what="C02 stream", observables=("mask", "done", "time"))
            d = ep.done[r]
            ctx.case((t, repr(i), N, mno, tuple(ep.actions[r])))
            if any(d[k] == 1 and d[k + 1] == 0 for k in range(len(d) - 1)):
                ctx.violation(f"{t}:done-unstable", "a finished row became unfinished again",
                              {"inst": i, "actions": ep.actions[r], "done": d})
            if 1 not in d:
                if not ep.empty_mask_rows:
                    ctx.violation(f"{t}:not-finished", "row not finished at the end of the batch episode",
                                  {"inst": i, "actions": ep.actions[r]})
                continue
            fd = d.index(1)
            ops = jl.total_ops(i)
            acts = ep.actions[r][:fd]
            waits = acts.count(0)
            if fd != ops + waits or waits > ops:
                ctx.violation(f"{t}:step-bound",
                              f"row needed {fd} steps for {ops} operations and {waits} waits (bound: one per operation + one per wait, waits ≤ operations)",
                              {"inst": i, "N": N, "mask_no_ops": mno, "actions": ep.actions[r]})
            if mno and waits:
                ctx.violation(f"{t}:wait-offered", "mask_no_ops=True but an unfinished row was offered the wait action",
                              {"inst": i, "actions": ep.actions[r]})
            if "bound" in f and int(f["bound"]) != 2 * ops:
                ctx.disagreement(f"{t}: bound differs", {"model": f["bound"], "harness": 2 * ops})
            if fd < len(d) - 1:
                ctx.count(f"{t}.finished-rows-stepped-further")
                # a finished row must be offered exactly the wait action
                for k in range(fd, len(d)):
                    if ep.masks[r][k] != "1" + "0" * (len(ep.masks[r][k]) - 1):
                        ctx.violation(f"{t}:finished-row-mask", "a finished row is offered something else than the no-op",
                                      {"inst": i, "actions": ep.actions[r], "step": k, "mask": ep.masks[r][k]})
        ctx.sample({"env": t, "B": B, "N": N, "mask_no_ops": mno, "steps": ep.steps,
                    "first_done": [d.index(1) if 1 in d else None for d in ep.done]})
    # the WF hypothesis is necessary: an operation without eligible machine is a dead end, which the
    # code reports through its `assert` (the model's `err` flag); recorded as supporting evidence
    for _ in range(ctx.budget(3, 20)):
        sz = sizes(ctx)
        J, M = ctx.rng.choice(sz["J"]), ctx.rng.choice([2, 3])
        i = jl.gen_instance(ctx.rng, J, M, "random", jssp, sz["max_ops"])
        o = ctx.rng.randrange(jl.total_ops(i))
        for m in range(M):
            i["proc"][m][o] = 0
        i["kind"] = "nonwf-op-without-machine"
        mno = ctx.rng.random() < 0.5
        env = jl.make_env(jssp, mno)
        td0, N = jl.to_td([i])
        try:
            ep = jl.run_real(env, td0, jl.chooser(ctx.rng, "eager"), max_steps=200)
        except RuntimeError:
            ctx.count(f"{t}.nonwf.real-loops")
            continue
        f = parse_fields(ctx.driver.ask(jl.line_episode(i, N, mno, jssp, ep.actions[0])))
        real_broke = bool(ep.error) or bool(ep.empty_mask_rows)
        model_broke = "1" in f.get("err", "") or any(set(m) == {"0"} for m in f.get("masks", "").split(","))
        ctx.count(f"{t}.nonwf.real-broke={int(real_broke)}.model-broke={int(model_broke)}")
        if real_broke != model_broke:
            ctx.disagreement(f"{t}: non-WF instance: real env and model disagree on breaking",
                             {"inst": i, "actions": ep.actions[0], "real_error": ep.error, "reply": f})


# ------------------------------------------------------------------------------------------------
# C03: reward = −makespan
# ------------------------------------------------------------------------------------------------
def check_reward(ctx, jssp: bool):
    t = tag(jssp)
    total = ctx.budget(80, 3000)
    n = 0
    while n < total:
        B = ctx.rng.choice([1, 2, 4])
        mno = ctx.rng.random() < 0.5
        insts = make_batch(ctx, jssp, B)
        env, ep, N, style = drive(ctx, jssp, mno, insts, extra_pad=ctx.rng.choice([0, 2]), n_extra=ctx.rng.choice([0, 1, 4]))
        n += len(insts)
        count_dist(ctx, t, insts, N, mno, style, ep)
        if ep.error or ep.empty_mask_rows:
            broken_episode(ctx, t, jssp, mno, insts, N, ep, "C03 stream")
            continue
        rew, verdicts = spec_verdicts(ctx, env, insts, N, ep)
        replies = ctx.driver.ask_many([jl.line_episode(i, N, mno, jssp, ep.actions[r]) for r, i in enumerate(insts)])
        for r, i in enumerate(insts):
            f = parse_fields(replies[r])
            jl.compare_row(ctx, t, i, N, mno, jssp, ep.actions[r], ep.masks[r], ep.done[r], ep.times[r], None, rew[r], f,
                           what="C03 stream", observables=("reward",))
            ctx.case((t, repr(i), N, mno, tuple(ep.actions[r])), nontrivial=rew[r] != 0)
            v = verdicts[r]
            # independent recomputation: latest completion of a real operation in the real final tensors …
            if -int(v["makespan"]) != rew[r]:
                ctx.violation(f"{t}:reward-ne-makespan", "reward of the real env differs from −(latest completion time)",
                              {"inst": i, "N": N, "mask_no_ops": mno, "actions": ep.actions[r], "reward": rew[r],
                               "spec_makespan": int(v["makespan"]), "final": ep.final(r)})
            # … and from the instance data + the executed actions alone (Spec makespan of the model's schedule)
            if "makespan" in f and -int(f["makespan"]) != rew[r]:
                ctx.violation(f"{t}:reward-ne-makespan:replayed", "reward differs from the makespan recomputed from instance + actions",
                              {"inst": i, "N": N, "mask_no_ops": mno, "actions": ep.actions[r], "reward": rew[r],
                               "recomputed": int(f["makespan"])})
            ctx.sample({"env": t, "inst": i, "actions": ep.actions[r], "reward": rew[r], "spec_makespan": v.get("makespan")})


# ------------------------------------------------------------------------------------------------
# C04: a row's outcome is independent of its batch-mates and of padding
# ------------------------------------------------------------------------------------------------
def check_batch(ctx, jssp: bool):
    t = tag(jssp)
    total = ctx.budget(20, 600)
    for g in range(total):
        B = ctx.rng.choice([2, 3, 5, 8])
        mno = ctx.rng.random() < 0.5
        insts = make_batch(ctx, jssp, B)
        if ctx.rng.random() < 0.4:
            insts[ctx.rng.randrange(B)] = insts[0]  # a copy of itself among the batch-mates
        if ctx.rng.random() < 0.5:
            # very different remaining lengths in one batch: shrink some rows to a single operation per job
            k = ctx.rng.randrange(B)
            insts[k] = jl.gen_instance(ctx.rng, insts[0]["J"], insts[0]["M"], "single", jssp)
        env, ep, N, style = drive(ctx, jssp, mno, insts, extra_pad=ctx.rng.choice([0, 1, 3]), n_extra=ctx.rng.choice([0, 0, 2]))
        count_dist(ctx, t, insts, N, mno, style, ep)
        if ep.error or ep.empty_mask_rows:
            broken_episode(ctx, t, jssp, mno, insts, N, ep, "C04 batched run")
            continue
        rew = jl.real_reward(env, ep.td, ep.actions)
        # (a) every batched row equals the SOLO model run of the same instance and actions
        replies = ctx.driver.ask_many([jl.line_episode(i, N, mno, jssp, ep.actions[r]) for r, i in enumerate(insts)])
        for r, i in enumerate(insts):
            jl.compare_row(ctx, t, i, N, mno, jssp, ep.actions[r], ep.masks[r], ep.done[r], ep.times[r], ep.final(r), rew[r],
                           parse_fields(replies[r]), what="C04 batched real row vs solo model")
        # (b) … and the BATCHED model (stepBatch with its batch-global constructs) run on the whole batch
        fb = parse_fields(ctx.driver.ask(jl.line_batch(insts, N, mno, jssp, ep.actions)))
        for r, i in enumerate(insts):
            jl.compare_row(ctx, t, i, N, mno, jssp, ep.actions[r], ep.masks[r], ep.done[r], ep.times[r], ep.final(r), rew[r],
                           fb, sfx=str(r), what="C04 batched real row vs batched model")
        # (c) real solo re-run of rows with the same actions up to the row's own finishing step
        rows = list(range(B)) if ctx.tier == "thorough" else ctx.rng.sample(range(B), min(B, 3))
        for r in rows:
            d = ep.done[r]
            fin = d.index(1) if 1 in d else len(ep.actions[r])
            solo_actions = ep.actions[r][:fin]
            Ns = jl.min_N(insts[r]) if ctx.rng.random() < 0.5 else N  # also without the padding columns
            td1, _ = jl.to_td([insts[r]], Ns)
            ep1 = jl.run_real(env, td1, jl.chooser(ctx.rng, "uniform"), forced=[solo_actions])
            ctx.case((t, repr(insts[r]), N, mno, tuple(ep.actions[r]), B, r), nontrivial=B > 1)
            if fin < len(ep.actions[r]):
                ctx.count(f"{t}.rows-with-post-finish-padding")
            wit = {"inst": insts[r], "N": N, "N_solo": Ns, "mask_no_ops": mno, "batched_actions": ep.actions[r],
                   "solo_actions": solo_actions, "batch": insts, "row": r}
            if ep1.error or ep1.actions[0] != solo_actions or ep1.done[0][-1] != 1 or 1 in ep1.done[0][:-1]:
                ctx.violation(f"{t}:batch-dependence:finish-step", "solo run does not finish at the same step as inside the batch",
                              {**wit, "solo_done": ep1.done[0], "solo_error": ep1.error})
                continue
            if ep1.masks[0] != ep.masks[r][: fin + 1]:
                ctx.violation(f"{t}:batch-dependence:mask", "masks differ between solo and batched run",
                              {**wit, "solo": ep1.masks[0], "batched": ep.masks[r][: fin + 1]})
            if ep1.times[0] != ep.times[r][: fin + 1]:
                ctx.violation(f"{t}:batch-dependence:time", "clock differs between solo and batched run",
                              {**wit, "solo": ep1.times[0], "batched": ep.times[r][: fin + 1]})
            tot = jl.total_ops(insts[r])
            f1, fb_ = ep1.final(0), ep.final(r)
            cut = lambda fin_, n_: (fin_["start"][:tot], fin_["finish"][:tot],
                                    [fin_["assign"][m * n_ + o] for m in range(insts[r]["M"]) for o in range(tot)])
            if cut(f1, Ns) != cut(fb_, N):
                ctx.violation(f"{t}:batch-dependence:schedule", "final schedule differs between solo and batched (padded) run",
                              {**wit, "solo": f1, "batched": fb_})
            rs = jl.real_reward(env, ep1.td, ep1.actions)[0]
            if rs != rew[r]:
                ctx.violation(f"{t}:batch-dependence:reward", "reward differs between the solo run and the batched (padded) run",
                              {**wit, "solo_reward": rs, "batched_reward": rew[r]})
        ctx.sample({"env": t, "B": B, "N": N, "mask_no_ops": mno, "steps": ep.steps,
                    "ops": [jl.total_ops(i) for i in insts]})


# ------------------------------------------------------------------------------------------------
# C05: the mask hides no schedule the action space is meant to express; best reward = optimum
# ------------------------------------------------------------------------------------------------
def tiny_instance(ctx, jssp: bool) -> dict:
    J = ctx.rng.choice([1, 2, 2, 3])
    M = ctx.rng.choice([1, 2, 2])
    max_ops = 3 if J <= 2 else 2
    if ctx.tier != "thorough" and J == 3:
        max_ops = ctx.rng.choice([1, 2])
    kind = ctx.rng.choice(["random", "ties", "long", "unit", "huge", "sentinel"])
    i = jl.gen_instance(ctx.rng, J, M, kind, jssp, max_ops)
    return i


# the classic instance on which every non-delay schedule is sub-optimal (2 jobs × 2 machines):
# job 0 = one long operation on machine 0; job 1 = short op on machine 1, short op on machine 0, long op on machine 1
DELAY_INSTANCE = {"kind": "delay-pays", "J": 2, "M": 2, "nops": [1, 3], "proc": [[10, 0, 1, 0], [0, 1, 0, 10]]}


def check_completeness(ctx, jssp: bool):
    t = tag(jssp)
    total = ctx.budget(8, 150)
    insts = [dict(DELAY_INSTANCE)] + [tiny_instance(ctx, jssp) for _ in range(total)]
    for inst in insts:
        fb = parse_fields(ctx.driver.ask(jl.line_brute(inst)))
        semi = jl.parse_scheds(fb.get("semi", ""))
        nd = jl.parse_scheds(fb.get("nd", ""))
        key = lambda recs: ",".join(f"{o}:{m}:{s}:{f}" for (o, m, s, f) in recs)
        semi_keys = {key(r) for r in semi}
        nd_keys = {key(r) for r in nd}
        opt, optnd = int(fb["opt"]), int(fb["optnd"])
        ctx.count(f"{t}.tiny.J={inst['J']}.M={inst['M']}.ops={jl.total_ops(inst)}")
        ctx.count(f"{t}.semi-active-schedules", len(semi_keys))
        ctx.count(f"{t}.non-delay-schedules", len(nd_keys))
        # ---- mask_no_ops = False: every semi-active schedule is reachable, best reward = optimum ----
        env = jl.make_env(jssp, False)
        finals, best, expanded, dead = jl.bfs_real(env, inst)
        ctx.count(f"{t}.bfs-expanded.wait-allowed", expanded)
        for path in dead[:1]:
            ctx.violation(f"{t}:dead-end", "BFS of the real env found a state without admissible action (or _step raised)",
                          {"inst": inst, "mask_no_ops": False, "actions": path})
            ctx.disagreement(f"{t}: real env dead-ends / raises on a WF instance (the model provably does not)",
                             {"inst": inst, "mask_no_ops": False, "actions": path})
        for k in sorted(semi_keys - set(finals)):
            ctx.violation(f"{t}:mask-hides-schedule:wait-allowed",
                          "a semi-active schedule (Lean Spec enumeration) is not reachable through the real mask although waiting is allowed",
                          {"inst": inst, "schedule": k})
            break
        if best != -opt:
            ctx.violation(f"{t}:optimum-unreachable:wait-allowed",
                          "best reward reachable through the real mask differs from the brute-force optimum (mask_no_ops=False)",
                          {"inst": inst, "best_reward": best, "optimum_makespan": opt})
        # direct replay of each semi-active schedule's chronological action list through the real mask
        td0, N = jl.to_td([inst])
        for recs in semi[: ctx.budget(40, 400)]:
            acts = jl.actions_for_schedule(inst, recs, jssp)
            ep = jl.run_real(env, td0, lambda r, k, feas: feas[0], forced=[acts])
            ok = ep.error is None and len(ep.actions[0]) == len(acts) and ep.done[0][-1] == 1 and all(
                ep.masks[0][k][a] == "1" for k, a in enumerate(acts))
            ctx.case((t, repr(inst), key(recs)))
            if not ok:
                ctx.violation(f"{t}:mask-blocks-schedule:wait-allowed",
                              "the chronological action list of a semi-active schedule is not admitted by the real mask",
                              {"inst": inst, "schedule": key(recs), "actions": acts, "masks": ep.masks[0], "done": ep.done[0]})
                continue
            fin = ep.final(0)
            got = jl.sched_key(inst, fin["start"], fin["finish"], fin["assign"], N)
            if got != key(recs):
                ctx.violation(f"{t}:schedule-differs:wait-allowed", "replaying a schedule's action list gives another schedule",
                              {"inst": inst, "schedule": key(recs), "actions": acts, "got": got})
        # ---- mask_no_ops = True: exactly the non-delay schedules are reachable ----
        env1 = jl.make_env(jssp, True)
        finals1, best1, expanded1, dead1 = jl.bfs_real(env1, inst)
        ctx.count(f"{t}.bfs-expanded.no-wait", expanded1)
        for path in dead1[:1]:
            ctx.violation(f"{t}:dead-end", "BFS of the real env found a state without admissible action (or _step raised)",
                          {"inst": inst, "mask_no_ops": True, "actions": path})
        if set(finals1) != nd_keys:
            ctx.violation(f"{t}:reachable-set-ne-non-delay",
                          "with mask_no_ops=True the schedules reachable through the real mask are not exactly the non-delay schedules",
                          {"inst": inst, "only_real": sorted(set(finals1) - nd_keys)[:3], "only_spec": sorted(nd_keys - set(finals1))[:3]})
        if best1 != -optnd:
            ctx.violation(f"{t}:optimum-unreachable:non-delay-class",
                          "best reward through the real mask differs from the optimum over non-delay schedules (mask_no_ops=True)",
                          {"inst": inst, "best_reward": best1, "non_delay_optimum": optnd})
        if best1 != -opt:
            ctx.count(f"{t}.instances-where-no-wait-mask-hides-the-optimum")
            documented = set(finals1) == nd_keys and best1 == -optnd and optnd > opt and best == -opt
            if documented:
                # the one documented cause: the reachable set is EXACTLY the non-delay class (so the mask hides nothing
                # of that class), its optimum is reached, and the true optimum — reached with mask_no_ops=False — is
                # simply not a non-delay schedule
                ctx.violation(f"{t}:no-wait-mask-hides-optimum:reachable-set-is-exactly-the-non-delay-class",
                              "mask_no_ops=True (the default): every schedule reachable through the mask is non-delay and the "
                              "optimal schedule is not among them, so the best reachable reward is below the brute-force optimum",
                              {"inst": inst, "best_reward_through_mask": best1, "optimum_makespan": opt,
                               "non_delay_optimum": optnd, "reached_with_mask_no_ops_false": True})
            else:
                ctx.violation(f"{t}:optimum-unreachable:no-wait:other-cause",
                              "mask_no_ops=True: the best reward through the real mask is below the optimum for a reason other "
                              "than the non-delay restriction (reachable set ≠ non-delay class, or its optimum is missed, or "
                              "the optimum is missed even with waiting allowed)",
                              {"inst": inst, "best_reward_through_mask": best1, "optimum_makespan": opt,
                               "non_delay_optimum": optnd, "best_with_wait_allowed": best,
                               "reachable_equals_non_delay": set(finals1) == nd_keys})
        ctx.case((t, repr(inst), "bfs"))
        ctx.sample({"env": t, "inst": inst, "semi_active": len(semi_keys), "non_delay": len(nd_keys), "optimum": opt,
                    "non_delay_optimum": optnd, "reachable_wait_allowed": len(finals), "reachable_no_wait": len(finals1)})


# ------------------------------------------------------------------------------------------------
# registration
# ------------------------------------------------------------------------------------------------
def _exists(mod: str) -> bool:
    return os.path.exists(os.path.join(LEAN_DIR, mod.replace(".", "/") + ".lean"))


def _reg(prop, jssp, fn, module, theorems, extra=()):
    modules = [module] if isinstance(module, str) else list(module)
    have = all(_exists(m) for m in modules)
    ths = theorems if have else []
    register(Unit(prop, tag(jssp), (lambda ctx, _fn=fn, _j=jssp: _fn(ctx, _j)), drivers=["drv_fjsp"],
                  lean_modules=modules if have else [], theorems=ths,
                  assumptions=[MODEL_NOTE, WF_NOTE, COVER_NOTE, *extra] + ([] if ths else [NO_THM])))


def _ns(j):
    return "Rl4co.Jssp" if j else "Rl4co.Fjsp"


for _j in (False, True):
    _n = _ns(_j)
    _reg("C07", _j, check_schedules, ["Rl4co.Props.C07.Fjsp", "Rl4co.Props.C07.FjspFeatures", "Rl4co.Props.C02.FjspLoop"],
         [Theorem(f"{_n}.schedule_valid", "proved",
                  "every finished mask-confined episode (any WF instance, waits, mask_no_ops on/off, padding) leaves a "
                  "Spec.ValidSchedule whose makespan is −reward"),
          Theorem("Rl4co.Fjsp.reachable_inv", "proved",
                  "state invariant of every reachable state: next_op inside its job, op scheduled iff before next_op, "
                  "exactly one eligible machine with the exact duration, busy_until ≥ finish of every op on the machine, "
                  "no overlap per machine / per job, no assertion fired"),
          Theorem("Rl4co.Fjsp.time_monotone", "proved", "the clock never runs backwards"),
          Theorem("Rl4co.Fjsp.filler_of_reach", "proved", "unscheduled operations keep finish = INIT_FINISH (extracted), start = 0"),
          Theorem("Rl4co.Fjsp.release_guard_redundant_below_sentinel", "proved",
                  "while time < INIT_FINISH the release test with and without the `job_in_process &` guard agree on reachable states"),
          Theorem("Rl4co.Fjsp.release_guard_needed_beyond_sentinel", "proved",
                  "beyond INIT_FINISH the unguarded test skips an unscheduled operation (why C07 needs the guard for all horizons)"),
          Theorem("Rl4co.Fjsp.isReady_iff_below_sentinel", "proved",
                  "op_is_ready (td['is_ready'], compared at every step): below INIT_FINISH it is 'unscheduled and predecessor complete'"),
          Theorem("Rl4co.Fjsp.isReady_wrong_beyond_sentinel", "proved",
                  "beyond INIT_FINISH op_is_ready reports an operation ready whose predecessor is not scheduled (real code agrees)"),
          Theorem("Rl4co.Fjsp.valid_schedule_exists", "proved", "Spec sanity: every WF instance has a valid schedule"),
          Theorem("Rl4co.Fjsp.makespan_unique", "proved", "Spec sanity: the makespan is determined by the schedule"),
          Theorem("Rl4co.Fjsp.valid_shift", "proved", "Spec sanity: delaying the whole schedule keeps validity, makespan + c"),
          Theorem("Rl4co.Fjsp.job_finish_strict", "proved", "Spec sanity: k-th operation of a job completes at time ≥ k")])
    _reg("C02", _j, check_termination, ["Rl4co.Props.C02.Fjsp", "Rl4co.Props.C02.FjspLoop", "Rl4co.Props.C18.FjspGenWF"],
         [Theorem(f"{_n}.mask_nonempty", "proved", "every reachable state, finished or not, offers an action (mask_no_ops on and off)"),
          Theorem(f"{_n}.done_stable", "proved", "a step on a finished row is the identity, so done is absorbing"),
          Theorem(f"{_n}.steps_le", "proved", "an unfinished mask-confined run has at most 2·#operations steps"),
          Theorem("Rl4co.Fjsp.steps_eq", "proved",
                  "a finished run has exactly one scheduling step per operation, plus at most one wait per operation"),
          Theorem("Rl4co.Fjsp.transits_le", "proved",
                  "over a whole episode the executions of _transit_to_next_time (waits + while-loop iterations) are ≤ #operations"),
          Theorem("Rl4co.Fjsp.loop_terminates", "proved",
                  "the `while step_complete` loop comes to rest within the model's fuel (M+1) and the code's assert never fires"),
          Theorem("Rl4co.Fjsp.mask_of_done", "proved", "a finished row is offered exactly the wait action"),
          Theorem("Rl4co.Fjsp.gen_wf_jssp" if _j else "Rl4co.Fjsp.gen_wf_fjsp", "proved",
                  "generator post-conditions (Gen.Sched: op_index, *_operation_eligible) ⇒ WF: generated instances satisfy the "
                  "hypothesis of every environment theorem"),
          Theorem("Rl4co.Fjsp.read_wf_jssp" if _j else "Rl4co.Fjsp.read_wf_fjsp", "proved",
                  "an instance written by the writer and read back by the repo's reader (Gen.Persist *_read_write) is WF"),
          Theorem("Rl4co.Fjsp.gen_fjsp_solvable", "proved",
                  "the chain spelled out: on a generated FJSP instance every reachable state offers an action and no assert fires")])
    _reg("C03", _j, check_reward, "Rl4co.Props.C03.Fjsp",
         [Theorem(f"{_n}.reward_eq_makespan", "proved", "reward = −Spec.makespan of the recorded schedule, in every state"),
          Theorem("Rl4co.Fjsp.neg_reward_is_latest_completion", "proved",
                  "−reward bounds every real operation's completion time and is attained")])
    _reg("C04", _j, check_batch, ["Rl4co.Props.C04.Fjsp", "Rl4co.Props.C04.FjspPadding", "Rl4co.Props.C04.FjspEpisode"],
         [Theorem(f"{_n}.stepBatch_eq_map_step", "proved",
                  "the batched _step (no_op.any() branch, release applied to all rows, while step_complete.any()) equals the "
                  "row-wise solo step on rows in reachable states of arbitrary WF instances"),
          Theorem("Rl4co.Fjsp.batchedWhile_eq_map_soloWhile", "proved", "generic: batched masked while-loop = map of per-row while-loops"),
          Theorem("Rl4co.Fjsp.pad_noop", "proved", "stepping a finished row is offered only as the wait action and changes nothing"),
          Theorem("Rl4co.Fjsp.repad_step", "proved", "mask/step/reset do not depend on the number of padded columns or on pad_mask"),
          Theorem("Rl4co.Fjsp.repad_reward", "proved", "the reward is the same for any padding width of a WF instance"),
          Theorem("Rl4co.Fjsp.revar_run", "proved",
                  "the CONTENT of padded columns is irrelevant: an instance and a variant with other width / pad_mask / processing "
                  "times outside the job ranges run in lock step (same masks, clock, done, schedule)"),
          Theorem("Rl4co.Fjsp.revar_reward", "proved", "… and have the same reward when both are WF"),
          Theorem("Rl4co.Fjsp.runBatch_eq_runRows", "proved",
                  "∀ batch ∀ step ∀ row: a whole mask-confined batched episode equals stepping every row alone")],
         ["batched rows are compared with the per-instance model, with the batched model (stepBatch) and with a real solo re-run "
          "(with and without the padded columns)"])
    _reg("C05", _j, check_completeness, ["Rl4co.Props.C05.Fjsp", "Rl4co.Props.C05.FjspClass", "Rl4co.Props.C05.FjspOptimum",
                                           "Rl4co.Props.C05.FjspActive"],
         [Theorem(f"{_n}.optimum_reachable", "proved",
                  "mask_no_ops=False, unconditional: a best makespan reachable through the mask exists and equals the minimum "
                  "makespan over ALL valid schedules (left-shift built by the environment: Fjsp.dominating_run)"),
          Theorem(f"{_n}.reachable_iff_wait_allowed", "proved",
                  "mask_no_ops=False: a schedule is reachable ⇔ it is valid and event-aligned"),
          Theorem(f"{_n}.reachable_iff_no_wait", "proved",
                  "mask_no_ops=True: a schedule is reachable ⇔ it is valid, event-aligned and non-delay"),
          Theorem(f"{_n}.active_schedule_reachable", "proved",
                  "mask_no_ops=False reaches every valid ACTIVE schedule (non-delay ⇒ active ⇒ semi-active ⇒ event-aligned proved)"),
          Theorem(f"{_n}.best_reachable_eq_nondelay_optimum", "proved",
                  "mask_no_ops=True: the best makespan through the mask exists and is exactly the optimum of the non-delay class"),
          Theorem("Rl4co.Fjsp.nondelay_optimum_gap", "proved", "on exDelay the non-delay optimum is ≥ 21 while a valid schedule of makespan 12 exists"),
          Theorem("Rl4co.Fjsp.reachMk_iff_no_wait", "proved", "reachable makespans = makespans of valid event-aligned non-delay schedules"),
          Theorem("Rl4co.Fjsp.reachable_nondelay", "proved", "mask_no_ops=True: every finished episode yields a non-delay schedule"),
          Theorem("Rl4co.Fjsp.best_reachable_eq_optimum", "proved",
                  "mask_no_ops=False: r is the least reachable makespan ⇔ r is the least makespan of a valid schedule"),
          Theorem(f"{_n}.schedule_reachable", "partial",
                  "mask_no_ops=False: every valid schedule whose operations start at event times (every semi-active one) is "
                  "reproduced exactly by a mask-confined finished episode with reward −makespan"),
          Theorem(f"{_n}.nondelay_schedule_reachable", "partial",
                  "mask_no_ops=True: every valid non-delay schedule (operations starting at event times) is reproduced exactly "
                  "by a mask-confined finished episode"),
          Theorem("Rl4co.Fjsp.opt_reachable_partial", "partial",
                  "the part of opt_reachable_statement that holds: extra hypotheses mask_no_ops=False and EventAligned σ"),
          Theorem(f"{_n}.optimum_hidden_when_waits_masked", "proved",
                  "¬ opt_reachable_statement: with mask_no_ops=True (default) instance exDelay has a valid schedule of "
                  "makespan 12 but every finished mask-confined episode has makespan ≥ 21")],
         ["schedule classes: with mask_no_ops=False every semi-active schedule is reachable (hence the optimum); "
          "with mask_no_ops=True exactly the non-delay schedules are reachable"])
