"""loglik units (C11, C13): the decoding loop, log-likelihood bookkeeping and beam search of rl4co
(`rl4co/utils/decoding.py`, `ConstructivePolicy.forward`, `ops.calculate_entropy`, the PPO ratio) against
the Lean models `Rl4co/Decode/Strategy.lean`, `Rl4co/Decode/Beam.lean` and the spec `Rl4co/Spec/Loglik.lean`.

The network is an oracle (DESIGN §3.4): real policies with random weights (eval mode, tiny sizes) are run
with the choke points wrapped (`loglik_trace.Recorder`); the recorded per-step log-prob matrices, masks,
selections, done flags and top-k outcomes are replayed through the Lean model (`drv_loglik`) and everything
downstream of the oracle is compared: actions, per-step log-probs (bit-exact), log-likelihood, entropy,
beam parents / scores (bit-exact, float32 addition is modelled), back-tracked sequences, best selection.
Independently the property is judged on the real outcomes: the Lean `Spec.Loglik.specLL` on the recorded
rows and the returned actions, teacher forcing (`policy(td, env, actions=…)`) of every returned sequence,
distinctness of beams, validity of every top-k / arg-max outcome.
"""
from __future__ import annotations

import math
from typing import Dict, List, Optional, Tuple

import rl
from common import Theorem, Unit, register
from leanio import parse_fields
from loglik_trace import Recorder, Trace, dec_lp, enc_lp, flat, flat_i
from rl import torch

# ------------------------------------------------------------------------------------------------------
# policies / environments
# ------------------------------------------------------------------------------------------------------

SMALL = dict(embed_dim=32, num_encoder_layers=1, num_heads=2)


def mk_env(name: str, n: int):
    from rl4co.envs import get_env

    if name in ("fjsp", "jssp"):
        return get_env(name, generator_params=dict(num_jobs=max(2, n // 2), num_machines=2))
    if name == "smtwtp":
        return get_env(name, generator_params=dict(num_job=n))
    if name == "mtvrp":
        return get_env(name, generator_params=dict(num_loc=n, variant_preset="all"))
    return get_env(name, generator_params=dict(num_loc=n))


def mk_policy(kind: str, env_name: str, ctor: Optional[dict] = None):
    if kind == "am":
        from rl4co.models.zoo.am import AttentionModelPolicy

        return AttentionModelPolicy(env_name=env_name, **SMALL, **(ctor or {}))
    if kind == "ham":
        from rl4co.models.zoo.ham import HeterogeneousAttentionModelPolicy

        return HeterogeneousAttentionModelPolicy(env_name=env_name, **SMALL, **(ctor or {}))
    if kind == "matnet":
        from rl4co.models.zoo.matnet import MatNetPolicy

        return MatNetPolicy(env_name=env_name, **SMALL)
    if kind == "polynet":
        from rl4co.models.zoo.polynet.policy import PolyNetPolicy

        return PolyNetPolicy(env_name=env_name, k=3, **SMALL)
    if kind == "symnco":
        from rl4co.models.zoo.symnco import SymNCOPolicy

        return SymNCOPolicy(env_name=env_name, **SMALL, **(ctor or {}))
    if kind == "l2d":
        from rl4co.models.zoo.l2d import L2DPolicy

        return L2DPolicy(env_name=env_name, embed_dim=32, num_encoder_layers=1)
    if kind == "ptrnet":
        from rl4co.models.zoo.ptrnet import PointerNetworkPolicy

        return PointerNetworkPolicy(env_name=env_name, embed_dim=32, hidden_dim=32)
    if kind == "mdam":
        from rl4co.models.zoo.mdam import MDAMPolicy

        return MDAMPolicy(env_name=env_name, **SMALL)
    raise KeyError(kind)


# (policy kind, env) pairs going through ConstructivePolicy.forward
CORE = [("am", e) for e in ("tsp", "cvrp", "op", "pctsp", "pdp", "sdvrp")]
ZOO = [("ham", "pdp"), ("matnet", "atsp"), ("polynet", "tsp"), ("symnco", "tsp"), ("l2d", "fjsp"), ("l2d", "jssp")]
MORE = [("am", e) for e in ("cvrptw", "spctsp", "smtwtp", "mdcpdp", "mtvrp")]
DYNAMIC_EMB = {("am", "sdvrp")}  # AM dynamic embedding is not static (env_embeddings/dynamic.py); jssp/fjsp are not constructible with AM
NO_MULTISTART = {("l2d", "fjsp"), ("l2d", "jssp")}  # no select_start_nodes for the scheduling envs
OWN_LOOP = [("ptrnet", "tsp"), ("mdam", "tsp"), ("mdam", "cvrp")]

_CACHE: Dict[tuple, tuple] = {}


def setup(ctx, kind: str, env_name: str, n: int, ctor: Optional[dict] = None):
    """(env, policy) with weights drawn from the unit's PRNG; cached per (kind, env, n, constructor options).
    `ctor`: decoding options given at policy *construction* (temperature, tanh_clipping, mask_logits), kind 'am' only."""
    key = (kind, env_name, n, tuple(sorted((ctor or {}).items())))
    if key not in _CACHE:
        torch.manual_seed(ctx.rng.getrandbits(31))
        env = mk_env(env_name, n)
        pol = mk_policy(kind, env_name, ctor).eval() if ctor else mk_policy(kind, env_name).eval()
        _CACHE[key] = (env, pol)
    return _CACHE[key]


def draw_opts(rng, p_default=0.3) -> dict:
    """decoding options passed as call kwargs (class (a) of the strengthening round): non-default temperature,
    top-k, top-p, tanh clipping on/off"""
    if rng.random() < p_default:
        return {}
    o = {}
    if rng.random() < 0.6:
        o["temperature"] = rng.choice([0.5, 0.8, 1.5, 2.5])
    if rng.random() < 0.3:
        o["tanh_clipping"] = rng.choice([0, 3.0, 10.0])
    if rng.random() < 0.3:
        o["top_k"] = rng.choice([1, 2, 3])
    if rng.random() < 0.3:
        o["top_p"] = rng.choice([0.3, 0.7, 0.95])
    return o


def draw_ctor(rng) -> dict:
    """decoding options given when the policy is constructed (as PPO relies on: its evaluate call passes no kwargs)"""
    o = {"temperature": rng.choice([0.6, 1.7])}
    if rng.random() < 0.5:
        o["tanh_clipping"] = rng.choice([0, 4.0])
    return o


def expected_opts(pol, opts: dict, ctor: Optional[dict] = None) -> dict:
    """what was REQUESTED: a call kwarg, else the constructor argument the harness passed, else the class default (the policy's
    own attributes are only consulted for defaults the harness did not set: `mask_logits` defaults to True for every bundled policy)"""
    c = ctor or {}
    return {"temperature": opts.get("temperature", c.get("temperature", pol.temperature)), "top_p": opts.get("top_p", 0.0), "top_k": opts.get("top_k", 0),
            "tanh_clipping": opts.get("tanh_clipping", c.get("tanh_clipping", pol.tanh_clipping)),
            "mask_logits": opts.get("mask_logits", c.get("mask_logits", True))}


def ref_logprobs(logits: torch.Tensor, mask: Optional[torch.Tensor], o: dict) -> torch.Tensor:
    """independent reference of the masked, normalised step distribution (no top-k / top-p): tanh clip → mask → /T → log-softmax"""
    x = logits.clone().to(torch.float32)
    if o["tanh_clipping"] and o["tanh_clipping"] > 0:
        x = torch.tanh(x) * o["tanh_clipping"]
    if o["mask_logits"] and mask is not None:
        x = x.masked_fill(~mask, float("-inf"))
    x = x / o["temperature"]
    return torch.log_softmax(x, dim=-1)


def judge_policy_steps(ctx, tag: str, tr: Trace, want: dict, sel: Optional[List[torch.Tensor]] = None, prefix: str = "") -> bool:
    """C10 / C11 / C01 judged on the REAL policy, per step, on the recorded distribution (the output of process_logits) and the
    recorded environment mask: masked actions have probability exactly 0, the distribution is normalised, it is the masked
    softmax of the decoder's logits under the requested options, and the action emitted is offered by the mask (so the episode
    is a mask-confined run, which the environment families' C01 theorems turn into a feasible solution)."""
    if not want.get("mask_logits", True):
        return True
    filt = want.get("top_k", 0) > 0 or want.get("top_p", 0.0) > 0
    sel = sel if sel is not None else [c["selected"] for c in tr.sel_calls]
    for t, lp in enumerate(tr.lp):
        m = tr.amask[t]
        if m is None:
            ctx.violation(prefix + "policy-logits-not-masked", "the policy hands no mask to process_logits although masking of the output logits was requested "
                          "(constructor / call option mask_logits=True): infeasible actions get probability mass", {"case": tag, "step": t})
            return False
        bad = torch.isfinite(lp) & ~m
        if bool(bad.any()):
            r, a = [int(v) for v in bad.nonzero()[0]]
            ctx.violation(prefix + "policy-masked-action-has-mass", "a masked (infeasible) action has non-zero probability in the policy's step distribution",
                          {"case": tag, "step": t, "row": r, "action": a, "logp": float(lp[r, a]), "mask_row": m[r].int().tolist()})
            return False
        z = torch.logsumexp(lp, dim=-1)
        if bool((z.abs() > 1e-4).any()):
            ctx.violation(prefix + "policy-step-distribution-not-normalised", "a step distribution of the policy does not sum to one", {"case": tag, "step": t, "logsumexp": tl(z)})
            return False
        if t < len(sel) and sel[t] is not None and sel[t].shape[0] == m.shape[0]:
            ok = m.gather(1, sel[t].reshape(-1, 1)).reshape(-1)
            if not bool(ok.all()):
                r = int((~ok).nonzero()[0])
                ctx.violation(prefix + "policy-infeasible-action-emitted", "the policy emitted an action its environment mask does not offer (the episode is not a mask-confined run)",
                              {"case": tag, "step": t, "row": r, "action": int(sel[t][r]), "mask_row": m[r].int().tolist()})
                return False
        if not filt and t < len(tr.logits_in):
            ref = ref_logprobs(tr.logits_in[t], m, want)
            fin = torch.isfinite(ref)
            if not torch.equal(fin, torch.isfinite(lp)) or (bool(fin.any()) and float((ref[fin] - lp[fin]).abs().max()) > 1e-4):
                ctx.violation(prefix + "step-distribution-not-masked-softmax-of-logits",
                              "the step distribution the log-likelihood is gathered from is not the masked, normalised softmax of the decoder's logits under the requested "
                              "options (temperature / tanh clipping / mask_logits)", {"case": tag, "step": t, "requested": want})
                return False
    ctx.count("policy-steps-judged(C10/C01 on the recorded distribution)")
    return True


def check_opts(ctx, tag: str, phase: str, tr: Trace, pol, opts: dict, ctor: Optional[dict] = None) -> bool:
    """every process_logits call of the decode saw the options that were requested (policy-level or call-level)"""
    want = expected_opts(pol, opts, ctor)
    for t, got in enumerate(tr.pl_opts):
        bad = {k: (want[k], got[k]) for k in want if got[k] != want[k] and not (k == "top_k" and got[k] == min(want[k], tr.lp[t].shape[-1]))}
        if bad:
            ctx.violation("decoding-option-not-applied:" + phase + ":" + ",".join(sorted(bad)),
                          f"the {phase} call computes its step distributions with other decoding options than requested "
                          "(temperature / top-k / top-p / tanh clipping / mask_logits), so its log-probs are not those of the distribution the actions "
                          "were (or are to be) drawn from", {"case": tag, "step": t, "requested→used": {k: list(v) for k, v in bad.items()}})
            return False
    return True


def fresh_td(ctx, env, B: int):
    torch.manual_seed(ctx.rng.getrandbits(31))
    return env.reset(batch_size=[B])


def short(x, cap=400):
    s = str(x)
    return s if len(s) <= cap else s[:cap] + "…"


def tl(t):
    return t.detach().tolist() if isinstance(t, torch.Tensor) else t


# ------------------------------------------------------------------------------------------------------
# replay of one recorded decode through the Lean model
# ------------------------------------------------------------------------------------------------------


def sum_tol(vals: List[float]) -> float:
    """tolerance for a float32 sum of `vals` computed in an unspecified order"""
    mag = sum(abs(v) for v in vals if math.isfinite(v))
    return (len(vals) + 2) * 2.0 ** -22 * max(1.0, mag)


def term_table(lp: torch.Tensor) -> torch.Tensor:
    """the elementwise part of `calculate_entropy` (float32, as the code computes it): `logprobs.exp() * logprobs`;
    the leading minus sign is the model's (`Params.entropyNegated`, extracted)"""
    l = torch.nan_to_num(lp, nan=0.0)
    return l.exp() * l


def decode_request(tr: Trace, *, store_all: bool, max_steps: int, eval_actions: Optional[torch.Tensor] = None,
                   sel: Optional[List[torch.Tensor]] = None, llmask: Optional[torch.Tensor] = None) -> Tuple[str, dict]:
    """Build the `loglik.decode` line from a recorded `ConstructivePolicy.forward` call."""
    pre = tr.pre
    B, N = pre["B"], pre["N"]
    T = len(tr.steps)
    multi = pre["n_forced"] > 0
    start = flat_i(pre["start"]) if multi else []
    done_blocks = [pre["done"]] + tr.env_done[pre["n_env_steps"]:]
    assert len(done_blocks) == T + 1, (len(done_blocks), T)
    done = [int(v) for blk in done_blocks for v in blk.tolist()]
    if sel is None:
        sel = [c["selected"] for c in tr.sel_calls]
    assert len(sel) == T and len(tr.lp) == T, (len(sel), len(tr.lp), T)
    sel_flat = [a for s in sel for a in flat_i(s)]
    lp_flat = [v for m in tr.lp for v in flat(m)]
    k, (lp_tok,) = enc_lp([lp_flat])
    am = []
    for t in range(T):
        m = tr.amask[t]
        am += [1] * (B * N) if m is None else [int(v) for v in m.flatten().tolist()]
    L = T + (1 if multi else 0)
    g = tr.gll[0] if tr.gll else None
    # `llmask`: the td["mask"] the harness put into the instance (steps flagged irrelevant), not the recorded argument
    lm = [int(v) for v in llmask.flatten().tolist()] if llmask is not None else []
    terms = [v for m in tr.lp for v in flat(term_table(m))]
    k2, (term_tok,) = enc_lp([terms])
    ea = []
    if eval_actions is not None:
        for r in range(B):
            row = flat_i(eval_actions[r])[:T]
            ea += row + [0] * (T - len(row))
    hd = [B, N, T, int(store_all), int(multi), max_steps, int(llmask is not None), int(eval_actions is not None)]
    line = ("loglik.decode " + " ".join(map(str, hd)) + " | " + " ".join(map(str, start)) + " | "
            + " ".join(map(str, done)) + " | " + " ".join(map(str, sel_flat)) + " | " + " ".join(lp_tok) + " | "
            + " ".join(map(str, am)) + " | " + " ".join(map(str, lm)) + " | " + " ".join(term_tok) + " | "
            + " ".join(map(str, ea)))
    return line, {"B": B, "N": N, "T": T, "L": L, "k": k, "k2": k2, "multi": multi}


def parse_rows(s: str, conv) -> List[list]:
    if s == "":
        return []
    return [[conv(x) for x in row.split(",")] if row != "" else [] for row in s.split(";")]


def ask_decode(ctx, line: str, meta: dict) -> dict:
    rep = ctx.driver.ask(line)
    f = parse_fields(rep)
    if "steps" not in f:
        raise RuntimeError(f"driver: {rep[:200]} for {line[:200]}")
    k, k2 = meta["k"], meta["k2"]
    return {
        "steps": int(f["steps"]), "alldone": f["alldone"] == "1", "safe": f["safe"] == "1",
        "acts": parse_rows(f.get("acts", ""), int),
        "vals": parse_rows(f.get("vals", ""), lambda x: dec_lp(x, k)),
        "ll": [dec_lp(x, k) for x in f["ll"].split(";")],
        "ll_raw": f["ll"].split(";"), "spec_raw": f["spec"].split(";"),
        "spec": [dec_lp(x, k) for x in f["spec"].split(";")],
        "ent": [None if x == "x" else dec_lp(x, k2) for x in f["ent"].split(";")],
    }


def compare_decode(ctx, tag: str, tr: Trace, out: dict, model: dict, meta: dict, *, store_all: bool,
                   return_sum: bool, picked: Optional[List[int]] = None, expect_steps: Optional[int] = None):
    """model vs real code for one decode; `picked` = rows kept by best-selection (else all rows)."""
    B, T, L = meta["B"], meta["T"], meta["L"]
    wit = {"case": tag}
    if model["steps"] != (T if expect_steps is None else expect_steps):
        ctx.disagreement("decode: number of loop passes", {**wit, "model": model["steps"], "code": T})
        return
    done_end = bool(torch.stack([tr.pre["done"]] + tr.env_done[tr.pre["n_env_steps"]:])[-1].all())
    if model["alldone"] != done_end:
        ctx.disagreement("decode: all-done flag at loop exit", {**wit, "model": model["alldone"], "code": done_end})
    if not model["safe"]:
        ctx.violation("loop-evaluated-all-false-mask-row", "a batch row with an all-False action mask was fed to the decoder/softmax", wit)
    code_acts = tl(tr.post["stack_actions"])
    if model["acts"] != code_acts:
        ctx.disagreement("decode: stacked actions", {**wit, "model": short(model["acts"]), "code": short(code_acts)})
        return
    rows = list(range(B)) if picked is None else picked
    ret_acts = tl(out["actions"]) if "actions" in out else None
    if ret_acts is not None and [model["acts"][r] for r in rows] != ret_acts:
        ctx.disagreement("decode: returned actions", {**wit, "model": short([model["acts"][r] for r in rows]), "code": short(ret_acts)})
        return
    # model ll == Lean spec on the same recorded rows (theorem ll_eq_sum_gather, executed)
    if model["ll_raw"] != model["spec_raw"]:
        ctx.disagreement("decode: model log-likelihood ≠ Spec.specLL on the recorded oracle", {**wit, "model": short(model["ll_raw"]), "spec": short(model["spec_raw"])})
    ll_code = out["log_likelihood"]
    for j, r in enumerate(rows):
        vals = model["vals"][r]
        if return_sum:
            c = float(ll_code[j])
            if not abs(c - model["spec"][r]) <= sum_tol(vals):
                ctx.violation("ll-not-sum-of-gathered-logprobs",
                              "returned log_likelihood differs from Σ_t logp_t[a_t] (forced/masked steps 0) of the recorded per-step distributions",
                              {**wit, "row": r, "code": c, "spec": model["spec"][r], "per_step": vals, "actions": model["acts"][r]})
                return
        else:
            c = [float(v) for v in ll_code[j].tolist()]
            if c != vals:
                ctx.violation("per-step-ll-not-gathered-logprobs",
                              "returned per-step log-likelihood differs from logp_t[a_t] of the recorded per-step distributions",
                              {**wit, "row": r, "code": c, "spec": vals, "actions": model["acts"][r]})
                return
    if store_all and "entropy" in out:
        for j, r in enumerate(rows):
            m = model["ent"][r]
            c = float(out["entropy"][j])
            if m is None or not abs(c - m) <= 1e-5 * max(1.0, abs(m)) * max(1, meta["N"] * L) ** 0.5:
                ctx.disagreement("decode: entropy", {**wit, "row": r, "model": m, "code": c})
                return


# ------------------------------------------------------------------------------------------------------
# C11
# ------------------------------------------------------------------------------------------------------


class Sub:
    """collects violations raised by a helper without forwarding them (the caller decides)"""

    def __init__(self, ctx):
        self.ctx = ctx
        self.violations = []

    def violation(self, key, what, witness):
        self.violations.append((key, what, witness))

    def count(self, *a):
        self.ctx.count(*a)

    def note(self, msg):
        self.ctx.note(msg)


DECODE_TYPES = ["greedy", "sampling", "multistart_greedy", "multistart_sampling"]


SAFETY_CAP = 300  # `max_steps` handed to every policy call of the harness: far above every episode length of the sweeps, and it
# keeps a run finite when the code under test stops masking (an unmasked TSP policy may never finish)


def run_policy(pol, env, td, **kw):
    """Run the real policy with the choke points wrapped.  Returns (trace, out, exception-or-None)."""
    kw.setdefault("max_steps", SAFETY_CAP)
    rec = Recorder(env)
    out, err = None, None
    with torch.no_grad():
        tr = rec.__enter__()
        try:
            out = pol(td.clone(), env, phase="test", **kw)
        except Exception as e:  # noqa: BLE001  (the real code raised; judged by the caller)
            err = e
        finally:
            rec.__exit__(None, None, None)
    tr.out = out
    return tr, out, err


def flipped_start_fn(td_, env_, n):
    """a custom `select_start_nodes_fn`: the environment's own nodes, copies in reverse order (still each instance's own,
    feasible and distinct nodes — but not what either built-in rule returns for a given row)"""
    base = env_.select_start_nodes(td_, num_starts=n)
    return base.view(n, td_.batch_size[0]).flip(0).reshape(-1)


def check_start_rule(ctx, tag: str, key: str, tr: Trace, env, td, custom: bool):
    """the forced first moves are those of the rule the hook is documented to apply: the custom `select_start_nodes_fn` when
    given, else the ENVIRONMENT's `select_start_nodes` (per-environment overrides included) — recomputed independently"""
    if tr.pre is None or tr.pre.get("start") is None:
        return
    k = tr.pre["B"] // td.batch_size[0]
    try:
        want = flipped_start_fn(td, env, k) if custom else env.select_start_nodes(td, num_starts=k)
    except Exception:  # noqa: BLE001  (the rule itself fails: C12's)
        return
    got = tr.pre["start"]
    ctx.count("start-rule-checked" + (":custom-fn" if custom else ""))
    if want.shape != got.shape or not torch.equal(want.to(got.dtype), got):
        ctx.violation(key, "the forced first moves are not those of " + ("the given select_start_nodes_fn" if custom else
                      "the environment's own select_start_nodes (a per-environment override is bypassed)"),
                      {"case": tag, "forced": flat_i(got), "rule": flat_i(want), "num_starts": k})


def infeasible_forced_start(tr: Trace, td) -> bool:
    """Was some forced (multi-start / beam) first move masked in the reset state?  (C12's `starts_feasible`.)"""
    if tr.pre is None or tr.pre.get("start") is None:
        return False
    start = flat_i(tr.pre["start"])
    B0 = td.batch_size[0]
    m = td["action_mask"]
    return any(not bool(m[i % B0, a]) for i, a in enumerate(start))


def from_checker(err: BaseException) -> bool:
    import traceback

    return any(fr.name == "check_solution_validity" for fr in traceback.extract_tb(err.__traceback__))


_NOTED = set()


def run_policy_guarded(ctx, pol, env, td, tag, raise_key, **kw):
    """`run_policy`; if the environment's *solution checker* raises inside the call, the decoding bookkeeping is
    still compared: the call is repeated (same generator state) with `env.check_solution = False`.
    * a forced start node that is masked in the reset state (defect of `select_start_nodes`, C12) is reported under
      its own key `<raise_key>-infeasible-forced-start:<env>`;
    * any other checker assertion is counted and noted (the verdict of an environment's checker is C06's; whether the
      decoded actions were mask-admitted is checked from the recorded masks by the caller)."""
    state = torch.get_rng_state()
    tr, out, err = run_policy(pol, env, td, **kw)
    if err is not None and isinstance(err, AssertionError) and from_checker(err):
        if infeasible_forced_start(tr, td):
            ctx.violation(f"{raise_key}-infeasible-forced-start:{env.name}",
                          "a forced first move returned by select_start_nodes is masked in the reset state; the resulting solution is infeasible "
                          f"and the environment's checker raises ({short(err, 120)})",
                          {"case": tag, "start": flat_i(tr.pre["start"]), "reset_mask": td["action_mask"].int().tolist()})
        else:
            ctx.count(f"env-checker-raised:{env.name}(repeated with the checker off)")
            if (env.name, str(err)[:40]) not in _NOTED and hasattr(ctx, "note"):
                _NOTED.add((env.name, str(err)[:40]))
                ctx.note(f"{tag}: env.check_solution_validity raised '{short(err, 80)}' on decoded actions (the checker's verdict is C06's); case repeated with the checker off")
        keep = env.check_solution
        env.check_solution = False
        torch.set_rng_state(state)
        try:
            tr, out, err = run_policy(pol, env, td, **kw)
            tr.checker_off = True
        finally:
            env.check_solution = keep
    return tr, out, err


_SLOT: Dict[Tuple[str, str], bool] = {}


def slot_conditioned(ctx, kind, env_name, pol, env, td) -> bool:
    """Does the policy's distribution depend on the *position* of a row among the multi-start copies (PolyNet's
    strategy vectors)?  Two starts of the same instance forced to the same node are in the same state."""
    key = (kind, env_name)
    if key not in _SLOT:
        def same_start(td_, env_, n):
            first = env_.select_start_nodes(td_, n)[: td_.batch_size[0]]
            return first.repeat(n)

        td1 = td.clone()
        td1.set("reward", torch.zeros(td.batch_size[0]))
        tr, out, err = run_policy(pol, env, td1, decode_type="multistart_greedy", num_starts=2,
                                  select_start_nodes_fn=same_start, calc_reward=False)
        dep = False
        if err is None and tr.lp:
            B0 = td.batch_size[0]
            a, b = tr.lp[0][:B0], tr.lp[0][B0:]
            fin = torch.isfinite(a) & torch.isfinite(b)
            dep = bool(fin.any()) and float((a[fin] - b[fin]).abs().max()) > 1e-6
        _SLOT[key] = dep
        ctx.note(f"policy {kind}/{env_name}: distribution depends on the multi-start slot of a row: {dep}")
    return _SLOT[key]


def select_best_rows(ctx, tag, B0: int, S: int, rew: List[float], idx: List[int]) -> Optional[List[int]]:
    k, (rtok,) = enc_lp([rew])
    rep = parse_fields(ctx.driver.ask(f"loglik.selectbest {B0} {S} | " + " ".join(rtok) + " | " + " ".join(map(str, idx))))
    rows = [int(x) for x in rep["rows"].split(",")]
    if rep["valid"] != "1":
        ctx.violation("select-best-not-max", "the row kept by _select_best is not a maximiser of its instance's rewards",
                      {"case": tag, "rewards": rew, "idx": idx})
        return None
    got = [dec_lp(x, k) for x in rep["got"].split(",")]
    best = [dec_lp(x, k) for x in rep["best"].split(",")]
    if got != best:
        ctx.disagreement("select_best: model picked reward ≠ spec maximum", {"case": tag, "got": got, "best": best})
    return rows


def c11_case(ctx, kind, env_name, n, B, dt, *, store_all, return_sum, select_best=False, S=None, max_steps=None,
             opts: Optional[dict] = None, ctor: Optional[dict] = None, default_starts=False, custom_start=False):
    """`S` with a multistart type: num_starts (None + default_starts: the environment's own number of starts);
    `S` with plain 'sampling': num_samples (multisample).  `opts`: decoding options as call kwargs; `ctor`: at construction."""
    opts = dict(opts or {})
    env, pol = setup(ctx, kind, env_name, n, ctor)
    td = fresh_td(ctx, env, B)
    if opts.get("mask_logits") is False:
        opts.pop("top_k", None), opts.pop("top_p", None)
    tag = (f"{kind}/{env_name}/n{n}/B{B}/{dt}" + (f"/S{S}" if S else "") + ("/best" if select_best else "") + ("/all" if store_all else "")
           + ("" if return_sum else "/steps") + (f"/max{max_steps}" if max_steps is not None else "")
           + ("/kw:" + ",".join(f"{k}={v}" for k, v in sorted(opts.items())) if opts else "")
           + ("/ctor:" + ",".join(f"{k}={v}" for k, v in sorted(ctor.items())) if ctor else ""))
    kw = dict(decode_type=dt, return_entropy=store_all, return_sum_log_likelihood=return_sum, **opts)
    multisample = dt == "sampling" and S is not None
    if "multistart" in dt:
        if not default_starts:
            kw["num_starts"] = S
        kw["select_best"] = select_best
        if custom_start:
            kw["select_start_nodes_fn"] = flipped_start_fn
    if multisample:
        kw["num_samples"] = S
        kw["select_best"] = select_best
        ctx.count("multisample")
    for k_ in opts:
        ctx.count(f"opt:{k_}")
    if ctor:
        ctx.count("opt:at-construction")
    if max_steps is not None:
        kw["max_steps"] = max_steps
        kw["calc_reward"] = False
        td.set("reward", torch.zeros(B))
    # steps flagged as irrelevant: a td["mask"] of shape [B, L] (equal-length environments, L = n)
    inj = None
    if env_name in ("tsp", "atsp") and not select_best and max_steps is None and opts.get("mask_logits") is not False and ctx.rng.random() < 0.5:
        inj = torch.tensor([[ctx.rng.random() < 0.7 for _ in range(n)] for _ in range(B)])
        td.set("mask", inj)
        ctx.count("ll-mask-injected")
    ctx.count(f"decode:{dt}")
    ctx.count(f"policy:{kind}/{env_name}")
    rng_state = torch.get_rng_state()
    # an infeasible forced start is C12's defect, a checker verdict C06's — neither is a log-likelihood matter:
    # counted/noted, then the bookkeeping is compared anyway (checker off)
    sub = Sub(ctx)
    tr, out, e = run_policy_guarded(sub, pol, env, td, tag, "multistart", **kw)
    if sub.violations:
        ctx.count("forced-start-infeasible(C12 select_start_nodes; checker off for this case)")
    if e is not None:  # the real code raised
        if max_steps is not None:
            ctx.count("max-steps-run-raised")
            return None
        key = "decode-raised:" + type(e).__name__
        if ctor and not from_checker(e):
            # a legal constructor option makes the policy crash: keyed by policy / env / batch size / the options given
            key = (f"policy-ctor-raised:{type(e).__name__}:{kind}/{env_name}:B{B}:" + ",".join(f"{k}={v}" for k, v in sorted(ctor.items())))
        ctx.violation(key, f"policy call raised {type(e).__name__}: {short(e, 200)}", {"case": tag})
        return None
    exp_mask = None
    if inj is not None:
        exp_mask = inj.repeat(tr.pre["B"] // B, 1)
        got = tr.gll[0]["mask"] if tr.gll else None
        if got is None or not torch.equal(got, exp_mask):
            ctx.violation("ll-mask-not-applied", "td['mask'] (steps flagged irrelevant) does not reach get_log_likelihood",
                          {"case": tag, "expected": tl(exp_mask), "got": tl(got)})
    check_opts(ctx, tag, "rollout", tr, pol, opts, ctor)
    if not getattr(tr, "beam", None):
        judge_policy_steps(ctx, tag, tr, expected_opts(pol, opts, ctor))
    if "multistart" in dt:
        check_start_rule(ctx, tag, "multistart-forced-start-not-the-rule", tr, env, td, custom_start)
    line, meta = decode_request(tr, store_all=store_all, max_steps=(SAFETY_CAP if max_steps is None else max_steps), llmask=exp_mask)
    model = ask_decode(ctx, line, meta)
    if max_steps is None and model["steps"] > SAFETY_CAP and not model["alldone"]:
        ctx.violation("decode-loop-hit-safety-cap", f"the decoding loop did not finish within {SAFETY_CAP} passes (it left through the max_steps break with unfinished rows)",
                      {"case": tag, "first_actions": [a[:12] for a in model["acts"][:2]]})
        return None
    picked = None
    S = meta["B"] // B  # replication factor actually used (num_starts / num_samples / the environment's default)
    if select_best and S > 1:
        idx = flat_i(tr.select_best_idx[0]) if tr.select_best_idx else None
        if idx is None or not tr.rewards:
            ctx.disagreement("select_best: no arg-max / rewards recorded", {"case": tag})
            return None
        rew = flat(tr.rewards[0])  # the rewards `_select_best` computed for all B·S rows
        picked = select_best_rows(ctx, tag, B, S, rew, idx)
        if picked is None:
            return None
        ctx.count("select_best")
        # the returned reward is the maximum of the instance's rewards
        for b in range(B):
            best = max(rew[s * B + b] for s in range(S))
            if float(out["reward"][b]) != best:
                ctx.violation("select-best-reward-not-max", "returned reward is not the maximum over the instance's starts",
                              {"case": tag, "instance": b, "returned": float(out["reward"][b]), "rewards": [rew[s * B + b] for s in range(S)]})
    compare_decode(ctx, tag, tr, out, model, meta, store_all=store_all, return_sum=return_sum, picked=picked,
                   expect_steps=None)
    if max_steps is not None:
        ctx.count("max-steps-break" if not model["alldone"] else "max-steps-not-binding")
    if meta["multi"]:
        # forced first move: log-prob 0 and equal to the start node the environment selected
        for r in range(meta["B"]):
            if model["vals"][r][0] != 0.0:
                ctx.disagreement("decode: forced first move log-prob ≠ 0", {"case": tag, "row": r, "v": model["vals"][r][0]})
    T = meta["T"]
    ctx.case((tag, tuple(map(tuple, model["acts"]))), nontrivial=T > 1)
    ctx.count("len:%d" % min(T, 12) if T < 12 else "len:12+")
    if meta["multi"] and sum(1 for x in ctx.samples if x.get("kind") == "multistart") < 1:
        ctx.sample({"kind": "multistart", "case": tag, "row0_actions(first is forced)": model["acts"][0],
                    "row0_gathered_logp_per_step(model of the recorded rows)": [round(v, 6) for v in model["vals"][0]],
                    "row0_sum(Spec.specLL)": model["spec"][0],
                    "row0_returned_log_likelihood": (float(out["log_likelihood"][0]) if return_sum else [round(float(v), 6) for v in out["log_likelihood"][0].tolist()])
                    if picked is None else "best-selected rows: " + str(picked)}, cap=4)
    return tr, out, model, meta, td, env, pol, tag, rng_state, (kind, env_name), opts, ctor


def c11_roundtrip(ctx, res):
    """evaluate round trip of a (non multi-start) rollout: feed the returned actions back."""
    tr, out, model, meta, td, env, pol, tag, rng_state, pair, opts, ctor = res
    tag = tag + "/evaluate"
    acts = out["actions"]

    def max_dev(tra, trb):
        w = 0.0
        for t in range(min(len(tra.lp), len(trb.lp))):
            a, b = tra.lp[t], trb.lp[t]
            if a.shape != b.shape or not torch.equal(torch.isfinite(a), torch.isfinite(b)):
                return float("inf")
            fin = torch.isfinite(a)
            if fin.any():
                w = max(w, float((a[fin] - b[fin]).abs().max()))
        return w

    keep_chk = env.check_solution
    env.check_solution = keep_chk and not getattr(tr, "checker_off", False)
    try:
        tr2, out2, e2 = run_policy(pol, env, td, actions=acts, return_entropy=True, return_sum_log_likelihood=False, **opts)
        if e2 is not None and isinstance(e2, AssertionError) and "-inf" in str(e2) and (opts.get("top_k") or opts.get("top_p")):
            # under top-k / top-p a returned action can only be −inf at re-evaluation if the distributions changed:
            # does the network consume random numbers?  replay with the generator state of the rollout
            keep = torch.get_rng_state()
            torch.set_rng_state(rng_state)
            tr3, out3, e3 = run_policy(pol, env, td, actions=acts, return_entropy=True, return_sum_log_likelihood=False, **opts)
            torch.set_rng_state(keep)
            if e3 is None and max_dev(tr, tr3) <= 1e-6:
                ctx.violation(f"evaluate-roundtrip-stochastic-network:{pair[0]}/{pair[1]}",
                              "the network draws fresh random numbers in every forward pass, so evaluating the returned actions does not reproduce "
                              "the per-step log-probabilities — here a returned action even falls outside the top-k/top-p support at re-evaluation "
                              "(the round trip is exact once the generator state of the rollout is restored)", {"case": tag, "raised": short(e2, 80)})
                ctx.count("stochastic-network(roundtrip judged with restored generator state)")
                tr2, out2, e2 = tr3, out3, None
        if e2 is not None:
            raise e2
        if not check_opts(ctx, tag, "evaluate", tr2, pol, opts, ctor):
            return
        if max_dev(tr, tr2) > 1e-6:
            # does the network consume random numbers?  replay with the generator state of the rollout
            keep = torch.get_rng_state()
            torch.set_rng_state(rng_state)
            tr3, out3, e3 = run_policy(pol, env, td, actions=acts, return_entropy=True, return_sum_log_likelihood=False, **opts)
            torch.set_rng_state(keep)
            if e3 is None and max_dev(tr, tr3) <= 1e-6:
                ctx.violation(f"evaluate-roundtrip-stochastic-network:{pair[0]}/{pair[1]}",
                              "the network draws fresh random numbers in every forward pass, so evaluating the returned actions does not reproduce "
                              "the per-step log-probabilities (it does once the generator state of the rollout is restored)",
                              {"case": tag, "max_abs_dev_logp": max_dev(tr, tr2),
                               "ll_rollout": tl(out["log_likelihood"]), "ll_evaluate": tl(out2["log_likelihood"].sum(-1))})
                ctx.count("stochastic-network(roundtrip judged with restored generator state)")
                tr2, out2 = tr3, out3
    except Exception as e:
        ctx.violation("evaluate-raised:" + type(e).__name__, f"policy(td, env, actions=returned actions) raised: {short(e, 200)}", {"case": tag})
        return
    finally:
        env.check_solution = keep_chk
    ctx.count("evaluate")
    # model of evaluate mode on the evaluate trace (actions come from `actions[..., step]`)
    line, meta2 = decode_request(tr2, store_all=True, max_steps=SAFETY_CAP, eval_actions=acts,
                                 llmask=(td["mask"] if "mask" in td.keys() else None))
    model2 = ask_decode(ctx, line, meta2)
    compare_decode(ctx, tag, tr2, out2, model2, meta2, store_all=True, return_sum=False)
    if model2["steps"] != model["steps"] or model2["acts"] != model["acts"]:
        ctx.violation("evaluate-roundtrip-actions", "evaluate mode does not replay the same action sequence / number of steps",
                      {"case": tag, "rollout": short(model["acts"]), "evaluate": short(model2["acts"])})
        return
    # Deterministic π on the recorded traces: same state ⇒ same distribution (1e-6)
    worst = 0.0
    for t in range(meta["T"]):
        a, b = tr.lp[t], tr2.lp[t]
        fin = torch.isfinite(a) & torch.isfinite(b)
        if not torch.equal(torch.isfinite(a), torch.isfinite(b)):
            ctx.violation("evaluate-roundtrip-support", "evaluate mode sees a different support (−inf pattern) than the rollout", {"case": tag, "step": t})
            return
        if fin.any():
            worst = max(worst, float((a[fin] - b[fin]).abs().max()))
    ctx.count("deterministic-bit-identical" if worst == 0.0 else "deterministic-within-1e-6" if worst <= 1e-6 else "deterministic-FAILED")
    if worst > 1e-6:
        ctx.note(f"{tag}: hypothesis `Deterministic π` fails on the recorded trace (max |Δ logp| = {worst:.3g}); round trip judged with tolerance")
    tol = max(1e-6, 4 * worst)
    # per-step log-probs of the returned actions
    for r in range(meta["B"]):
        for t in range(meta["T"]):
            if abs(model2["vals"][r][t] - model["vals"][r][t]) > tol:
                ctx.violation("evaluate-roundtrip-logprobs", "evaluating the returned actions gives different per-step log-probabilities",
                              {"case": tag, "row": r, "step": t, "rollout": model["vals"][r][t], "evaluate": model2["vals"][r][t]})
                return
    if not torch.equal(out["reward"], out2["reward"]):
        ctx.violation("evaluate-roundtrip-reward", "evaluating the returned actions gives a different reward",
                      {"case": tag, "rollout": tl(out["reward"]), "evaluate": tl(out2["reward"])})
    if "entropy" in out:
        d = (out["entropy"] - out2["entropy"]).abs().max().item()
        if d > 1e-4:
            ctx.violation("evaluate-roundtrip-entropy", "evaluating the returned actions gives a different entropy",
                          {"case": tag, "rollout": tl(out["entropy"]), "evaluate": tl(out2["entropy"])})
    # PPO ratio at the first epoch: exp(ll_new.sum(-1) - ll_old)
    ll_old = out["log_likelihood"] if out["log_likelihood"].dim() == 1 else out["log_likelihood"].sum(-1)
    ratio = torch.exp(out2["log_likelihood"].sum(dim=-1) - ll_old)
    for r in range(meta["B"]):
        k, (a, b) = enc_lp([[float(v) for v in out2["log_likelihood"][r].tolist()], [float(ll_old[r])]])
        rep = parse_fields(ctx.driver.ask("loglik.ratio | " + " ".join(a) + " | " + b[0]))
        expo = dec_lp(rep["exponent"], k)
        if abs(expo) > 1e-5 * max(1.0, abs(float(ll_old[r]))) or abs(float(ratio[r]) - 1.0) > 1e-4:
            ctx.violation("ppo-ratio-not-one", "exp(ll_new − ll_old) ≠ 1 when the returned actions are evaluated with unchanged weights",
                          {"case": tag, "row": r, "exponent": expo, "ratio": float(ratio[r])})
            return
    ctx.count("ratio-one")
    if sum(1 for x in ctx.samples if x.get("kind") == "roundtrip") < 2:
        ctx.sample({"kind": "roundtrip", "case": tag, "row0_actions": model["acts"][0],
                    "row0_gathered_logp_per_step(rollout)": [round(v, 6) for v in model["vals"][0]],
                    "row0_gathered_logp_per_step(evaluate)": [round(v, 6) for v in model2["vals"][0]],
                    "row0_returned_log_likelihood": float(ll_old[0]), "row0_spec_sum": model["spec"][0],
                    "max_abs_dev_of_recorded_distributions(rollout vs evaluate)": worst,
                    "ppo_ratio_row0": float(ratio[0]), "reward_equal": bool(torch.equal(out["reward"], out2["reward"]))}, cap=4)


def c11_replica_teacher_forcing(ctx, res):
    """Independent reference for replicated rollouts (multi-start / multi-sample, class (b)): every (instance, copy)
    row is re-scored by teacher forcing — `policy(td, env, actions=rows of one copy)` on the ORIGINAL batch of B
    instances, one call per copy, same generator state, same decoding options.  Evaluate mode neither replicates
    the batch nor forces a start, so encoder caches are not re-grouped there; a forced first move is scored by the
    policy in the reference and skipped in the comparison (it counts 0 in the rollout).  A row whose log-probs were
    computed against another instance's cache / another copy's state shows up here as `replica-logp-not-policy`."""
    tr, out, model, meta, td, env, pol, tag, rng_state, pair, opts, ctor = res
    B0 = td.batch_size[0]
    S = meta["B"] // B0
    forced = 1 if meta["multi"] else 0
    acts_all = tr.post["stack_actions"]
    if infeasible_forced_start(tr, td):
        ctx.count("replica-teacher-forcing-skipped(infeasible forced start)")
        return
    slotted = slot_conditioned(ctx, pair[0], pair[1], pol, env, td) if pair not in NO_MULTISTART else False
    mask_inj = td["mask"] if "mask" in td.keys() else None
    # with top-k / top-p the forced start node may have log-prob −inf under the policy (it was never drawn from it):
    # the reference flags step 0 as irrelevant (td["mask"]), which get_log_likelihood zeroes before its −inf assertion
    # (also without filtering: an unclipped policy on unnormalised features can put a forced node below the −1000 assertion)
    need_mask0 = bool(forced)
    keep_rng = torch.get_rng_state()
    keep_chk = env.check_solution
    env.check_solution = False  # a single copy's rows may be padded differently; feasibility is not the point here
    try:
        for sl in range(S):
            if slotted and sl > 0:
                ctx.count("replica-teacher-forcing-skipped(slot-conditioned policy, slot>0)")
                continue
            rows = list(range(sl * B0, (sl + 1) * B0))
            torch.set_rng_state(rng_state)
            td_ref = td
            if need_mask0:
                td_ref = td.clone()
                m0 = mask_inj.clone() if mask_inj is not None else torch.ones(B0, acts_all.shape[1], dtype=torch.bool)
                m0[:, 0] = False
                td_ref.set("mask", m0)
            tr2, out2, e2 = run_policy(pol, env, td_ref, actions=acts_all[rows], return_sum_log_likelihood=False, **opts)
            if e2 is not None and need_mask0 and mask_inj is None and len(tr2.steps) != acts_all.shape[1]:
                # this copy's rows finish earlier than the replicated batch did: the flag tensor must have that width
                m0 = torch.ones(B0, len(tr2.steps), dtype=torch.bool)
                m0[:, 0] = False
                td_ref.set("mask", m0)
                torch.set_rng_state(rng_state)
                tr2, out2, e2 = run_policy(pol, env, td_ref, actions=acts_all[rows], return_sum_log_likelihood=False, **opts)
            if e2 is not None:
                ctx.violation("replica-rescoring-raised:" + type(e2).__name__, f"teacher forcing of a multi-start / multi-sample row raised: {short(e2, 200)}",
                              {"case": tag, "copy": sl})
                return
            check_opts(ctx, tag, "evaluate", tr2, pol, opts, ctor)
            tf = out2["log_likelihood"]
            T2 = tf.shape[1]
            for j, i in enumerate(rows):
                vals = model["vals"][i]
                for t in range(forced, min(T2, len(vals))):
                    if mask_inj is not None and not bool(mask_inj[j][t]):
                        continue
                    d = abs(float(tf[j][t]) - vals[t])
                    if 1e-5 < d <= (3e-3 if "cvrptw" in str(tag) else 3e-4):  # cvrptw: unnormalised time features, see the beam routine
                        ctx.count("teacher-forcing-dev-in(1e-5,3e-4]")
                        continue
                    if d > 1e-5:
                        ctx.violation("replica-logp-not-policy",
                                      "a multi-start / multi-sample row's per-step log-prob is not what the policy assigns to that action for that "
                                      "instance along that sequence (teacher forcing of the (instance, copy) pair on the un-replicated batch)",
                                      {"case": tag, "instance": j, "copy": sl, "row": i, "step": t, "rollout": vals[t],
                                       "teacher_forcing": float(tf[j][t]), "actions": model["acts"][i]})
                        return
            ctx.count("replica-teacher-forcing")
    finally:
        env.check_solution = keep_chk
        torch.set_rng_state(keep_rng)


def trainer_scope_probe(ctx):
    """Does any bundled trainer feed multi-start actions to evaluate mode?  The only constructive call site
    of `actions=` is PPO.shared_step; it evaluates the actions of `policy(td, env, phase=phase)`, i.e. of the
    policy's `train_decode_type`."""
    import ast
    import os

    from common import REPO

    sites = []
    for root, _, files in os.walk(os.path.join(REPO, "rl4co", "models")):
        for fn in files:
            if not fn.endswith(".py"):
                continue
            p = os.path.join(root, fn)
            try:
                tree = ast.parse(open(p).read())
            except Exception:
                continue
            for node in ast.walk(tree):
                if isinstance(node, ast.Call) and any(k.arg == "actions" for k in node.keywords):
                    f = node.func
                    name = ast.unparse(f)
                    if "policy" in name:
                        sites.append((os.path.relpath(p, REPO), node.lineno, name))
    ctx.note("call sites passing actions= to a policy: " + "; ".join(f"{p}:{l} {n}" for p, l, n in sites))
    constructive = [s for s in sites if "n_step_ppo" not in s[0] and "improvement" not in s[0]]
    from rl4co.envs import get_env
    from rl4co.models.zoo.amppo import AMPPO

    m = AMPPO(get_env("tsp", generator_params=dict(num_loc=5)), policy_kwargs=SMALL)
    dt = m.policy.train_decode_type
    ctx.note(f"AMPPO default policy train_decode_type={dt!r}")
    if "multistart" in dt or len(constructive) != 1:
        ctx.violation("evaluate-with-multistart-in-trainer", "a bundled trainer evaluates multi-start actions (forced first move is not replayed in evaluate mode)",
                      {"sites": sites, "amppo_train_decode_type": dt})
    else:
        ctx.count("scope:no-trainer-uses-evaluate+multistart")


def gll_direct(ctx, n_cases: int):
    """`get_log_likelihood` called directly on synthetic dyadic inputs, all argument shapes and masks."""
    from rl4co.utils.decoding import get_log_likelihood

    rng = ctx.rng
    for _ in range(n_cases):
        T, N = rng.randint(1, 6), rng.randint(1, 5)
        full = rng.random() < 0.5
        has_mask = rng.random() < 0.6
        acts = [rng.randrange(N) for _ in range(T)]
        if full:
            lp = [[-rng.randint(0, 64) / 8 for _ in range(N)] for _ in range(T)]
            x = torch.tensor([lp], dtype=torch.float32)
        else:
            lp = [-rng.randint(0, 64) / 8 for _ in range(T)]
            x = torch.tensor([lp], dtype=torch.float32)
        mask = [rng.random() < 0.6 for _ in range(T)]
        a = torch.tensor([acts])
        m = torch.tensor([mask]) if has_mask else None
        per = get_log_likelihood(x.clone(), a, m, False)[0].tolist()
        tot = float(get_log_likelihood(x.clone(), a, m, True)[0])
        flat_lp = [v for row in lp for v in row] if full else lp
        k, (tok,) = enc_lp([flat_lp])
        line = (f"loglik.gll {T} {N} {int(full)} {int(has_mask)} | " + " ".join(tok) + " | " + " ".join(map(str, acts))
                + " | " + " ".join(str(int(b)) for b in mask))
        rep = parse_fields(ctx.driver.ask(line))
        mv = [dec_lp(t, k) for t in rep["vals"].split(",")]
        ml = dec_lp(rep["ll"], k)
        ctx.case(("gll", T, N, full, has_mask, tuple(acts), tuple(flat_lp), tuple(mask)))
        ctx.count("gll:" + ("3d" if full else "2d") + ("+mask" if has_mask else ""))
        if mv != per or ml != tot:
            ctx.disagreement("get_log_likelihood", {"line": line, "model": [mv, ml], "code": [per, tot]})
            return


def own_loop_case(ctx, kind, env_name, n, B, dt):
    """PtrNet / MDAM run their own decoding loops through `decode_logprobs` → greedy/sampling and call
    `get_log_likelihood` themselves: each such call must be Σ_t logp_t[a_t] of the matrices the selector saw."""
    env, pol = setup(ctx, kind, env_name, n)
    td = fresh_td(ctx, env, B)
    tag = f"{kind}/{env_name}/n{n}/B{B}/{dt}/own-loop"
    ctx.count(f"policy:{kind}/{env_name}")
    try:
        with torch.no_grad(), Recorder(None) as tr:
            out = pol(td.clone(), env, phase="test", decode_type=dt)
    except Exception as e:
        ctx.violation("decode-raised:" + type(e).__name__, f"policy call raised {type(e).__name__}: {short(e, 200)}", {"case": tag})
        return
    pos = 0
    for gi, g in enumerate(tr.gll):
        acts = g["actions"]
        T = acts.shape[1]
        calls = tr.sel_calls[pos:pos + T]
        pos += T
        if len(calls) != T:
            ctx.disagreement("own loop: selector calls do not cover the actions", {"case": tag, "T": T, "calls": len(calls)})
            return
        full = g["logprobs"].dim() == 3
        N = calls[0]["logprobs"].shape[-1]
        Bq = acts.shape[0]
        sel = [c["selected"] for c in calls]
        lp_flat = [v for c in calls for v in flat(c["logprobs"])]
        k, (lp_tok,) = enc_lp([lp_flat])
        done = [0] * (Bq * T) + [1] * Bq
        hd = [Bq, N, T, int(full), 0, 1_000_000, 0, 0]
        zeros = " ".join(["0"] * (Bq * T * N))
        am = " ".join("1" if v else "0" for c in calls for v in (c["mask"].flatten().tolist() if c["mask"] is not None else [True] * (Bq * N)))
        line = ("loglik.decode " + " ".join(map(str, hd)) + " |  | " + " ".join(map(str, done)) + " | "
                + " ".join(str(a) for s in sel for a in flat_i(s)) + " | " + " ".join(lp_tok) + " | " + am + " |  | " + zeros + " | ")
        model = ask_decode(ctx, line, {"k": k, "k2": 0})
        if model["acts"] != tl(acts):
            ctx.violation("own-loop-actions", "actions handed to get_log_likelihood are not the selected ones", {"case": tag, "call": gi})
            return
        for r in range(Bq):
            if abs(float(g["out"][r]) - model["spec"][r]) > sum_tol(model["vals"][r]):
                ctx.violation("ll-not-sum-of-gathered-logprobs", "own-loop policy: log-likelihood differs from Σ_t logp_t[a_t]",
                              {"case": tag, "call": gi, "row": r, "code": float(g["out"][r]), "spec": model["spec"][r]})
                return
        ctx.case((tag, gi, tuple(map(tuple, model["acts"]))))
    ctx.count(f"own-loop:{kind}:{dt}")
    if kind == "ptrnet":
        # evaluate round trip through `eval_tours`
        with torch.no_grad():
            out2 = pol(td.clone(), env, phase="test", decode_type=dt, eval_tours=out["actions"])
        d = (out2["log_likelihood"] - out["log_likelihood"]).abs().max().item()
        if d > 1e-5 or not torch.equal(out2["reward"], out["reward"]):
            ctx.violation("evaluate-roundtrip-logprobs", "PtrNet eval_tours round trip changes the log-likelihood/reward", {"case": tag, "delta": d})
        ctx.count("evaluate")


def ppo_first_ratio(ctx, normalization, batch_size, mini_batch_size, default_policy=False, policy_extra=None):
    """Run the REAL `PPO.shared_step` (one Lightning training batch of AMPPO) and observe the probability ratio
    `torch.exp(ll.sum(-1) - old_logprobs)` of its first mini-batch, i.e. before any optimiser step."""
    from rl4co.envs import get_env
    from rl4co.models.zoo.amppo import AMPPO
    from rl4co.utils.trainer import RL4COTrainer

    torch.manual_seed(ctx.rng.getrandbits(31))
    env = get_env("tsp", generator_params=dict(num_loc=6))
    pk = dict(SMALL) if default_policy else dict(SMALL, normalization=normalization, **(policy_extra or {}))
    kw = {} if mini_batch_size is None else {"mini_batch_size": mini_batch_size}
    m = AMPPO(env, policy_kwargs=pk, critic_kwargs=dict(embed_dim=32, hidden_dim=32), batch_size=batch_size,
              train_data_size=batch_size, val_data_size=2, test_data_size=2, ppo_epochs=2, **kw)
    state = {"armed": False, "ratio": None, "calls": []}
    orig_fwd = m.policy.forward
    orig_exp = torch.exp

    def fwd(*a, **k):
        out = orig_fwd(*a, **k)
        if k.get("actions") is not None:
            # the evaluate call of PPO.shared_step: its td carries the rollout's summed log-likelihood
            state["armed"] = True
            state["calls"].append({"new": out["log_likelihood"].detach().clone(), "old": a[0]["logprobs"].detach().clone()})
        return out

    def exp(x, *a, **k):
        out = orig_exp(x, *a, **k)
        if state["armed"]:
            state["armed"] = False
            state["calls"][-1]["exponent"] = x.detach().clone().flatten()
            if state["ratio"] is None:
                state["ratio"] = out.detach().clone().flatten()
                state["exponent"] = x.detach().clone().flatten()
        return out

    m.policy.forward = fwd
    torch.exp = exp
    try:
        tr = RL4COTrainer(max_epochs=1, accelerator="cpu", devices=1, logger=False, enable_checkpointing=False,
                          enable_progress_bar=False, enable_model_summary=False, num_sanity_val_steps=0,
                          limit_val_batches=0, precision="32-true", matmul_precision="highest")
        tr.fit(m)
    finally:
        torch.exp = orig_exp
        m.policy.forward = orig_fwd
    return state


def ppo_probe(ctx):
    """C11's PPO clause on the real trainer: the ratio of the first mini-batch of the first PPO epoch must be 1."""
    cases = [("instance", 8, 4, False, "instance-norm/minibatch<batch"),
             ("instance+T", 8, 4, False, "instance-norm/minibatch<batch/policy temperature 1.7, tanh_clipping 4"),
             ("batch", 8, 8, False, "batch-norm/minibatch=batch"),
             (None, 8, None, True, "AMPPO-defaults(batch-norm, mini_batch_size=0.25)")]
    controls_ok = 0
    for norm, bs, mbs, dflt, name in cases:
        try:
            extra = {"temperature": 1.7, "tanh_clipping": 4.0} if norm == "instance+T" else None
            st = ppo_first_ratio(ctx, "instance" if norm == "instance+T" else norm, bs, mbs, dflt, extra)
        except Exception as e:  # noqa: BLE001
            ctx.violation("ppo-step-raised:" + type(e).__name__, f"PPO.shared_step raised: {short(e, 200)}", {"case": name})
            continue
        if st["ratio"] is None:
            ctx.disagreement("ppo: no probability ratio observed in shared_step", {"case": name})
            continue
        ctx.count("ppo-shared-step:" + name)
        # every mini-batch (also after optimiser steps): the exponent the code forms is the model's Σ_t new_t − old
        for ci, call in enumerate(st["calls"]):
            if "exponent" not in call:
                continue
            for r in range(call["new"].shape[0]):
                k, (a, b) = enc_lp([[float(v) for v in call["new"][r].tolist()], [float(call["old"][r])]])
                rep = parse_fields(ctx.driver.ask("loglik.ratio | " + " ".join(a) + " | " + b[0]))
                expo = dec_lp(rep["exponent"], k)
                if abs(expo - float(call["exponent"][r])) > 1e-5 * max(1.0, abs(float(call["old"][r]))):
                    ctx.disagreement("ppo: exponent of the probability ratio", {"case": name, "minibatch": ci, "row": r, "model": expo, "code": float(call["exponent"][r])})
                    break
            ctx.count("ppo-minibatch-exponent-checked")
        # model: ppoRatio on the recorded per-step log-likelihoods is exp of (Σ new − old); here old is only visible
        # through the exponent the code formed, so the exponent itself is checked to be the model's 0
        dev = float((st["ratio"] - 1.0).abs().max())
        ctx.case(("ppo", name, tuple(st["ratio"].tolist())))
        if dev <= 1e-4 and not dflt and norm != "instance+T":
            controls_ok += 1
        if dev > 1e-4:
            # the BatchNorm/mini-batch explanation is only accepted when, in this very run, the same code gave ratio 1
            # with instance normalisation (mini-batch < batch) and with batch normalisation on the full batch
            bn = dflt and controls_ok == 2
            key = "ppo-first-ratio-not-one:batchnorm-minibatch" if bn else "ppo-first-ratio-not-one"
            ctx.violation(key, "the PPO probability ratio of the first mini-batch (weights unchanged) is not 1"
                          + (": the policy is in train mode with BatchNorm, whose statistics over the shuffled mini-batch differ from those of the rollout batch" if bn else ""),
                          {"case": name, "ratio": st["ratio"].tolist(), "exponent": st["exponent"].tolist()})


# ---- stepwise PPO policies: act → evaluate ----------------------------------------------------------------------------

STEPWISE = [("jssp", {}), ("fjsp", {})]  # every bundled policy with an act / evaluate pair: L2DPolicy4PPO on JSSP and FJSP


def stepwise_case(ctx, env_name: str, ctor: dict, B: int, n: int):
    """`L2DPolicy4PPO.act` along a whole episode (as `StepwisePPO.shared_step` does), then `L2DPolicy4PPO.evaluate` of every stored
    step on the same weights (as `StepwisePPO.update` does): the stored log-prob must be the one re-computed, the ratio 1,
    the entropy that of the distribution the action was drawn from.  Constructor options are non-default."""
    import rl4co.models.zoo.l2d.policy as LP
    from rl4co.envs import get_env

    torch.manual_seed(ctx.rng.getrandbits(31))
    env = get_env(env_name, generator_params=dict(num_jobs=n, num_machines=2))
    pol = LP.L2DPolicy4PPO(env_name=env_name, embed_dim=32, num_encoder_layers=1, **ctor).eval()
    tag = f"l2d4ppo/{env_name}/jobs{n}/B{B}/ctor:" + ",".join(f"{k}={v}" for k, v in sorted(ctor.items()))
    ctx.count(f"stepwise:{env_name}")
    for k_ in ctor:
        ctx.count(f"stepwise-opt:{k_}")
    calls = []
    phase = ["act"]
    orig_pl = LP.process_logits
    names = ("temperature", "top_p", "top_k", "tanh_clipping", "mask_logits")

    def pl(logits, mask=None, *a, **k):
        out = orig_pl(logits, mask, *a, **k)
        opts = {"temperature": 1.0, "top_p": 0.0, "top_k": 0, "tanh_clipping": 0, "mask_logits": True}
        opts.update(dict(zip(names, a)))
        opts.update({n_: v for n_, v in k.items() if n_ in names})
        calls.append({"phase": phase[0], "out": out.detach().clone(), "mask": None if mask is None else mask.detach().clone(), "opts": opts})
        return out

    LP.process_logits = pl
    steps, dones = [], []
    try:
        with torch.no_grad():
            td = env.reset(batch_size=[B])
            done0 = td["done"].reshape(-1).clone()
            while not td["done"].all():
                td = pol.act(td, env, phase="train")
                steps.append(td.clone())
                td = env.step(td)["next"]
                dones.append(td["done"].reshape(-1).clone())
                if len(steps) > 400:
                    raise RuntimeError("episode too long")
            phase[0] = "evaluate"
            evals = [pol.evaluate(st.clone()) for st in steps]
            allst = torch.cat(steps, 0)
            perm = torch.randperm(allst.batch_size[0])
            ev_mix = pol.evaluate(allst[perm].clone())
    except Exception as e:  # noqa: BLE001
        ctx.violation("stepwise-raised:" + type(e).__name__, f"act / evaluate raised: {short(e, 200)}", {"case": tag})
        return
    finally:
        LP.process_logits = orig_pl
    T = len(steps)
    acts_c = [c for c in calls if c["phase"] == "act"]
    evs_c = [c for c in calls if c["phase"] == "evaluate"]
    # (a) both call sites hand the same options to process_logits
    if acts_c and evs_c and acts_c[0]["opts"] != evs_c[0]["opts"]:
        ctx.violation("stepwise-act-evaluate-options-differ",
                      "L2DPolicy4PPO.act and .evaluate compute their step distributions with different decoding options, so the stored log-prob of "
                      "an action is not the one PPO re-evaluates", {"case": tag, "act": acts_c[0]["opts"], "evaluate": evs_c[0]["opts"]})
    # (b) stored log-prob = gather of the distribution act sampled from (Lean model / Spec on the recorded rows)
    tr = Trace()
    N = acts_c[0]["out"].shape[-1]
    tr.pre = {"start": None, "start_lp": None, "n_forced": 0, "done": done0, "num_starts": 0, "n_env_steps": 0, "B": B, "N": N}
    tr.steps = [{} for _ in range(T)]
    tr.env_done = dones
    tr.sel_calls = [{"selected": st["action"]} for st in steps]
    tr.lp = [c["out"] for c in acts_c[:T]]
    tr.amask = [c["mask"] for c in acts_c[:T]]
    line, meta = decode_request(tr, store_all=False, max_steps=1_000_000)
    model = ask_decode(ctx, line, meta)
    for t, st in enumerate(steps):
        stored = [float(v) for v in st["logprobs"].tolist()]
        spec = [model["vals"][r][t] for r in range(B)]
        if stored != spec:
            ctx.violation("stepwise-stored-logp-not-gathered", "td['logprobs'] stored by act is not the log-prob of the sampled action under the distribution it was sampled from",
                          {"case": tag, "step": t, "stored": stored, "gathered": spec, "actions": tl(st["action"])})
            return
    # (c) evaluate reproduces it; ratio 1; entropy of the same distribution
    worst = 0.0
    for t, (st, (lp, _v, ent)) in enumerate(zip(steps, evals)):
        d = float((lp - st["logprobs"]).abs().max())
        worst = max(worst, d)
        if d > 1e-6:
            r = int((lp - st["logprobs"]).abs().argmax())
            ctx.violation("stepwise-evaluate-logp-differs",
                          "evaluate(td) does not reproduce the log-prob act(td) stored for the same action on the same weights: the PPO ratio does not start at one",
                          {"case": tag, "step": t, "row": r, "action": int(st["action"][r]), "stored_by_act": float(st["logprobs"][r]),
                           "recomputed_by_evaluate": float(lp[r]), "ratio": float(torch.exp(lp[r] - st["logprobs"][r])),
                           "act_options": acts_c[0]["opts"], "evaluate_options": evs_c[0]["opts"]})
            return
        p_act = acts_c[t]["out"]
        h_act = -(torch.nan_to_num(p_act, neginf=0.0) * p_act.exp()).sum(-1)
        if float((h_act - ent).abs().max()) > 1e-5:
            ctx.violation("stepwise-evaluate-entropy-differs", "the entropy evaluate returns is not that of the distribution act sampled from",
                          {"case": tag, "step": t, "act": tl(h_act), "evaluate": tl(ent)})
            return
    d_mix = float((ev_mix[0] - allst[perm]["logprobs"]).abs().max())
    if d_mix > 1e-5:
        ctx.violation("stepwise-evaluate-logp-differs", "evaluate on a shuffled mini-batch of stored steps (as the replay buffer yields them) does not reproduce the stored log-probs",
                      {"case": tag, "max_abs_dev": d_mix})
        return
    ctx.case((tag, tuple(tuple(tl(st["action"])) for st in steps)), nontrivial=T > 1)
    ctx.count("stepwise-roundtrip-ok")
    if sum(1 for x in ctx.samples if x.get("kind") == "stepwise") < 1:
        ctx.sample({"kind": "stepwise", "case": tag, "steps": T, "row0_actions": [int(st["action"][0]) for st in steps][:8],
                    "row0_logp_stored_by_act": [round(float(st["logprobs"][0]), 6) for st in steps][:8],
                    "row0_logp_recomputed_by_evaluate": [round(float(e_[0][0]), 6) for e_ in evals][:8], "max_abs_dev": worst,
                    "options_seen_by_process_logits": acts_c[0]["opts"]}, cap=6)


def stepwise_ppo_first_ratio(ctx, policy_kwargs):
    """the REAL `StepwisePPO` (L2DPPOModel, one Lightning training batch): probability ratios of the first mini-batch of `update`"""
    from rl4co.envs import get_env
    from rl4co.models.zoo.l2d.model import L2DPPOModel
    from rl4co.utils.trainer import RL4COTrainer

    torch.manual_seed(ctx.rng.getrandbits(31))
    env = get_env("jssp", generator_params=dict(num_jobs=3, num_machines=2), stepwise_reward=True)
    m = L2DPPOModel(env, policy_kwargs=dict(embed_dim=32, num_encoder_layers=1, **policy_kwargs), batch_size=4, train_data_size=4,
                    val_data_size=2, test_data_size=2, ppo_epochs=1, mini_batch_size=8)
    st = {"armed": False, "ratio": None}
    orig_eval, orig_exp = m.policy.evaluate, torch.exp

    def ev(td):
        r = orig_eval(td)
        st["armed"] = st["ratio"] is None
        return r

    def exp(x, *a, **k):
        o = orig_exp(x, *a, **k)
        if st["armed"]:
            st["armed"] = False
            st["ratio"] = o.detach().flatten().clone()
        return o

    m.policy.evaluate = ev
    torch.exp = exp
    try:
        RL4COTrainer(max_epochs=1, accelerator="cpu", devices=1, logger=False, enable_checkpointing=False, enable_progress_bar=False,
                     enable_model_summary=False, num_sanity_val_steps=0, limit_val_batches=0, precision="32-true",
                     matmul_precision="highest").fit(m)
    finally:
        torch.exp = orig_exp
        m.policy.evaluate = orig_eval
    return st["ratio"]


def stepwise_ppo_probe(ctx):
    control_ok = False
    for name, pk in (("instance-norm, temperature 0.5, tanh_clipping 5", {"normalization": "instance", "temperature": 0.5, "tanh_clipping": 5.0}),
                     ("L2DPPOModel defaults (batch-norm)", {})):
        try:
            ratio = stepwise_ppo_first_ratio(ctx, pk)
        except Exception as e:  # noqa: BLE001
            ctx.violation("stepwise-ppo-raised:" + type(e).__name__, f"StepwisePPO training batch raised: {short(e, 200)}", {"case": name})
            continue
        if ratio is None:
            ctx.disagreement("stepwise ppo: no probability ratio observed in update", {"case": name})
            continue
        ctx.count("stepwise-ppo-update:" + name)
        ctx.case(("stepwise-ppo", name, tuple(ratio.tolist())))
        dev = float((ratio - 1).abs().max())
        if dev <= 1e-4:
            control_ok = control_ok or bool(pk)
            continue
        bn = (not pk) and control_ok
        ctx.violation("stepwise-ppo-first-ratio-not-one" + (":batchnorm-minibatch" if bn else ""),
                      "the probability ratio of the first mini-batch of StepwisePPO.update (weights unchanged) is not 1"
                      + (": the policy runs in train mode with BatchNorm; act sees one decoding step of the whole batch, evaluate a shuffled mini-batch of mixed steps" if bn else ""),
                      {"case": name, "ratio": ratio.tolist()[:8]})


def run_stepwise(ctx):
    rng = ctx.rng
    for env_name, _ in STEPWISE:
        opts = [{"temperature": 0.5}, {"temperature": 2.0, "tanh_clipping": 5.0}, {"tanh_clipping": 0}, {"temperature": 1.5, "tanh_clipping": 3.0, "mask_logits": True}, {}]
        k = ctx.budget(3, 5)
        chosen = opts[:2] + rng.sample(opts[2:], k - 2)
        for ctor in chosen:
            stepwise_case(ctx, env_name, ctor, rng.choice([1, 2, 3]), rng.choice([2, 3, 4]))
    stepwise_ppo_probe(ctx)


# ---- policy-level sweep over CONSTRUCTOR options of the attention-model family -------------------------------------------------

AM_FAMILY = [("am", "tsp"), ("am", "cvrp"), ("ham", "pdp"), ("symnco", "tsp")]  # AttentionModelPolicy and the subclasses that forward kwargs (POMO uses AttentionModelPolicy)
AM_CTORS = [
    {"mask_inner": False},
    {"mask_inner": False, "tanh_clipping": 0, "temperature": 0.5},
    {"tanh_clipping": 0},
    {"temperature": 0.5, "check_nan": False},
    {"use_graph_context": False},
    {"out_bias_pointer_attn": True},
    {"linear_bias_decoder": True, "normalization": "instance", "mask_inner": False},
    {"mask_logits": True, "mask_inner": False, "check_nan": False},
]


def ctor_sweep(ctx, quick_n: int, full: bool):
    """Every legal constructor option of the AM family that touches decoding, each decoded greedy + sampling with the evaluate
    round trip; every step is judged on the recorded distribution (`judge_policy_steps`, inside `c11_case`)."""
    rng = ctx.rng
    for kind, env_name in AM_FAMILY:
        ctors = AM_CTORS if full else [AM_CTORS[0]] + rng.sample(AM_CTORS[1:], quick_n - 1)
        for ctor in ctors:
            for dt in ("greedy", "sampling"):
                res = c11_case(ctx, kind, env_name, rng.choice([4, 5, 6]), rng.choice([1, 2, 3]), dt, store_all=rng.random() < 0.5,
                               return_sum=rng.random() < 0.5, ctor=ctor)
                if res is not None:
                    c11_roundtrip(ctx, res)
            if rng.random() < 0.5:
                res = c11_case(ctx, kind, env_name, rng.choice([4, 5]), 2, "multistart_sampling", store_all=False, return_sum=False, S=2, ctor=ctor)
                if res is not None:
                    c11_replica_teacher_forcing(ctx, res)


# ---- multi-stage FFSP policy (its own forward loop over per-stage decoders) -------------------------------------------------------


def ffsp_multistage_case(ctx, num_stage: int, num_machine: int, num_job: int, B: int, decode_type: str, num_starts: int):
    """`MultiStageFFSPPolicy.forward`: at every step each stage decoder proposes (action, log-prob); the executed action must be the
    proposal of the decoder of the stage the instance is in WHEN THE ACTION IS TAKEN, and the returned log-likelihood the sum of the
    log-probs of the executed actions under exactly those distributions.  The policy draws a random one-hot embedding per forward
    pass (known finding), so nothing is re-run: the per-stage step distributions are recorded during the one forward pass
    (hook on the decoders' `process_logits`) together with `stage_idx` before every `env.step`."""
    import rl4co.models.zoo.matnet.decoder as MD
    from rl4co.envs import FFSPEnv
    from rl4co.models.zoo.matnet.policy import MultiStageFFSPPolicy

    torch.manual_seed(ctx.rng.getrandbits(31))
    tag = f"multistage-ffsp/stages{num_stage}/machines{num_machine}/jobs{num_job}/B{B}/{decode_type}/starts{num_starts}"
    ctx.count(f"ffsp-multistage:stages={num_stage}")
    try:
        env = FFSPEnv(generator_params=dict(num_stage=num_stage, num_machine=num_machine, num_job=num_job, flatten_stages=False))
        pol = MultiStageFFSPPolicy(stage_cnt=num_stage, embed_dim=32, num_heads=4, num_encoder_layers=1, feedforward_hidden=64,
                                   test_decode_type=decode_type).eval()
        td = env.reset(batch_size=[B])
    except Exception as e:  # noqa: BLE001
        ctx.note(f"MultiStageFFSPPolicy / FFSPEnv(flatten_stages=False) cannot be constructed offline: {short(e, 120)}")
        ctx.count("ffsp-multistage-not-constructible")
        return
    dists, stage_log, done_log, props = [], [], [], []
    orig_pl = MD.process_logits

    def pl(logits, mask=None, *a, **k):
        out = orig_pl(logits, mask, *a, **k)
        dists.append((out.detach().clone(), None if mask is None else mask.detach().clone()))
        return out

    hooks = [dec.register_forward_hook(lambda mod, inp, o, s_=s_: props.append((s_, o[0].detach().clone(), o[1].detach().clone())))
             for s_, dec in enumerate(pol.decoders)]
    bound = env.step

    def env_step(td_):
        stage_log.append(td_["stage_idx"].detach().clone())
        res = bound(td_)
        done_log.append(res["next"]["done"].reshape(-1).detach().clone())
        return res

    MD.process_logits = pl
    env.__dict__["step"] = env_step
    try:
        with torch.no_grad():
            out = pol(td.clone(), env, phase="test", num_starts=num_starts, return_actions=True)
    except Exception as e:  # noqa: BLE001
        ctx.violation("multistage-ffsp-raised:" + type(e).__name__, f"MultiStageFFSPPolicy.forward raised: {short(e, 200)}", {"case": tag})
        return
    finally:
        MD.process_logits = orig_pl
        env.__dict__.pop("step", None)
        for h in hooks:
            h.remove()
    T = len(stage_log)
    acts = out["actions"]
    R = acts.shape[0]
    if len(dists) != T * num_stage or acts.shape[1] != T:
        ctx.disagreement("multistage ffsp: recorded calls do not cover the steps", {"case": tag, "dists": len(dists), "T": T, "stages": num_stage})
        return
    # the distribution of the state the action was taken in: row r at step t uses the decoder of stage_log[t][r]
    lp_rows, masks = [], []
    for t in range(T):
        M = torch.stack([dists[t * num_stage + int(stage_log[t][r])][0][r] for r in range(R)])
        K = torch.stack([dists[t * num_stage + int(stage_log[t][r])][1][r] for r in range(R)])
        lp_rows.append(M)
        masks.append(K)
        # the executed action is the proposal of that decoder
        for r in range(R):
            prop = props[t * num_stage + int(stage_log[t][r])]
            if int(prop[1][r]) != int(acts[r][t]):
                ctx.violation("multistage-ffsp-action-not-stage-proposal", "the executed action is not the proposal of the decoder of the stage the instance is in",
                              {"case": tag, "step": t, "row": r, "stage": int(stage_log[t][r]), "executed": int(acts[r][t]), "proposal": int(prop[1][r])})
                return
    tr = Trace()
    N = lp_rows[0].shape[-1]
    tr.pre = {"start": None, "start_lp": None, "n_forced": 0, "done": torch.zeros(R, dtype=torch.bool), "num_starts": 0, "n_env_steps": 0, "B": R, "N": N}
    tr.steps = [{} for _ in range(T)]
    tr.env_done = done_log
    tr.sel_calls = [{"selected": acts[:, t]} for t in range(T)]
    tr.lp, tr.amask = lp_rows, masks
    line, meta = decode_request(tr, store_all=False, max_steps=1_000_000)
    model = ask_decode(ctx, line, meta)
    switches = sum(int((stage_log[t] != stage_log[t + 1]).sum()) for t in range(T - 1))
    ctx.count("ffsp-multistage:stage-switches-between-consecutive-steps", switches)
    for r in range(R):
        c = float(out["log_likelihood"][r])
        if not abs(c - model["spec"][r]) <= sum_tol(model["vals"][r]):
            ctx.violation("ll-not-sum-of-gathered-logprobs",
                          "MultiStageFFSPPolicy: returned log_likelihood differs from Σ_t log p_t^{stage(t)}(a_t), the log-probs of the executed actions under the "
                          "distribution of the stage decoder of the state each action was taken in (recorded during the same forward pass)",
                          {"case": tag, "row": r, "code": c, "spec": model["spec"][r], "stages_per_step": [int(stage_log[t][r]) for t in range(T)],
                           "actions": tl(acts[r]), "per_step": model["vals"][r]})
            return
    judge_policy_steps(ctx, tag, tr, {"mask_logits": True, "top_k": 0, "top_p": 0.0}, sel=[acts[:, t] for t in range(T)])
    ctx.case((tag, tuple(map(tuple, tl(acts)))), nontrivial=T > 1)


def run_ffsp_multistage(ctx):
    rng = ctx.rng
    for ns in (1, 2, 3):
        for _ in range(ctx.budget(2, 8)):
            ffsp_multistage_case(ctx, ns, 2, rng.choice([3, 4]), rng.choice([1, 2, 3]), rng.choice(["sampling", "greedy"]), rng.choice([1, 1, 2]))


def run_c10_policy(ctx):
    """C10 judged on the REAL policies (not on process_logits in isolation): constructor options of the AM family × greedy / sampling;
    masked actions have probability exactly 0, distributions are normalised masked softmaxes of the decoder logits, emitted actions are unmasked."""
    ctor_sweep(ctx, quick_n=3, full=ctx.tier == "thorough" or ctx.searching)
    run_ffsp_multistage(ctx)


def run_c11(ctx):
    rng = ctx.rng
    trainer_scope_probe(ctx)
    ctor_sweep(ctx, quick_n=3, full=ctx.tier == "thorough" or ctx.searching)
    run_ffsp_multistage(ctx)
    run_stepwise(ctx)
    ppo_probe(ctx)
    gll_direct(ctx, ctx.budget(60, 3000))
    pairs = CORE + ZOO + (MORE if ctx.tier == "thorough" or ctx.searching else [])
    reps = ctx.budget(1, 20)
    for kind, env_name in pairs:
        multi_ok = (kind, env_name) not in NO_MULTISTART
        for rep in range(reps):
            for dt in DECODE_TYPES:
                if "multistart" in dt and not multi_ok:
                    continue
                n = rng.choice([4, 5, 6, 7])
                B = rng.choice([1, 2, 3])
                store_all = rng.random() < 0.5
                return_sum = rng.random() < 0.5
                opts = draw_opts(rng)
                if "multistart" in dt:
                    # B ≥ 2 distinct instances most of the time (always for dynamic-embedding environments, whose decoder
                    # caches are re-grouped per copy): re-grouping of per-instance data only shows there
                    B = rng.choice([2, 3]) if (kind, env_name) in DYNAMIC_EMB else rng.choice([2, 2, 3, 1])
                    S = rng.choice([2, 3])
                    sb = rng.random() < 0.4
                    # num_starts=None: the environment's own number of starts (get_num_starts/select_start_nodes are only
                    # consistent for these environments; elsewhere the start rule itself fails, which is C12's)
                    dflt = rng.random() < 0.15 and env_name in ("tsp", "cvrp", "pctsp", "pdp", "sdvrp")
                    res = c11_case(ctx, kind, env_name, n, B, dt, store_all=store_all, return_sum=return_sum, select_best=sb, S=S,
                                   opts=opts, default_starts=dflt, custom_start=(not dflt and rng.random() < 0.25))
                    if res is not None:
                        c11_replica_teacher_forcing(ctx, res)
                else:
                    res = c11_case(ctx, kind, env_name, n, B, dt, store_all=store_all, return_sum=return_sum, opts=opts)
                    if res is not None:
                        c11_roundtrip(ctx, res)
            # multi-sample: `num_samples` copies of every instance, no forced move
            res = c11_case(ctx, kind, env_name, rng.choice([4, 5, 6]), rng.choice([2, 3]), "sampling", store_all=rng.random() < 0.5,
                           return_sum=rng.random() < 0.5, select_best=rng.random() < 0.4, S=rng.choice([2, 3]), opts=draw_opts(rng))
            if res is not None:
                c11_replica_teacher_forcing(ctx, res)
        # options given at policy construction (PPO's evaluate call passes no kwargs and relies on them)
        if kind == "am":
            ctor = draw_ctor(rng)
            res = c11_case(ctx, kind, env_name, rng.choice([4, 5, 6]), rng.choice([1, 2, 3]), rng.choice(["greedy", "sampling"]),
                           store_all=rng.random() < 0.5, return_sum=rng.random() < 0.5, ctor=ctor, opts=draw_opts(rng, 0.6))
            if res is not None:
                c11_roundtrip(ctx, res)
            if multi_ok:
                res = c11_case(ctx, kind, env_name, rng.choice([4, 5, 6]), rng.choice([2, 3]), "multistart_sampling", store_all=False,
                               return_sum=False, S=2, ctor=ctor)
                if res is not None:
                    c11_replica_teacher_forcing(ctx, res)
        # unmasked logits (mask_logits=False): only where the environment survives infeasible actions (TSP; checker off)
        if (kind, env_name) == ("am", "tsp"):
            keep = None
            env_, _ = setup(ctx, kind, env_name, 5)
            keep, env_.check_solution = env_.check_solution, False
            try:
                res = c11_case(ctx, kind, env_name, 5, rng.choice([1, 2]), "sampling", store_all=rng.random() < 0.5, return_sum=False,
                               opts={"mask_logits": False, "temperature": rng.choice([1.0, 2.0])})
                if res is not None:
                    c11_roundtrip(ctx, res)
            finally:
                env_.check_solution = keep
        # the max_steps break of the loop
        n = rng.choice([5, 6])
        c11_case(ctx, kind, env_name, n, 2, "sampling", store_all=False, return_sum=True, max_steps=rng.choice([0, 1, 2, 3]))
    for kind, env_name in OWN_LOOP:
        for dt in ("greedy", "sampling"):
            for _ in range(ctx.budget(1, 12)):
                own_loop_case(ctx, kind, env_name, rng.choice([4, 5, 6]), rng.choice([1, 2, 3]), dt)


# ------------------------------------------------------------------------------------------------------
# C13
# ------------------------------------------------------------------------------------------------------

BEAM_PAIRS = CORE + [("ham", "pdp"), ("matnet", "atsp"), ("polynet", "tsp"), ("symnco", "tsp")]


def beam_request(tr: Trace, B0: int, W: int, rew: Optional[List[float]] = None, arg: Optional[List[int]] = None):
    N = tr.pre["N"]
    T = len(tr.beam)
    BW = B0 * W
    start = flat_i(tr.pre["start"])
    lp_flat = [v for st in tr.beam for v in flat(st["logprobs"])]
    k, (lp_tok,) = enc_lp([lp_flat])
    top = []
    for st in tr.beam:
        ind = (st["parent"].to(torch.int64) * N + st["selected"]).tolist()  # flat index r·B0 + b ↦ topk_ind[b][r]
        for b in range(B0):
            top += [ind[r * B0 + b] for r in range(W)]
    rtok = []
    k3 = 0
    if rew is not None:
        k3, (rtok,) = enc_lp([rew])
    line = (f"loglik.beam {B0} {W} {N} {T} | " + " ".join(map(str, start)) + " | " + " ".join(lp_tok) + " | "
            + " ".join(map(str, top)) + " | " + " ".join(rtok) + " | " + " ".join(map(str, arg or [])))
    return line, {"k": k, "k3": k3, "N": N, "T": T, "BW": BW}


def kept_not_top_witness(tr: Trace, ms, t: int, b: int, B0: int, W: int, N: int) -> dict:
    """Independent per-instance recomputation of one beam step from the recorded policy rows: the values of all W·N
    expansions of instance b (float32 `logp + accumulated score of the parent`, scores re-accumulated along the
    recorded parents) against the kept columns."""
    prev = torch.tensor(ms[t - 1], dtype=torch.float32) if t > 0 else torch.zeros(B0 * W)
    lp = tr.lp[t]
    val = torch.cat([lp[w * B0 + b] + prev[w * B0 + b] for w in range(W)])
    st = tr.beam[t]
    ind = (st["parent"].to(torch.int64) * N + st["selected"]).tolist()
    keptc = [ind[r * B0 + b] for r in range(W)]
    rest = [(float(val[q]), q) for q in range(W * N) if q not in keptc]
    best_rest = max(rest) if rest else None
    return {"step": t + 1, "instance": b, "kept (parent, action, value)": [(q // N, q % N, float(val[q])) for q in keptc],
            "best expansion NOT kept (parent, action, value)": None if best_rest is None else (best_rest[1] // N, best_rest[1] % N, best_rest[0])}


def c13_case(ctx, kind, env_name, n, B0, W, opts: Optional[dict] = None, custom_start=False):
    opts = dict(opts or {})
    if custom_start:
        opts["select_start_nodes_fn"] = flipped_start_fn
    env, pol = setup(ctx, kind, env_name, n)
    td = fresh_td(ctx, env, B0)
    if (opts.get("top_k") or opts.get("top_p")) and slot_conditioned(ctx, kind, env_name, pol, env, td):
        # evaluate mode scores with strategy 0 only: an action kept under another strategy can be outside its top-k/top-p support,
        # which makes the reference raise instead of showing the (known) slot-conditioning deviation
        opts.pop("top_k", None), opts.pop("top_p", None)
    tag = (f"{kind}/{env_name}/n{n}/B{B0}/W{W}" + ("/custom-start-fn" if custom_start else "")
           + ("/kw:" + ",".join(f"{k}={v}" for k, v in sorted(opts.items()) if k != "select_start_nodes_fn") if opts else ""))
    ctx.count(f"policy:{kind}/{env_name}")
    ctx.count(f"width:{W}")
    ctx.count(f"batch:{B0}")
    for k_ in opts:
        ctx.count(f"opt:{k_}")
    rng_state = torch.get_rng_state()
    tr, out, err = run_policy_guarded(ctx, pol, env, td, tag, "beam", decode_type="beam_search", beam_width=W,
                                      select_best=False, return_sum_log_likelihood=False, **opts)
    checker_off = getattr(tr, "checker_off", False)
    bad_start = infeasible_forced_start(tr, td)
    if err is not None:
        ctx.violation("beam-raised:" + type(err).__name__, f"beam search raised {type(err).__name__}: {short(err, 200)}", {"case": tag})
        return
    check_opts(ctx, tag, "rollout", tr, pol, opts)
    check_start_rule(ctx, tag, "beam-forced-start-not-the-rule", tr, env, td, custom_start)
    line, meta = beam_request(tr, B0, W)
    rep = parse_fields(ctx.driver.ask(line))
    if "seq" not in rep:
        raise RuntimeError("driver: " + str(rep)[:300])
    k, N, T, BW = meta["k"], meta["N"], meta["T"], meta["BW"]
    wit = {"case": tag}
    pend = []  # model≠code on internals; reported after the property itself has been judged on the real outcome

    def flush():
        for what, det in pend:
            ctx.disagreement(what, det)

    # per-step index arithmetic and scores (bit-exact)
    for name, key in (("selected", "sel"), ("parent", "par"), ("bbi", "bbi")):
        m = parse_rows(rep[key], int)
        c = [flat_i(st[name]) for st in tr.beam]
        if m != c:
            pend.append((f"beam: {name} per step", {**wit, "model": short(m), "code": short(c)}))
    ms = parse_rows(rep["score"], lambda x: dec_lp(x, k))
    cs = [flat(st["score_after"]) for st in tr.beam]
    if ms != cs:
        pend.append(("beam: accumulated scores (parent_beam_logprobs)", {**wit, "model": short(ms), "code": short(cs)}))
    # (1) kept beams are the top-W expansions — judged with scores re-accumulated independently from the recorded policy rows
    groups = rep["validtop"].split(",") if rep["validtop"] else []
    for t, g in enumerate(groups):
        for b, bit in enumerate(g):
            if bit == "0":
                ctx.violation("beam-kept-not-top", "at a decoding step the kept beams of an instance are not the W highest-scoring expansions of its previous beams "
                              "(scores = log-probs accumulated along each beam's own parent chain, recomputed from the recorded policy rows)",
                              {**wit, **kept_not_top_witness(tr, ms, t, b, B0, W, N)})
                flush()
                return
    # (2) reconstruction through the beam parents
    seq = parse_rows(rep["seq"], int)
    cseq = tl(out["actions"])
    if seq != cseq:
        i = next(i for i in range(len(cseq)) if i >= len(seq) or seq[i] != cseq[i])
        ctx.violation("beam-backtrack-inconsistent", "the sequence returned for a beam is not the chain of actions along its recorded parents",
                      {**wit, "row": i, "returned": cseq[i], "along_parents": seq[i] if i < len(seq) else None})
        flush()
        return
    # (3) returned per-step log-probs are the recorded policy rows gathered along that chain (Lean Spec on the real outcome)
    vals = parse_rows(rep["vals"], lambda x: dec_lp(x, k))
    cv = [[float(v) for v in row] for row in out["log_likelihood"].tolist()]
    if vals != cv:
        i = next(i for i in range(len(cv)) if vals[i] != cv[i])
        ctx.violation("beam-logp-not-policy-rows", "the per-step log-probs returned for a beam are not the entries of the policy's step distributions "
                      "(recorded process_logits outputs) for the beam's actions along its parent chain",
                      {**wit, "row": i, "sequence": cseq[i], "returned": cv[i], "policy_rows_gathered": vals[i]})
        flush()
        return
    flush()
    if pend:
        return
    # ---- the property on the real outcome -------------------------------------------------------------
    start = flat_i(tr.pre["start"])
    for b in range(B0):
        starts = [start[w * B0 + b] for w in range(W)]
        seqs = [tuple(seq[w * B0 + b]) for w in range(W)]
        if len(set(starts)) == W:
            ctx.count("distinct-starts")
            if len(set(seqs)) != W:
                ctx.violation("beams-not-distinct", "two beams of one instance with distinct forced starts are the same sequence",
                              {**wit, "instance": b, "seqs": seqs})
                return
        else:
            ctx.count("duplicate-starts")
    # every kept action was offered by the mask of the state it was taken in (recorded masks, parent-aligned)
    for t, st in enumerate(tr.beam):
        m = tr.amask[t]
        if m is not None:
            ok = m[st["bbi"]].gather(1, st["selected"].unsqueeze(-1))
            if not bool(ok.all()):
                ctx.violation("beam-kept-infeasible-expansion", "a kept expansion is masked in its parent's state", {**wit, "step": t})
                return
    # teacher forcing: the real policy re-scores every returned beam (same instances, same generator state,
    # one call per beam slot so that the encoder sees exactly the batch it saw during the search)
    worst = 0.0
    keep_chk = env.check_solution
    env.check_solution = False  # one slot's rows may be trimmed differently from the search batch; feasibility is judged on the search outcome
    keep_rng = torch.get_rng_state()
    try:
        if bad_start:
            ctx.count("teacher-forcing-skipped(infeasible forced start has log-prob −inf under the policy)")
        for w in ([] if bad_start else range(W)):
            torch.set_rng_state(rng_state)
            rows = list(range(w * B0, (w + 1) * B0))
            # with top-k / top-p filtering fewer than W expansions may have positive probability: the search then has to
            # keep expansions of probability 0 (recorded step log-prob −inf).  `Evaluate` refuses such an action
            # ("Logprobs should not be -inf"), so this slot cannot be teacher-forced; its recorded −inf IS the policy's
            # value for that step (false alarm at thorough seed 11: am/spctsp W=8, top_k=3, top_p=0.3) — counted, skipped
            if any(vals[i][t] == float("-inf") for i in rows for t in range(1, T + 1)):
                ctx.count("teacher-forcing-skipped(beam slot contains a zero-probability expansion: fewer than W expansions survive the filter)")
                continue
            td_ref = td
            if True:
                # the forced start may have log-prob −inf under the policy (filtered out / saturated): flag step 0 as irrelevant in the reference
                td_ref = td.clone()
                m0 = torch.ones(B0, T + 1, dtype=torch.bool)
                m0[:, 0] = False
                td_ref.set("mask", m0)
            tr2, out2, e2 = run_policy(pol, env, td_ref, actions=out["actions"][rows], return_sum_log_likelihood=False, **opts)
            if e2 is not None and td_ref is not td and len(tr2.steps) != T + 1:
                m0 = torch.ones(B0, len(tr2.steps), dtype=torch.bool)
                m0[:, 0] = False
                td_ref.set("mask", m0)
                torch.set_rng_state(rng_state)
                tr2, out2, e2 = run_policy(pol, env, td_ref, actions=out["actions"][rows], return_sum_log_likelihood=False, **opts)
            if e2 is not None:
                filt = (opts.get("top_k", 0) or 0) > 0 or 0 < (opts.get("top_p", 0) or 0) < 1
                if filt and isinstance(e2, AssertionError) and "-inf" in str(e2):
                    # with a top-k / top-p filter the support of a step distribution has a hard edge; the search computes it
                    # in the [B·W] layout, the re-scoring in the [B] layout, and float32 noise between the two layouts (≤ 6e-5,
                    # see below) can move an action sitting on the edge out of the kept set, where `Evaluate` refuses it
                    # (false alarm at thorough seed 11: am/spctsp W=8, temperature 2.5, top_k=3, top_p=0.3).  Row/step alignment
                    # is still judged by the unfiltered option sets of the same sweep.
                    ctx.count("teacher-forcing-skipped(filter edge: action outside the re-scored support under top-k/top-p)")
                    continue
                ctx.violation("beam-rescoring-raised:" + type(e2).__name__, f"teacher forcing of a returned beam raised: {short(e2, 200)}", wit)
                return
            tf = out2["log_likelihood"]
            T2 = tf.shape[1] - 1  # the B0 rows of one slot may all finish before the B0·W rows of the search do
            if T2 < T:
                ctx.count("teacher-forcing-shorter(padded tail of the beam not re-scored)")
            for j, i in enumerate(rows):
                for t in range(1, min(T, T2) + 1):
                    d = abs(float(tf[j][t]) - vals[i][t])
                    worst = max(worst, d)
                    # cvrptw feeds unnormalised times (values up to ~500) into the network: the layout noise is an order of
                    # magnitude larger there (9.3e-4 at thorough seed 5, am/cvrptw n8 W4); a mis-aligned row/step is ≥ 1e-2
                    band = 3e-3 if "cvrptw" in str(wit.get("case", "")) else 3e-4
                    if 1e-5 < d <= band:
                        # float32 noise between decoder layouts ([B,W,·] during the search vs [B,1,·] when re-scoring); seen up to
                        # 6e-5 on cvrptw (unnormalised time features).  A mis-aligned row/step gives deviations of order 0.1.
                        ctx.count("teacher-forcing-dev-in(1e-5,3e-4]")
                        continue
                    if d > 1e-5:
                        # slot (beam position) in which the distribution of step t of final row i was computed
                        row = i
                        for tt in range(T - 1, t - 2, -1):
                            row = int(tr.beam[tt]["bbi"][row])
                        slot = row // B0
                        if slot > 0 and slot_conditioned(ctx, kind, env_name, pol, env, td):
                            ctx.violation(f"beam-logp-slot-conditioned-policy:{kind}/{env_name}:slot>0",
                                          "the policy's distribution depends on the beam slot of a row (PolyNet strategy vector); beam search moves partial "
                                          "solutions between slots, so a returned beam's per-step log-probs are not those any single strategy assigns along it "
                                          "(this step was computed in a slot > 0, evaluate mode uses strategy 0)",
                                          {**wit, "row": i, "step": t, "slot": slot, "beam": vals[i][t], "teacher_forcing_slot0": float(tf[j][t]), "sequence": seq[i]})
                        else:
                            ctx.violation("beam-logp-not-policy", "a returned beam's per-step log-prob is not what the policy assigns along that sequence (teacher forcing)",
                                          {**wit, "row": i, "step": t, "slot": slot, "beam": vals[i][t], "teacher_forcing": float(tf[j][t]), "sequence": seq[i]})
                        return
                if vals[i][0] != 0.0:
                    ctx.disagreement("beam: forced first move log-prob ≠ 0", {**wit, "row": i})
            # (the trimmed and the padded sequence are summed in different orders: compare within float32 rounding)
            if bool(((out2["reward"] - out["reward"][rows]).abs() > 4e-6 * (T + 2) * out["reward"][rows].abs().clamp(min=1.0)).any()):
                ctx.violation("beam-reward-mismatch", "reward of a returned beam differs from the reward of its sequence", wit)
                return
    finally:
        env.check_solution = keep_chk
        torch.set_rng_state(keep_rng)
    ctx.count("deterministic-bit-identical" if worst == 0.0 else "deterministic-within-1e-5")
    # ---- best selection --------------------------------------------------------------------------------
    torch.set_rng_state(rng_state)
    env.check_solution = keep_chk and not checker_off
    try:
        tr3, out3, e3 = run_policy(pol, env, td, decode_type="beam_search", beam_width=W, select_best=True,
                                   return_sum_log_likelihood=False, **opts)
    finally:
        env.check_solution = keep_chk
        torch.set_rng_state(keep_rng)
    if e3 is not None:
        ctx.violation("beam-raised:" + type(e3).__name__, f"beam search (select_best) raised: {short(e3, 200)}", wit)
        return
    rew = flat(out["reward"])
    if tl(tr3.best_beam["in_actions"]) != seq:
        ctx.count("select-best-run-differs(nondeterministic top-k ties)")
    else:
        arg = []
        for b in range(B0):
            cands = [w for w in range(W) if seq[w * B0 + b] == tl(tr3.best_beam["out_actions"][b])]
            if not cands:
                ctx.disagreement("beam: selected beam is none of the instance's beams", {**wit, "instance": b})
                return
            # distinct beams ⇒ unique; with duplicate beams any candidate carries the same reward
            arg.append(cands[0])
        line2, meta2 = beam_request(tr, B0, W, rew=rew, arg=arg)
        rep2 = parse_fields(ctx.driver.ask(line2))
        if rep2["validarg"] != "1":
            ctx.violation("beam-best-not-max", "with select_best the returned beam is not a reward maximiser of its instance",
                          {**wit, "rewards": rew, "arg": arg})
            return
        got = [dec_lp(x, meta2["k3"]) for x in rep2["got"].split(",")]
        best = [dec_lp(x, meta2["k3"]) for x in rep2["best"].split(",")]
        picked = [int(x) for x in rep2["picked"].split(",")]
        if got != best:
            ctx.disagreement("beam: model picked reward ≠ spec maximum", {**wit, "got": got, "best": best})
        if [float(v) for v in out3["reward"].tolist()] != best:
            ctx.violation("beam-best-reward-not-max", "with select_best the returned reward is not the maximum over the instance's beams",
                          {**wit, "returned": tl(out3["reward"]), "best": best})
            return
        if tl(out3["actions"]) != [seq[i] for i in picked] or [[float(v) for v in r] for r in out3["log_likelihood"].tolist()] != [vals[i] for i in picked]:
            ctx.disagreement("beam: selected rows (actions / log-probs)", {**wit, "picked": picked})
        ctx.count("select_best")
    ctx.case((tag, tuple(map(tuple, seq))), nontrivial=T > 1)
    ctx.count("len:%d" % min(T + 1, 12))
    ctx.sample({"case": tag, "beams(first W·B rows, max 4)": seq[:4], "per_step_logp_row0": [round(v, 6) for v in vals[0]],
                "final_scores": [round(v, 6) for v in (ms[-1][:4] if ms else [])], "max_teacher_forcing_dev": worst,
                "rewards": [round(v, 5) for v in rew[:4]]}, cap=3)


def run_c13(ctx):
    rng = ctx.rng
    # self-test of the float32 addition the driver uses for beam scores
    for _ in range(200):
        a = torch.tensor(-rng.random() * rng.choice([1e-3, 1.0, 30.0]), dtype=torch.float32)
        b = torch.tensor(-rng.random() * rng.choice([1e-3, 1.0, 30.0]), dtype=torch.float32)
        k, (ta, tb) = enc_lp([[float(a)], [float(b)]])
        rep = parse_fields(ctx.driver.ask(f"loglik.f32add {ta[0]} {tb[0]}"))
        if dec_lp(rep["sum"], k) != float(a + b):
            ctx.disagreement("float32 addition model", {"a": float(a), "b": float(b), "model": dec_lp(rep["sum"], k), "code": float(a + b)})
            return
    pairs = BEAM_PAIRS + (MORE if ctx.tier == "thorough" or ctx.searching else [])
    for kind, env_name in pairs:
        deep = ctx.tier == "thorough" or ctx.searching
        for n in ([4, 6, 8] if deep else [rng.choice([4, 5, 6])]):
            widths = list(range(2, n + 1))
            if not deep:
                widths = sorted(set([2, n] + [rng.choice(widths)]))
            for W in widths:
                for _ in range(ctx.budget(1, 3)):
                    c13_case(ctx, kind, env_name, n, rng.choice([2, 3, 2, 1]), W, opts=draw_opts(rng, 0.45), custom_start=rng.random() < 0.2)


# ------------------------------------------------------------------------------------------------------
# C02 (decoding-loop clause)
# ------------------------------------------------------------------------------------------------------


def run_c02(ctx):
    """The batched decoding loop on the two families for which the clause is a theorem (CVRP: 2n+1 passes, TSP: n): real
    policies, mixed batches, every decode type; the recorded run is replayed through the model and the clause is judged on
    the real outcome: all rows done at exit, number of passes within the bound (hence far from the safety cap), no pass on
    a row whose action mask is all False."""
    rng = ctx.rng
    for env_name in ("cvrp", "tsp"):
        for dt in DECODE_TYPES + ["sampling"]:
            for _ in range(ctx.budget(2, 12)):
                n = rng.choice([3, 4, 5, 6, 7])
                B = rng.choice([1, 2, 3, 4])
                multi = "multistart" in dt
                res = c11_case(ctx, "am", env_name, n, B, dt, store_all=False, return_sum=True, S=(rng.choice([2, 3]) if multi else None),
                               opts=draw_opts(rng, 0.6))
                if res is None:
                    continue
                tr, out, model, meta = res[:4]
                tag = res[7]
                bound = (2 * n + 1) if env_name == "cvrp" else n
                passes = model["steps"] + (1 if meta["multi"] else 0)  # a forced move is one of the episode's steps
                ctx.count(f"c02:{env_name}:passes={passes}/{bound}")
                if not model["alldone"]:
                    ctx.violation("decode-loop-not-all-done", "the decoding loop exited with an unfinished row", {"case": tag, "passes": passes})
                if passes > bound:
                    ctx.violation("decode-loop-exceeds-step-bound", "the decoding loop made more passes than the environment's step bound",
                                  {"case": tag, "passes": passes, "bound": bound, "actions": model["acts"][:2]})
                # (`loop-evaluated-all-false-mask-row` is raised by compare_decode from the model's `safe` flag)


# ------------------------------------------------------------------------------------------------------

ORACLE_NOTE = ("the policy network and process_logits are an oracle π (uninterpreted function of the row's decoding state); "
               "the theorems hold for every π, the correspondence replays the real network's recorded per-step log-prob matrices")
GLUE_NOTE = ("float32 summation order of logprobs.sum(1) and exp in calculate_entropy are outside the model (exact integer sums; "
             "sums compared within len·2^-22 relative); float32 addition of beam scores IS modelled (round-to-nearest-even) and compared bit-exactly")
COVER_NOTE = ("decoding options are swept at the quick tier as call kwargs AND at policy construction (temperature ≠ 1, top_k, top_p, tanh clipping on/off, "
              "mask_logits=False on TSP), in the rollout and in the evaluate round trip, and every process_logits call is checked to have received them; "
              "multi-start (given / environment-default num_starts) and multi-sample (num_samples) rollouts with B ≥ 2 distinct instances (always on "
              "dynamic-embedding environments, i.e. SDVRP) are judged against per-(instance, copy) teacher forcing on the un-replicated batch; these inputs "
              "lie inside the Lean model (the options only change the oracle rows π)")
DET_NOTE = "hypotheses `Deterministic π` / row-wise evaluation of the network are checked on the recorded traces only (1e-6)"
SCOPE_NOTE = ("evaluate mode does not replay a forced multi-start move (decode type `evaluate` is never multi-start): the round trip is stated "
              "for non-multi-start rollouts; a probe checks on every run that no bundled trainer evaluates multi-start actions")

C11_THEOREMS = [
    Theorem("Rl4co.Decode.ll_eq_sum_gather", "proved",
            "∀ π, selector, B, N, max_steps, store_all_logp, mask: returned log_likelihood of every row = Σ_t logp_t[a_t] along the returned actions, "
            "forced multi-start move and masked steps contributing 0 (Spec.Loglik.specLL)"),
    Theorem("Rl4co.Decode.ll_steps_eq_gather", "proved", "same per step (return_sum_log_likelihood=False)"),
    Theorem("Rl4co.Decode.decode_state_rows", "proved",
            "final env state = state reached by the returned actions; with store_all_logp the returned [T,N] rows are π's distributions along them"),
    Theorem("Rl4co.Decode.evaluate_roundtrip", "proved",
            "Deterministic π (function of the decoding state): policy(td, env, actions=returned actions) makes the same passes, ends in the same states, "
            "returns the same actions and per-step log-likelihoods (any mask, any store_all_logp on either side); its [T,N] rows are π's along the actions"),
    Theorem("Rl4co.Decode.evaluate_roundtrip_reward", "proved", "the round trip reproduces the reward (any function of final state and actions)"),
    Theorem("Rl4co.Decode.evaluate_roundtrip_entropy", "proved", "the round trip reproduces the entropy (any elementwise term)"),
    Theorem("Rl4co.Decode.ratio_one", "proved", "PPO: exp(ll_new.sum(-1) − ll_old) = 1 with unchanged weights (only exp 0 = 1 used), rollout gathered per step vs evaluate gathered at the end"),
    Theorem("Rl4co.Decode.loop_terminates", "proved",
            "given C02's step bound ≤ max_steps and mask facts (variable- or equal-length form) and a selector emitting admitted actions (C10): the while loop "
            "exits with all rows done after ≤ bound passes and never looks at an all-false mask row"),
    Theorem("Rl4co.Decode.loop_passes_le", "proved", "the loop makes at most max_steps+1 passes whatever the environment does"),
    Theorem("Rl4co.Decode.evaluate_roundtrip_stochastic_counterexample", "proved",
            "¬ (round trip for networks whose forward pass depends on a context beyond the row state: random draws / batch statistics) — the full statement is false (known findings)"),
    Theorem("Rl4co.Decode.evaluate_roundtrip_stochastic_partial", "partial", "with the same context (generator state restored / same batch) the round trip holds"),
    Theorem("Rl4co.Decode.maskVal_eq", "proved", "translator tie: extracted `logprobs[~mask] = 0` (polarity, constant) is what the proofs need"),
    Theorem("Rl4co.Decode.getLLSum_eq", "proved", "translator tie: extracted summed axis of `logprobs.sum(1)`"),
    Theorem("Rl4co.Decode.forcedRec_eq", "proved", "translator tie: extracted `zeros_like` of the forced multi-start move (both store_all_logp forms)"),
    Theorem("Rl4co.Decode.loopFuel_eq", "proved", "translator tie: extracted comparator of `if step > max_steps: break`"),
    Theorem("Rl4co.Decode.allDone_eq", "proved", "translator tie: extracted `while not td['done'].all()`"),
    Theorem("Rl4co.Decode.evalSel_eq", "proved", "translator tie: extracted index of `actions[..., step]`"),
    Theorem("Rl4co.Decode.betterEq_eq", "proved", "translator tie: extracted `.max` of _select_best and _select_best_beam"),
    Theorem("Rl4co.Decode.selectBest_factor", "proved", "translator tie: extracted unbatchify factor `self.num_starts`"),
    Theorem("Rl4co.Decode.calculateEntropy_eq", "proved", "translator tie: extracted leading minus of calculate_entropy"),
    Theorem("Rl4co.Decode.ppoRatio_eq", "proved", "translator tie: extracted `ll.sum(-1) - old` (new minus old) of the PPO ratio; the exponent the harness compares on every mini-batch"),
    Theorem("Rl4co.Decode.policyMaskLogits_eq", "proved", "translator tie: AttentionModelPolicy passes its mask_logits / temperature / tanh_clipping constructor arguments through unchanged (extracted)"),
    Theorem("Rl4co.Decode.stepwise_opts_eq", "proved", "translator tie: the process_logits calls of L2DPolicy4PPO.act and .evaluate receive the same option arguments (extracted)"),
    Theorem("Rl4co.Decode.stepwise_roundtrip", "proved",
            "stepwise PPO policies: ∀ network/process_logits, state, action: evaluate recomputes the log-prob act stored, returns the entropy of the distribution act sampled from, ratio = 1"),
    Theorem("Rl4co.Decode.stepwise_roundtrip_anyopts_counterexample", "proved", "¬ (round trip for call sites with unrelated option lists): the equality of the option lists is what the theorem rests on"),
    Theorem("Rl4co.Decode.stepwiseRatio_eq", "proved", "translator tie: extracted `torch.exp(logprobs - previous_logp)` of StepwisePPO.update"),
    Theorem("Rl4co.Decode.forced_move_contributes_zero", "proved", "multi-start: first per-step log-likelihood of every row is 0, first action is the start node, ll = sum over the remaining steps"),
    Theorem("Rl4co.Decode.entropy_is_policy_entropy", "proved", "the entropy returned with return_entropy=True is −Σ_t Σ_a p·log p of π's step distributions along the returned actions (specEntropy)"),
    Theorem("Rl4co.Decode.preStartRule_eq", "proved", "translator tie: multi-start forced moves come from env.select_start_nodes, not the generic helper (extracted)"),
    Theorem("Rl4co.Decode.specVals_length", "proved", "Spec sanity: one value per returned action"),
    Theorem("Rl4co.Decode.specLL_append", "proved", "Spec sanity (chain rule): ll(as ++ bs) = ll(as) + ll(bs from the state as leads to)"),
    Theorem("Rl4co.Decode.specLL_nil", "proved", "Spec sanity: the empty sequence has log-likelihood 0"),
    Theorem("Rl4co.Decode.specLL_all_masked", "proved", "Spec sanity: all steps flagged irrelevant ⇒ log-likelihood 0"),
    Theorem("Rl4co.Decode.sumLP_eq_none_iff", "proved", "Spec sanity: the log-likelihood is −inf exactly when some step has probability zero"),
    Theorem("Rl4co.Decode.select_best_is_max", "proved", "_select_best: the kept row belongs to the instance and maximises its rewards, for every valid arg-max outcome"),
    Theorem("Rl4co.Decode.select_best_reward", "proved", "its reward is Spec.bestReward of the instance"),
]
C13_THEOREMS = [
    Theorem("Rl4co.Decode.backtrack_consistent", "proved",
            "in every reachable beam-search state the sequence _backtrack returns for row i is the one that produced row i's env state from instance i%B's reset state"),
    Theorem("Rl4co.Decode.logp_is_policy", "proved",
            "the returned [T,N] log-prob rows of row i are π's distributions along that very sequence (forced move = zero row); the beam score is their running sum"),
    Theorem("Rl4co.Decode.kept_are_top", "proved",
            "one step, any valid topk outcome: the W new rows of an instance are W distinct (parent<W, action<N) expansions, state = parent's state stepped, "
            "score = expansion value, and no non-kept expansion beats a kept one"),
    Theorem("Rl4co.Decode.kept_feasible", "proved", "if every parent beam has a finite-valued expansion, every kept expansion is finite (never −inf / infeasible)"),
    Theorem("Rl4co.Decode.kept_admitted", "proved", "a finite-valued kept expansion is admitted by its parent's mask (given C10 masked ⇒ −inf)"),
    Theorem("Rl4co.Decode.beams_distinct", "proved", "distinct forced starts per instance ⇒ the W sequences of an instance are pairwise distinct in every reachable state"),
    Theorem("Rl4co.Decode.best_is_max", "proved", "_select_best_beam: returned row is one of the instance's beams and its reward is the maximum over them"),
    Theorem("Rl4co.Decode.beamDecode_reach", "proved", "policy(…, decode_type='beam_search') only visits reachable states when topk is correct, for every max_steps"),
    Theorem("Rl4co.Decode.validTop_sound", "proved", "the executable check run on every recorded topk outcome implies ValidTop"),
    Theorem("Rl4co.Decode.beamStartRule_eq", "proved", "translator tie: beam forced moves come from env.select_start_nodes, not the generic helper (extracted)"),
    Theorem("Rl4co.Decode.beams_mask_confined_env_rule", "proved",
            "if the ENVIRONMENT's select_start_nodes returns reset-mask-admitted nodes (C12), every beam incl. its forced move is a mask-confined run — whatever the generic helper returns"),
    Theorem("Rl4co.Decode.beams_distinct_env_rule", "proved", "beams of an instance are pairwise distinct whenever the environment's rule returns distinct nodes per instance"),
    Theorem("Rl4co.Decode.topkLe_eq", "proved", "translator tie: extracted `torch.topk(…, self.beam_width, dim=1)` keeps the beam_width largest"),
    Theorem("Rl4co.Decode.selectedOf_eq", "proved", "translator tie: extracted `selected = topk_ind % num_nodes`"),
    Theorem("Rl4co.Decode.parentOf_eq", "proved", "translator tie: extracted `beam_parent = topk_ind // num_nodes`"),
    Theorem("Rl4co.Decode.bbiOf_eq", "proved", "translator tie: extracted shape of `batch_beam_idx = batch_beam_sequence + beam_parent * batch_size`"),
    Theorem("Rl4co.Decode.btFromActs_cons", "proved", "translator tie: extracted shape of the same expression in _backtrack"),
    Theorem("Rl4co.Decode.beamForced_eq", "proved", "translator tie: extracted `zeros_like` of the beam pre hook"),
    Theorem("Rl4co.Decode.beams_mask_confined", "proved",
            "forced first move excepted, every beam is a mask-confined run (given per-step finite expansions and masked ⇒ −inf)"),
    Theorem("Rl4co.Decode.beams_mask_confined_full", "proved",
            "beam-search half of beams_feasible: forced first move INCLUDED, every beam is a mask-confined run from reset, under the interface hypothesis that the "
            "start rule returns nodes the reset mask admits (OP: C12 op_starts_feasible after upstream fix d560d2a)"),
    Theorem("Rl4co.Decode.beams_mask_confined_counterexample", "proved",
            "without that start-rule hypothesis the statement is false (beam search itself does not constrain the forced starts; OP before d560d2a)"),
    Theorem("Rl4co.Decode.logp_is_policy_slot_counterexample", "proved", "¬ (logp_is_policy for slot-conditioned policies): PolyNet finding"),
    Theorem("Rl4co.Decode.logp_is_policy_slot_partial", "partial", "for slot-independent π it is logp_is_policy"),
]

register(Unit("C11", "loglik", run_c11, drivers=["drv_loglik"],
              lean_modules=["Rl4co.Props.C11.Loglik", "Rl4co.Props.C11.LoglikLoop", "Rl4co.Props.C11.LoglikStepwise"], theorems=C11_THEOREMS,
              assumptions=[ORACLE_NOTE, GLUE_NOTE, DET_NOTE, SCOPE_NOTE, COVER_NOTE]))
C02_THEOREMS = [
    Theorem("Rl4co.Decode.cvrp_decode_loop_terminates", "proved",
            "∀ batch of WF CVRP instances (mixed sizes), ∀ π, ∀ mask-respecting selector, with/without forced admitted starts: 2n_r+1 ≤ bound ≤ max_steps ⇒ "
            "the batched loop ends with all rows done after ≤ bound passes (cap not hit) and never evaluates an all-masked row"),
    Theorem("Rl4co.Decode.cvrp_decode_loop_terminates_default", "proved", "the same with the default cap max_steps = 1_000_000 extracted from the source"),
    Theorem("Rl4co.Decode.tsp_decode_loop_terminates", "proved",
            "∀ rectangular batch of TSP instances (n ≥ 1), ∀ π, ∀ mask-respecting selector, with/without forced admitted starts: n ≤ max_steps ⇒ all rows done after ≤ n passes, "
            "no all-masked row is ever evaluated (all rows finish together)"),
    Theorem("Rl4co.Decode.cvrp_done_of_long", "proved", "every mask-confined CVRP episode of ≥ 2n+1 steps has finished (steps_le + done_stable + mask_nonempty)"),
    Theorem("Rl4co.Decode.LoopHyp.shift", "proved", "C02's row facts survive a forced mask-admitted first move (multi-start / beam pre hook)"),
    Theorem("Rl4co.Decode.hsel_firstFinite", "proved", "the selector hypothesis is satisfiable for every environment (policy = −inf on masked actions, selector = first finite entry)"),
    Theorem("Rl4co.Decode.loopFuel_eq", "proved", "translator tie: extracted comparator of `if step > max_steps: break`"),
]
register(Unit("C02", "loglik", run_c02, drivers=["drv_loglik"], lean_modules=["Rl4co.Props.C02.Loglik"], theorems=C02_THEOREMS,
              assumptions=[ORACLE_NOTE, "the decoding-loop clause of C02 is proved for CVRP and TSP by instantiating Decode.loop_terminates with the families' own "
                           "steps_le / mask_nonempty / done_stable / run_length theorems; for the other families the loop theorem is available with the step bound as a hypothesis",
                           "the selector hypothesis (only mask-admitted actions are emitted) is C10's"]))
register(Unit("C10", "loglik_policy", run_c10_policy, drivers=["drv_loglik"], lean_modules=["Rl4co.Props.C11.LoglikStepwise"],
              theorems=[Theorem("Rl4co.Decode.policyMaskLogits_eq", "proved",
                                "translator tie: the mask_logits flag AttentionModelPolicy hands to the decoding machinery is its constructor argument itself (not combined with mask_inner)")],
              assumptions=[ORACLE_NOTE, "policy-level C10: the step distributions recorded from the real policies (output of process_logits, with the decoder's raw logits and the "
                           "environment mask) are judged directly — masked ⇒ probability exactly 0, normalised, equal to the masked softmax of the logits under the requested "
                           "constructor / call options, emitted action unmasked; the function-level theorems about process_logits are fam-logits' C10 unit",
                           "C01 at policy level: every emitted action is offered by the recorded mask (mask-confined run ⇒ feasible by the environment families' feasible_of_run) "
                           "and the environment's own checker runs inside get_reward"]))
register(Unit("C13", "loglik", run_c13, drivers=["drv_loglik"], lean_modules=["Rl4co.Props.C13.Loglik", "Rl4co.Props.C13.LoglikFindings", "Rl4co.Props.C13.LoglikStart"], theorems=C13_THEOREMS,
              assumptions=[ORACLE_NOTE, GLUE_NOTE, DET_NOTE, COVER_NOTE,
                           "the property is judged on the real outcome before internals are compared: kept sets against scores re-accumulated independently "
                           "from the recorded policy rows (Lean validTop, per step and instance), returned sequences against the recorded parent chain, returned "
                           "per-step log-probs against the recorded policy rows gathered along it and against teacher forcing",
                           "torch.topk / max tie-breaking is an observed oracle input, constrained to be valid",
                           "feasibility of beams is C01's (every kept action is mask-admitted: proved here; the environment's own checker runs in get_reward)"]))
