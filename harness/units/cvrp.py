"""CVRP units (C01–C06): real `CVRPEnv` vs `Rl4co.Cvrp` model vs `Rl4co.Spec.Cvrp`."""
from __future__ import annotations

import itertools
from typing import List

import envcorr
import geom
import rl
import os

from common import LEAN_DIR, Theorem, Unit, register
from rl import TensorDict, torch


class CvrpAdapter(envcorr.Adapter):
    name = "cvrp"

    def make_env(self, Q=1.0, **kw):
        from rl4co.envs.routing.cvrp.env import CVRPEnv

        return CVRPEnv(generator_params=dict(num_loc=5, vehicle_capacity=Q), check_solution=False)

    def variants(self):
        # the (normalised) vehicle capacity is an env-level option: default 1.0 and two non-default values
        return [{}, {}, {"Q": 0.5}, {"Q": 2.0}]

    def n_of(self, inst):
        return inst["n"]

    def gen_instance(self, rng, n, kind="random", Q=1.0):
        inst = self._gen_instance(rng, n, kind)
        inst["Q"] = Q
        # magnitudes: a share of instances lives in a scaled and/or shifted box (still exact on the 2^-10 grid)
        r = rng.random()
        if r < 0.15:
            k = rng.choice([2, 4, 8])
            inst["pts"] = [(x * k, y * k) for (x, y) in inst["pts"]]
            inst["box"] = f"x{k}"
        elif r < 0.30:
            sx, sy = rng.choice([(1000 * geom.GRID, 1000 * geom.GRID), (-3 * geom.GRID, 5 * geom.GRID), (100 * geom.GRID, 0)])
            inst["pts"] = [(x + sx, y + sy) for (x, y) in inst["pts"]]
            inst["box"] = f"shift({sx // geom.GRID},{sy // geom.GRID})"
        return inst

    def sizes(self, tier):
        base = [1, 2, 3, 5, 8, 8, 13]
        return base + ([30, 51] if tier == "quick" else [20, 30, 51, 101])

    def _gen_instance(self, rng, n, kind="random"):
        C = rng.choice([4, 8, 16, 32])
        if kind == "boundary":
            # demands that can fill the vehicle exactly: halves, quarters, and complements
            pool = [C // 2, C // 4, C // 4, C // 2, C, C - 1, 1, C // 2 + 1, C // 2 - 1]
            dem = [max(1, rng.choice(pool)) for _ in range(n)]
        elif kind == "tight":
            # fine demand grid (one unit = 2^-12 or 2^-18 of the capacity, the latter below the checker's 1e-5
            # tolerance); a group G of 2-3 customers whose demands sum to the capacity exactly (delta = 0) or
            # exceed it by ONE unit (delta = 1): the mask must offer the last member of G iff delta = 0
            C = rng.choice([1 << 12, 1 << 18])
            g = min(n, rng.choice([2, 3]))
            delta = rng.choice([0, 1]) if n >= 2 else 0
            cuts = sorted(rng.sample(range(1, C), g - 1)) if g > 1 else []
            parts = [b - a for a, b in zip([0] + cuts, cuts + [C])]
            parts[-1] += delta
            dem = parts + [rng.randint(1, C // 2) for _ in range(n - g)]
            order = list(range(n))
            rng.shuffle(order)
            dem2 = [0] * n
            group = []
            for src, dst in enumerate(order):
                dem2[dst] = dem[src]
                if src < g:
                    group.append(dst + 1)
            pts = geom.gen_points(rng, n + 1)
            return {"kind": kind, "n": n, "C": C, "demand": dem2, "pts": pts, "group": group, "delta": delta}
        else:
            dem = [rng.randint(1, min(9, C)) for _ in range(n)]
        pts = geom.gen_points(rng, n + 1)
        return {"kind": kind, "n": n, "C": C, "demand": dem, "pts": pts}

    def kinds(self):
        return ["random", "boundary", "tight"]

    def steering_prefix(self, rng, inst):
        # drive towards the boundary: serve the tight group in one route
        if inst.get("group") and rng.random() < 0.8:
            g = list(inst["group"])
            rng.shuffle(g)
            return g
        return None

    def to_td(self, insts):
        B = len(insts)
        locs = torch.tensor([geom.to_unit(i["pts"][1:]) for i in insts], dtype=torch.float32)
        depot = torch.tensor([geom.to_unit(i["pts"][:1])[0] for i in insts], dtype=torch.float32)
        demand = torch.tensor([[d * i.get("Q", 1.0) / i["C"] for d in i["demand"]] for i in insts], dtype=torch.float32)
        return TensorDict({"locs": locs, "depot": depot, "demand": demand}, batch_size=[B])

    def line(self, op, inst, actions):
        n, C, Q = inst["n"], inst["C"], inst.get("Q", 1.0)
        cap = int(Q * rl.SCALE)  # Q is a power of two: exact
        dem = [d * (cap // C) for d in inst["demand"]]
        D = geom.D_ticks(inst["pts"])
        flat = [v for row in D for v in row]
        tol = rl.tol_ticks(Q)
        return (f"cvrp.{op} {n} {cap} {tol} | " + " ".join(map(str, dem)) + " | " + " ".join(map(str, flat))
                + " | " + " ".join(map(str, actions)))

    def step_bound(self, inst):
        return 2 * inst["n"] + 1

    def handbuilt(self, rng, inst):
        n = inst["n"]
        perm = list(range(1, n + 1))
        rng.shuffle(perm)
        single = []
        for c in perm:
            single += [c, 0]
        out = [("each-own-route-no-final-depot", single[:-1]),
               ("each-own-route-trailing-depots", single + [0, 0]),
               ("leading-depot", [0] + single)]
        if sum(inst["demand"]) <= inst["C"]:
            out.append(("one-route-never-returns", perm))
        if inst.get("group"):
            rest = [c for c in perm if c not in inst["group"]]
            sol = list(inst["group"]) + [0]
            for c in rest:
                sol += [c, 0]
            out.append((f"tight-group-one-route-delta{inst['delta']}", sol))
        return out

    def enumerate_solutions(self, inst):
        n = inst["n"]
        for perm in itertools.permutations(range(1, n + 1)):
            for cuts in itertools.product([0, 1], repeat=n - 1):
                sol = []
                for k, c in enumerate(perm):
                    sol.append(c)
                    if k < n - 1 and cuts[k]:
                        sol.append(0)
                if not any(cuts):
                    sol.append(0)
                yield sol


def float_fill_probe(ctx):
    """Generic-stream probe (float32, the generator's own normalisation demand/capacity with the table
    capacities 30/40/50 — not dyadic): drive the REAL env along customer orders whose integer demands fill the
    vehicle exactly, or overfill it by one unit.  Exact integer arithmetic is the oracle: a customer whose
    demand fits (sum <= C) must be offered (C05), one that does not (sum > C) must not (C01)."""
    env = AD.make_env()
    total = ctx.budget(150, 2000)
    for g in range(total):
        C = ctx.rng.choice([30, 40, 50])
        over = ctx.rng.random() < 0.3
        k = ctx.rng.randint(3, 8)
        # k integer demands in 1..9 summing to C (+1 when `over`)
        target = C + (1 if over else 0)
        for _ in range(200):
            d = [ctx.rng.randint(1, 9) for _ in range(k)]
            if sum(d[:-1]) < target and 1 <= target - sum(d[:-1]) <= 9:
                d[-1] = target - sum(d[:-1])
                break
        else:
            continue
        extra = [ctx.rng.randint(1, 9) for _ in range(ctx.rng.randint(0, 2))]
        dem = d + extra
        n = len(dem)
        pts = geom.gen_points(ctx.rng, n + 1)
        td0 = TensorDict({"locs": torch.tensor([geom.to_unit(pts[1:])], dtype=torch.float32),
                          "depot": torch.tensor([geom.to_unit(pts[:1])[0]], dtype=torch.float32),
                          "demand": torch.tensor([dem], dtype=torch.float32) / C}, batch_size=[1])
        td = env.reset(td0)
        used = 0
        ctx.case(("cvrp-float", C, tuple(dem), over))
        ctx.count(f"cvrp-float.C={C}.{'over' if over else 'exact'}")
        for j in range(k):
            offered = bool(td["action_mask"][0, j + 1])
            fits = used + dem[j] <= C
            if fits and not offered:
                ctx.violation("cvrp:float32-exact-fill-hidden",
                              "float32 rounding of demand/capacity hides a customer whose (integer) demand fits the vehicle exactly",
                              {"capacity": C, "demands": dem, "served_in_order": list(range(1, j + 1)), "hidden_customer": j + 1,
                               "used_units": used, "demand_units": dem[j]})
                break
            if not fits and offered:
                ctx.violation("cvrp:float32-overload-admitted",
                              "the real mask offers a customer whose demand overfills the vehicle",
                              {"capacity": C, "demands": dem, "served_in_order": list(range(1, j + 1)), "customer": j + 1})
                break
            if not fits:
                break
            td.set("action", torch.tensor([j + 1]))
            td = env.step(td)["next"]
            used += dem[j]
        ctx.sample({"probe": "cvrp-float", "capacity": C, "demands": dem, "over": over}, cap=2)


AD = CvrpAdapter()
MODEL_NOTE = ("CVRPEnv modelled per instance over integer ticks (Rl4co/Env/Cvrp.lean); coordinates→distance "
              "arithmetic and float32 rounding are outside the model (exact-stream instances make them exact)")

GEN_NOTE = ("`get_action_mask` and `_step` of CVRPEnv are additionally REGENERATED from the Python AST on every run "
            "(harness/rowtrans.py → Rl4co/Generated/CvrpRow.lean: batched tensor statements translated operator by operator "
            "into functions of one row); Rl4co/Props/C01/CvrpGenerated.lean proves them equal to the hand-written model under the "
            "list representation of the state and lifts C01/C02/C05 to the regenerated environment; the driver runs the "
            "regenerated environment next to the model and its trace is compared with the real env's as well")
GEN_MODULES = ["Rl4co.Generated.CvrpRow", "Rl4co.Env.CvrpGen", "Rl4co.Props.C01.CvrpGenerated"]
GEN_BRIDGE = [Theorem("Rl4co.Cvrp.Gen.mask_gen_eq", "proved", "obligation: the regenerated get_action_mask of a row IS the model's mask, action by action"),
              Theorem("Rl4co.Cvrp.Gen.step_gen_eq", "proved", "obligation: the regenerated _step of a row IS the model's step (current node, load, visited, done)"),
              Theorem("Rl4co.Cvrp.Gen.gen_run_sim", "proved", "every mask-confined run of the regenerated environment is a mask-confined run of the model (simulation)"),
              Theorem("Rl4co.Cvrp.Gen.gen_run_of_run", "proved", "and conversely")]

register(Unit("C01", "cvrp", lambda ctx: envcorr.check_feasibility(ctx, AD),
              drivers=["drv_cvrp"], lean_modules=["Rl4co.Props.C01.CvrpParams", "Rl4co.Props.C01.Cvrp"] + GEN_MODULES,
              theorems=[Theorem("Rl4co.Cvrp.params_match", "proved", "the source tokens hard-coded in the CVRP model (depot rule, load reset, checker clamp/tolerance) are what extract.py reads from the current source"),
                        Theorem("Rl4co.Cvrp.feasible_of_run", "proved",
                                "every mask-confined finished CVRP episode is Spec-feasible (any n, any demands ≥ 0)")] + GEN_BRIDGE + [
                        Theorem("Rl4co.Cvrp.Gen.gen_feasible_of_run", "proved",
                                "C01 for the environment REGENERATED from get_action_mask/_step: mask-confined finished episode ⇒ Spec-feasible")],
              assumptions=[MODEL_NOTE, GEN_NOTE]))
register(Unit("C02", "cvrp", lambda ctx: envcorr.check_termination(ctx, AD),
              drivers=["drv_cvrp"], lean_modules=["Rl4co.Props.C01.CvrpParams", "Rl4co.Props.C02.Cvrp"] + GEN_MODULES,
              theorems=[Theorem("Rl4co.Cvrp.params_match", "proved", "the source tokens hard-coded in the CVRP model (depot rule, load reset, checker clamp/tolerance) are what extract.py reads from the current source"),
                        Theorem("Rl4co.Cvrp.mask_nonempty", "proved", "every state offers an action"),
                        Theorem("Rl4co.Cvrp.done_stable", "proved", "done is absorbing under admitted steps"),
                        Theorem("Rl4co.Cvrp.steps_le", "proved", "an unfinished mask-confined run has at most 2n+1 steps")] + GEN_BRIDGE + [
                        Theorem("Rl4co.Cvrp.Gen.gen_mask_nonempty", "proved", "C02 for the regenerated environment: every reachable state offers an action"),
                        Theorem("Rl4co.Cvrp.Gen.gen_steps_le", "proved", "C02 for the regenerated environment: at most 2n+1 steps while unfinished")],
              assumptions=[MODEL_NOTE, GEN_NOTE]))
register(Unit("C03", "cvrp", lambda ctx: envcorr.check_reward(ctx, AD),
              drivers=["drv_cvrp"], lean_modules=["Rl4co.Props.C03.Cvrp"],
              theorems=[Theorem("Rl4co.Cvrp.reward_eq_objective", "proved",
                                "reward = −(sum of closed route lengths) for every action list when D 0 0 = 0")],
              assumptions=[MODEL_NOTE]))
register(Unit("C04", "cvrp", lambda ctx: envcorr.check_batch_independence(ctx, AD),
              drivers=["drv_cvrp"], lean_modules=["Rl4co.Props.C04.Cvrp"],
              theorems=[Theorem("Rl4co.Cvrp.pad_noop", "proved",
                                "a depot padding step after done changes neither done, mask nor reward")],
              assumptions=[MODEL_NOTE, "the batched code is compared row-wise against the per-instance model"]))
if os.path.exists(os.path.join(LEAN_DIR, "Rl4co/Props/C05/Cvrp.lean")):
  register(Unit("C05", "cvrp", lambda ctx: envcorr.check_completeness(ctx, AD),
              drivers=["drv_cvrp"], lean_modules=["Rl4co.Props.C01.CvrpParams", "Rl4co.Props.C05.Cvrp", "Rl4co.Props.C05.CvrpOpt"] + GEN_MODULES,
              theorems=[Theorem("Rl4co.Cvrp.params_match", "proved", "the source tokens hard-coded in the CVRP model (depot rule, load reset, checker clamp/tolerance) are what extract.py reads from the current source"),
                        Theorem("Rl4co.Cvrp.run_of_feasible", "proved",
                                "every canonical Spec-feasible solution is a mask-confined finished run"),
                        Theorem("Rl4co.Cvrp.feasible_canon", "proved",
                                "removing pointless depot visits keeps a solution feasible (and objective_canon: keeps its objective)"),
                        Theorem("Rl4co.Cvrp.opt_reachable", "proved",
                                "rewards of finished mask-confined episodes = negated objectives of ALL feasible solutions"),
                        Theorem("Rl4co.Cvrp.best_reward_eq_optimum", "proved",
                                "an optimal feasible solution's value is attained by a finished mask-confined episode and never exceeded")] + GEN_BRIDGE + [
                        Theorem("Rl4co.Cvrp.Gen.gen_opt_reachable", "proved",
                                "C05 for the regenerated environment: rewards of its finished mask-confined episodes = negated objectives of ALL feasible solutions")],
              assumptions=[MODEL_NOTE, GEN_NOTE]))
  register(Unit("C05", "cvrp_float", float_fill_probe, drivers=[], lean_modules=[], theorems=[],
                assumptions=["generic (float32) stream probe of the real CVRP mask at exact capacity fill with the generator's "
                             "non-dyadic normalisation; oracle = exact integer arithmetic; no theorem: float32 is outside the model"]))
if os.path.exists(os.path.join(LEAN_DIR, "Rl4co/Props/C06/Cvrp.lean")):
  register(Unit("C06", "cvrp", lambda ctx: envcorr.check_checker(ctx, AD),
              drivers=["drv_cvrp"], lean_modules=["Rl4co.Props.C01.CvrpParams", "Rl4co.Props.C06.Cvrp"],
              theorems=[Theorem("Rl4co.Cvrp.params_match", "proved", "the source tokens hard-coded in the CVRP model (depot rule, load reset, checker clamp/tolerance) are what extract.py reads from the current source"),
                        Theorem("Rl4co.Cvrp.check_complete", "proved", "Spec-feasible ⇒ checker accepts"),
                        Theorem("Rl4co.Cvrp.check_sound", "proved", "checker accepts ⇒ feasible up to the load tolerance (demands ≥ 0)")],
              assumptions=[MODEL_NOTE]))
