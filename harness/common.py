"""Shared plumbing for the verification harness: paths, unit registry, result records.

A *unit* is the smallest piece a property check is made of: one model family (e.g. the CVRP
environment) looked at through one property (e.g. C01).  It names the Lean modules and theorems
that carry the universally quantified claim, and has a `run(ctx)` that drives the REAL code in
/repo and the Lean model's executable definitions on the same inputs (the correspondence), and
evaluates the Lean `Spec` oracle on the real outcomes.
"""
from __future__ import annotations

import dataclasses
import json
import os
import random
import time
import traceback
from typing import Any, Callable, Dict, List, Optional

VERIF = os.path.dirname(os.path.dirname(os.path.abspath(__file__)))
LEAN_DIR = os.environ.get("VERIF_LEAN_DIR") or os.path.join(VERIF, "lean")
REPO = os.environ.get("RL4CO_REPO", "/repo")
EVIDENCE_DIR = os.path.join(VERIF, "evidence")
REPLAY_DIR = os.path.join(VERIF, "replays")
CORPUS_DIR = os.path.join(VERIF, "corpus")
KNOWN_FINDINGS = os.path.join(VERIF, "known_findings.json")

ALLOWED_AXIOMS = {"propext", "Classical.choice", "Quot.sound"}


@dataclasses.dataclass
class Theorem:
    """A Lean theorem that is part of a property's proof obligations."""

    name: str  # fully qualified Lean name
    status: str = "proved"  # proved | partial  (partial = proved under a named extra hypothesis)
    note: str = ""  # what it says, in one line


@dataclasses.dataclass
class Unit:
    prop: str  # "C01"
    name: str  # "cvrp"
    run: Callable[["Ctx"], None]
    lean_modules: List[str] = dataclasses.field(default_factory=list)
    drivers: List[str] = dataclasses.field(default_factory=list)  # driver executables used, e.g. ["drv_cvrp"]
    theorems: List[Theorem] = dataclasses.field(default_factory=list)
    # optional deeper search for a failing input, used when a tie is broken
    search: Optional[Callable[["Ctx"], None]] = None
    replay: Optional[Callable[["Ctx", Any], None]] = None
    # what is modelled / trusted for this unit (goes to evidence.assumptions)
    assumptions: List[str] = dataclasses.field(default_factory=list)
    weight: float = 1.0  # relative cost, for scheduling


_REGISTRY: List[Unit] = []


def register(unit: Unit) -> Unit:
    _REGISTRY.append(unit)
    return unit


def all_units() -> List[Unit]:
    return list(_REGISTRY)


class Ctx:
    """Run context handed to a unit.  Collects counts, samples, disagreements and violations."""

    def __init__(self, prop: str, unit: str, tier: str, seed: int, searching: bool = False):
        self.prop = prop
        self.unit = unit
        self.tier = tier
        self.seed = seed
        self.searching = searching
        # one PRNG per (seed, unit): every random choice derives from it, so a run replays exactly
        self.rng = random.Random(f"{seed}/{prop}/{unit}")
        self.counts: Dict[str, int] = {}
        self.samples: List[Any] = []
        self.disagreements: List[dict] = []  # model != code
        self.violations: List[dict] = []  # property fails on the real code (spec oracle)
        self.known_hits: List[dict] = []
        self.notes: List[str] = []
        self.distinct: set = set()
        self.evaluations = 0
        self.t0 = time.time()
        self._driver = None

    # ---- budget -----------------------------------------------------------------------------
    def budget(self, quick: int, thorough: int) -> int:
        if self.searching:
            return max(quick, thorough)
        return thorough if self.tier == "thorough" else quick

    # ---- bookkeeping ------------------------------------------------------------------------
    def count(self, key: str, k: int = 1) -> None:
        self.counts[key] = self.counts.get(key, 0) + k

    def case(self, fingerprint: Any, nontrivial: bool = True) -> None:
        """Record one evaluated case; `fingerprint` identifies it for the distinct count."""
        self.evaluations += 1
        if nontrivial:
            self.distinct.add(hash(fingerprint) if not isinstance(fingerprint, (int, str)) else fingerprint)

    def sample(self, obj: Any, cap: int = 3) -> None:
        if len(self.samples) < cap:
            self.samples.append(obj)

    def note(self, msg: str) -> None:
        self.notes.append(msg)

    def disagreement(self, what: str, detail: dict) -> None:
        """Model and implementation disagree on an observable (the correspondence is broken)."""
        if len(self.disagreements) < 20:
            self.disagreements.append({"unit": self.unit, "what": what, "detail": detail})
        self.count("disagreements")

    def violation(self, key: str, what: str, witness: dict) -> None:
        """The property itself fails on the REAL code for `witness` (judged by the spec oracle or by
        the property's own definition).  `key` is a stable signature of the failure class used to
        match known findings."""
        rec = {"unit": self.unit, "key": key, "what": what, "witness": witness}
        # keep a few witnesses per failure class (key) so that a frequent class cannot hide a rarer one
        nkey = sum(1 for v in self.violations if v["key"] == key)
        if nkey < 3 and len(self.violations) < 90:
            self.violations.append(rec)
        self.count("violations")
        self.count("violations." + key)

    # ---- Lean driver ------------------------------------------------------------------------
    @property
    def driver(self):
        if self._driver is None:
            from leanio import Driver

            self._driver = Driver()
        return self._driver

    def close(self):
        if self._driver is not None:
            self._driver.close()
            self._driver = None

    def result(self) -> dict:
        return {
            "unit": self.unit,
            "prop": self.prop,
            "counts": self.counts,
            "samples": self.samples,
            "disagreements": self.disagreements,
            "violations": self.violations,
            "notes": self.notes,
            "evaluations": self.evaluations,
            "distinct": len(self.distinct),
            "wall_s": round(time.time() - self.t0, 2),
        }


def load_known_findings() -> List[dict]:
    if not os.path.exists(KNOWN_FINDINGS):
        return []
    with open(KNOWN_FINDINGS) as f:
        return json.load(f).get("findings", [])


def jdump(obj: Any, path: str) -> None:
    os.makedirs(os.path.dirname(path), exist_ok=True)
    tmp = path + ".tmp"
    with open(tmp, "w") as f:
        json.dump(obj, f, indent=1, default=str)
    os.replace(tmp, path)
