"""Expression-level translator: Python AST of straight-line numeric code  →  Lean 4 definitions.

The token probes of `extract.py` classify one statement into an enumerated tag.  This module goes
one step further for the pieces of rl4co that are *straight-line arithmetic over scalars and flat
tensors* (the Welford update of `RewardScaler`, the exponential-moving-average recurrence, the
warm-up weight and mixture): the statements themselves are translated, operator by operator, into a
Lean term over an arbitrary scalar type `K`, and written to `lean/Rl4co/Generated/Numeric.lean` on
every run.  `Rl4co/Props/C20/TrainGenerated.lean` proves that each generated definition *is* the
hand-written model the property theorems are about (`rfl` / `simp`), so the theorems are re-checked
against what the code says now: any edit of such a formula — not only the ones an enumerated tag
foresaw — changes the generated term and the bridging lemma stops compiling (→ failing-input search).

The translated language (anything else raises `Untranslatable` → the committed text of that
definition is kept, status `pattern-miss`, never an alarm):

  kinds      S scalar (K) · V flat tensor (List K) · N natural number · C numeric literal
  expr       name | self.attr | literal | e1 (+|-|*|/) e2 | -e | len(e) | float(e)
             | e.sum() | e.mean() | e.sqrt() | e.detach() | e.reshape(-1) | e.float() | e.to(..)
             (binary operators broadcast: S∘S, V∘S, S∘V pointwise via `List.map`, V∘V via `List.zipWith`;
              N is cast to K when it meets S/V or is subtracted/divided)
  statement  x = e | x (+|-|*|/)= e | self.attr = e | self.attr (+|-|*|/)= e
"""
from __future__ import annotations

import ast
import os
from fractions import Fraction
from typing import Callable, Dict, List, Optional, Tuple

import extract

NUMERIC_OUT = os.path.join(os.path.dirname(extract.OUT), "Numeric.lean")
LOSSES_OUT = os.path.join(os.path.dirname(extract.OUT), "Losses.lean")
PPO_OUT = os.path.join(os.path.dirname(extract.OUT), "Ppo.lean")


class Untranslatable(Exception):
    pass


BIN = {ast.Add: "+", ast.Sub: "-", ast.Mult: "*", ast.Div: "/"}
IDENTITY_METHODS = {"float", "to", "detach", "clone", "double", "cpu"}


class Tr:
    """Translate expressions in an environment name -> (lean term, kind)."""

    def __init__(self, env: Dict[str, Tuple[str, str]], selfenv: Dict[str, Tuple[str, str]],
                 funcs: Optional[Dict[str, Tuple[str, str]]] = None):
        self.env = dict(env)
        self.selfenv = dict(selfenv)
        self.funcs = funcs or {}
        self.fresh = 0
        self.expanded: Dict[str, str] = {}
        self.defidx: Dict[str, int] = {}

    def var(self) -> str:
        self.fresh += 1
        return f"x{self.fresh}"

    def expand(self, text: str) -> str:
        """sort key only: let-bound names replaced by their definitions, bound-variable numbers dropped"""
        import re as _re
        for _ in range(6):
            new = _re.sub(r"[A-Za-z_][A-Za-z_0-9]*", lambda m: self.expanded.get(m.group(0), m.group(0)), text)
            if new == text:
                break
            text = new
        return _re.sub(r"\bx\d+\b", "x", text)

    # ---- literals ---------------------------------------------------------------------------
    @staticmethod
    def lit_K(v) -> str:
        fr = Fraction(str(v)) if not isinstance(v, int) else Fraction(v)
        def nat(n):
            return "(0 : K)" if n == 0 else "(1 : K)" if n == 1 else f"(({n} : Nat) : K)"
        if fr < 0:
            raise Untranslatable("negative literal")
        if fr.denominator == 1:
            return nat(fr.numerator)
        return f"({nat(fr.numerator)} / {nat(fr.denominator)})"

    def toK(self, t: str, k: str, raw=None) -> str:
        if k == "N":
            return f"(({t} : Nat) : K)"
        if k == "C":
            return self.lit_K(raw)
        return t

    # ---- expressions ------------------------------------------------------------------------
    def expr(self, n: ast.AST) -> Tuple[str, str, object]:
        """returns (lean term, kind, raw literal value or None)"""
        key = extract.norm(n)
        if key in self.funcs:  # declared atoms (by source text): external values the formula reads
            t, k = self.funcs[key]
            return t, k, None
        if isinstance(n, ast.Name):
            if n.id not in self.env:
                raise Untranslatable(f"unknown name {n.id}")
            t, k = self.env[n.id]
            return t, k, None
        if isinstance(n, ast.Attribute) and isinstance(n.value, ast.Name) and n.value.id == "self":
            if n.attr not in self.selfenv:
                raise Untranslatable(f"unknown attribute self.{n.attr}")
            t, k = self.selfenv[n.attr]
            return t, k, None
        if isinstance(n, ast.Constant) and isinstance(n.value, (int, float)) and not isinstance(n.value, bool):
            return str(n.value), "C", n.value
        if isinstance(n, ast.UnaryOp) and isinstance(n.op, ast.USub):
            t, k, raw = self.expr(n.operand)
            if k == "V":
                x = self.var()
                return f"(List.map (fun {x} => - {x}) {t})", "V", None
            return f"(- {self.toK(t, k, raw)})", "S", None
        if isinstance(n, ast.BinOp) and type(n.op) in BIN:
            return self.binop(BIN[type(n.op)], self.expr(n.left), self.expr(n.right))
        if isinstance(n, ast.Call):
            return self.call(n)
        raise Untranslatable(ast.unparse(n))

    def binop(self, op: str, l, r) -> Tuple[str, str, object]:
        (lt, lk, lraw), (rt, rk, rraw) = l, r
        if lk == "C" and rk == "C":
            raise Untranslatable("constant folding not needed")
        # naturals stay natural under + and * with naturals / literals
        if op in "+*" and lk in "NC" and rk in "NC":
            a = lt if lk == "N" else str(int(lraw))
            b = rt if rk == "N" else str(int(rraw))
            return f"({a} {op} {b})", "N", None
        if lk in "NCS" and rk in "NCS":
            return f"({self.toK(lt, lk, lraw)} {op} {self.toK(rt, rk, rraw)})", "S", None
        if lk == "V" and rk in "NCS":
            x = self.var()
            return f"(List.map (fun {x} => {x} {op} {self.toK(rt, rk, rraw)}) {lt})", "V", None
        if lk in "NCS" and rk == "V":
            x = self.var()
            return f"(List.map (fun {x} => {self.toK(lt, lk, lraw)} {op} {x}) {rt})", "V", None
        if lk == "V" and rk == "V":
            # canonical operand order for the commutative operators: by expanded text, ties (e.g. two deviations
            # from differently updated `mean`s, textually equal) by order of definition
            key = lambda t: (self.expand(t), self.defidx.get(t, 10 ** 6))
            if op in "+*" and key(lt) > key(rt):
                lt, rt = rt, lt
            return f"(List.zipWith (fun a b => a {op} b) {lt} {rt})", "V", None
        raise Untranslatable(f"kinds {lk}{op}{rk}")

    def call(self, n: ast.Call) -> Tuple[str, str, object]:
        f = n.func
        if isinstance(f, ast.Name) and f.id == "len" and len(n.args) == 1:
            t, k, _ = self.expr(n.args[0])
            if k != "V":
                raise Untranslatable("len of non-vector")
            return f"{t}.length", "N", None
        if isinstance(f, ast.Name) and f.id == "float" and len(n.args) == 1:
            t, k, raw = self.expr(n.args[0])
            return self.toK(t, k, raw), "S", None
        if isinstance(f, ast.Attribute):
            t, k, raw = self.expr(f.value)
            m = f.attr
            if m in IDENTITY_METHODS:
                return t, k, raw
            if m == "reshape" and len(n.args) == 1 and extract.norm(n.args[0]) == "-1" and k == "V":
                return t, k, raw
            if m == "sum" and not n.args and not n.keywords and k == "V":
                return f"(List.sum {t})", "S", None
            if m == "mean" and not n.args and not n.keywords and k == "V":
                return f"(List.sum {t} / (({t}.length : Nat) : K))", "S", None
            if m == "sqrt" and not n.args and k in "S":
                return f"(sq {t})", "S", None
        key = extract.norm(n)
        if key in self.funcs:
            t, k = self.funcs[key]
            return t, k, None
        raise Untranslatable(ast.unparse(n))

    # ---- statements -------------------------------------------------------------------------
    def stmts(self, body: List[ast.stmt]) -> List[Tuple[str, str]]:
        """translate assignments in order; returns the `let` bindings (lean name, term)"""
        lets: List[Tuple[str, str]] = []
        for s in body:
            if isinstance(s, ast.Expr) and isinstance(s.value, ast.Constant):
                continue  # docstring
            if isinstance(s, ast.Assign) and len(s.targets) == 1:
                tgt, val = s.targets[0], self.expr(s.value)
            elif isinstance(s, ast.AugAssign) and type(s.op) in BIN:
                tgt = s.target
                val = self.binop(BIN[type(s.op)], self.expr(s.target), self.expr(s.value))
            else:
                raise Untranslatable(ast.unparse(s))
            t, k, raw = val
            if k == "C":
                t, k = self.lit_K(raw), "S"
            if isinstance(tgt, ast.Name):
                name = tgt.id
                self.expanded[name] = self.expand(t)
                self.defidx[name] = len(self.defidx)
                self.env[name] = (name, k)
            elif isinstance(tgt, ast.Attribute) and isinstance(tgt.value, ast.Name) and tgt.value.id == "self":
                name = tgt.attr
                old = self.selfenv.get(name)
                if old is not None and old[1] != k:
                    raise Untranslatable(f"kind of self.{name} changes {old[1]}→{k}")
                self.selfenv[name] = (name, k)
            else:
                raise Untranslatable(ast.unparse(tgt))
            lets.append((name, t))
        return lets


LEAN_TY = {"S": "K", "V": "List K", "N": "Nat"}


def emit_def(name: str, doc: str, params: List[Tuple[str, str]], lets: List[Tuple[str, str]],
             outs: List[Tuple[str, str]], uses_sq: bool) -> str:
    ps = " ".join(f"({p} : {LEAN_TY[k]})" for p, k in params)
    if uses_sq:
        ps = "(sq : K → K) " + ps
    rty = " × ".join(LEAN_TY[k] for _, k in outs)
    body = "".join(f"  let {n} := {t}\n" for n, t in lets)
    ret = outs[0][0] if len(outs) == 1 else "(" + ", ".join(o for o, _ in outs) + ")"
    return f"/-- {doc} -/\ndef {name} {ps} : {rty} :=\n{body}  {ret}\n"


# ---- targets --------------------------------------------------------------------------------

def _fn(rel: str, qual: str) -> ast.FunctionDef:
    tree = extract.parse(rel)
    fn = extract.find_function(tree, qual) if tree is not None else None
    if fn is None:
        raise Untranslatable(f"{rel}:{qual} not found")
    return fn


def _if_branch(fn: ast.FunctionDef, test: str, orelse: bool) -> List[ast.stmt]:
    for n in ast.walk(fn):
        if isinstance(n, ast.If) and extract.norm(n.test) == test:
            return n.orelse if orelse else n.body
    raise Untranslatable(f"`if {test}` not found")


def _assigns(body: List[ast.stmt], names: List[str]) -> List[ast.stmt]:
    out = []
    for s in body:
        tg = s.targets[0] if isinstance(s, ast.Assign) and len(s.targets) == 1 else (
            s.target if isinstance(s, ast.AugAssign) else None)
        if tg is not None and extract.norm(tg) in names:
            out.append(s)
    if not out:
        raise Untranslatable(f"no assignment to {names}")
    return out


UTILS = "rl4co/models/rl/common/utils.py"
BASELINES = "rl4co/models/rl/reinforce/baselines.py"


def t_welford_update() -> str:
    fn = _fn(UTILS, "RewardScaler.update")
    tr = Tr({"batch": ("batch", "V")}, {"count": ("count", "N"), "mean": ("mean", "S"), "M2": ("M2", "S")})
    lets = tr.stmts(fn.body)
    outs = [(n, tr.selfenv[n][1]) for n in ("count", "mean", "M2")]
    return emit_def("welfordUpdate", "utils.py:RewardScaler.update, statement by statement; returns the new (count, mean, M2)",
                    [("count", "N"), ("mean", "S"), ("M2", "S"), ("batch", "V")], lets, outs, False)


def t_scaler_factor() -> str:
    fn = _fn(UTILS, "RewardScaler.__call__")
    tr = Tr({"scores": ("scores", "V")}, {"count": ("count", "N"), "mean": ("mean", "S"), "M2": ("M2", "S")},
            funcs={"torch.finfo(scores.dtype).eps": ("eps", "S")})
    lets = tr.stmts(_assigns(fn.body, ["std", "score_scaling_factor"]))
    return emit_def("scalerFactor", "utils.py:RewardScaler.__call__  `std = (M2 / (count - 1)).sqrt()`, `score_scaling_factor = std + eps`",
                    [("eps", "S"), ("count", "N"), ("M2", "S")], lets, [("score_scaling_factor", "S")], True)


def _scaler_branch(test: str, name: str, doc: str) -> str:
    fn = _fn(UTILS, "RewardScaler.__call__")
    body = _if_branch(fn, test, False)
    tr = Tr({"scores": ("scores", "V"), "score_scaling_factor": ("fac", "S")}, {"mean": ("mean", "S")})
    lets = tr.stmts(body)
    return emit_def(name, doc, [("mean", "S"), ("fac", "S"), ("scores", "V")], lets, [("scores", "V")], False)


def t_scaler_norm() -> str:
    return _scaler_branch("self.scale=='norm'", "scalerNorm",
                          "utils.py:RewardScaler.__call__  branch `scale == 'norm'`: `scores = (scores - mean) / factor`")


def t_scaler_scale() -> str:
    return _scaler_branch("self.scale=='scale'", "scalerScale",
                          "utils.py:RewardScaler.__call__  branch `scale == 'scale'`: `scores /= factor`")


def t_ema_first() -> str:
    fn = _fn(BASELINES, "ExponentialBaseline.eval")
    tr = Tr({"reward": ("reward", "V")}, {"beta": ("beta", "S"), "v": ("v", "S")})
    lets = tr.stmts(_if_branch(fn, "self.visNone", False))
    return emit_def("emaFirst", "baselines.py:ExponentialBaseline.eval  branch `self.v is None`: `v = reward.mean()`",
                    [("reward", "V")], lets, [("v", "S")], False)


def t_ema_step() -> str:
    fn = _fn(BASELINES, "ExponentialBaseline.eval")
    tr = Tr({"reward": ("reward", "V")}, {"beta": ("beta", "S"), "v": ("v0", "S")})
    lets = tr.stmts(_if_branch(fn, "self.visNone", True))
    return emit_def("emaStep", "baselines.py:ExponentialBaseline.eval  else-branch: `v = beta * self.v + (1.0 - beta) * reward.mean()`",
                    [("beta", "S"), ("v0", "S"), ("reward", "V")], lets, [("v", "S")], False)


def t_warmup_alpha() -> str:
    fn = _fn(BASELINES, "WarmupBaseline.epoch_callback")
    stm = [s for s in ast.walk(fn) if isinstance(s, ast.Assign) and extract.norm(s.targets[0]) == "self.alpha"]
    if len(stm) != 1:
        raise Untranslatable("self.alpha assignment")
    tr = Tr({}, {"n_epochs": ("nEpochs", "N")}, funcs={"kw['epoch']": ("epoch", "N")})
    # the kind of self.alpha is S; allow the assignment
    tr.selfenv["alpha"] = ("alpha", "S")
    lets = tr.stmts(stm)
    return emit_def("warmupAlpha", "baselines.py:WarmupBaseline.epoch_callback  `self.alpha = (epoch + 1) / float(self.n_epochs)`",
                    [("epoch", "N"), ("nEpochs", "N")], lets, [("alpha", "S")], False)


def t_warmup_mix() -> str:
    fn = _fn(BASELINES, "WarmupBaseline.eval")
    rets = [s for s in ast.walk(fn) if isinstance(s, ast.Return) and isinstance(s.value, ast.Tuple)
            and len(s.value.elts) == 2 and "self.alpha" in extract.norm(s.value)]
    if len(rets) != 1:
        raise Untranslatable("mixture return")
    tr = Tr({"v_b": ("v_b", "S"), "v_wb": ("v_wb", "S"), "l_b": ("l_b", "S"), "l_wb": ("l_wb", "S")},
            {"alpha": ("alpha", "S")})
    (tv, kv, _), (tl, kl, _) = tr.expr(rets[0].value.elts[0]), tr.expr(rets[0].value.elts[1])
    if kv != "S" or kl != "S":
        raise Untranslatable("mixture kinds")
    return emit_def("warmupMix", "baselines.py:WarmupBaseline.eval  `return (alpha * v_b + (1 - alpha) * v_wb, alpha * l_b + (1 - alpha) * l_wb)` (per element)",
                    [("alpha", "S"), ("v_b", "S"), ("v_wb", "S"), ("l_b", "S"), ("l_wb", "S")],
                    [("val", tv), ("loss", tl)], [("val", "S"), ("loss", "S")], False)



# ---- shaped-tensor mode -----------------------------------------------------------------------
# Kinds: T = `Ten (Dual K)` (a tensor of rank ≤ 2 with gradients), D = `Dual K` (a 0-dim value).
# Broadcasting binary operators may raise in torch: they become `Ten.bop … : Option`, bound with `←`
# in the `Option` monad, so the generated definition returns `none` exactly when torch raises.
class TenTr:
    def __init__(self, env: Dict[str, Tuple[str, str]], atoms: Optional[Dict[str, Tuple[str, str]]] = None,
                 unary: Optional[Dict[str, str]] = None):
        self.env = dict(env)
        self.atoms = atoms or {}
        self.unary = unary or {}   # source text of a callee → Lean function applied entrywise (T → T)
        self.lines: List[str] = []
        self.fresh = 0

    def tmp(self) -> str:
        self.fresh += 1
        return f"t{self.fresh}"

    def expr(self, n: ast.AST) -> Tuple[str, str]:
        key = extract.norm(n)
        if key in self.atoms:
            return self.atoms[key]
        if isinstance(n, ast.Name):
            if n.id not in self.env:
                raise Untranslatable(f"unknown name {n.id}")
            return self.env[n.id]
        if isinstance(n, ast.UnaryOp) and isinstance(n.op, ast.USub):
            t, k = self.expr(n.operand)
            return (f"(- {t})", "D") if k == "D" else (f"(Ten.map (fun x => - x) {t})", "T")
        if isinstance(n, ast.BinOp) and type(n.op) in BIN and BIN[type(n.op)] in "+-*":
            op = BIN[type(n.op)]
            (lt, lk), (rt, rk) = self.expr(n.left), self.expr(n.right)
            if op in "+*" and (lk, lt) > (rk, rt):
                # canonical operand order for the commutative operators (by kind, then Lean text), so that a
                # commuted source expression regenerates the same term
                (lt, lk), (rt, rk) = (rt, rk), (lt, lk)
            if lk == "D" and rk == "D":
                return f"({lt} {op} {rt})", "D"
            lt = lt if lk == "T" else f"(Ten.scalar {lt})"
            rt = rt if rk == "T" else f"(Ten.scalar {rt})"
            v = self.tmp()
            self.lines.append(f"  let {v} ← Ten.bop (fun a b => a {op} b) {lt} {rt}")
            return v, "T"
        if isinstance(n, ast.Call):
            f = n.func
            fkey = extract.norm(f)
            if fkey in self.unary and len(n.args) == 1 and not n.keywords:
                t, k = self.expr(n.args[0])
                return (f"(Ten.map {self.unary[fkey]} {t})", "T") if k == "T" else (f"({self.unary[fkey]} {t})", "D")
            if fkey == "F.mse_loss" and len(n.args) == 2 and not n.keywords:
                (lt, lk), (rt, rk) = self.expr(n.args[0]), self.expr(n.args[1])
                if lk != "T" or rk != "T":
                    raise Untranslatable("mse_loss on non-tensors")
                v = self.tmp()
                self.lines.append(f"  let {v} ← Ten.bop (fun a b => (a - b) * (a - b)) {lt} {rt}")
                return f"(Ten.meanAll {v})", "D"
            if isinstance(f, ast.Attribute):
                m = f.attr
                t, k = self.expr(f.value)
                if m == "detach" and not n.args:
                    return (f"(Ten.map Dual.detach {t})", "T") if k == "T" else (f"(Dual.detach {t})", "D")
                if m == "mean" and not n.args and not n.keywords and k == "T":
                    return f"(Ten.meanAll {t})", "D"
                if m == "mean" and k == "T" and not n.args and {kw.arg: extract.norm(kw.value) for kw in n.keywords} in (
                        {"dim": "on_dim", "keepdims": "True"}, {"dim": "1", "keepdims": "True"}, {"dim": "-1", "keepdims": "True"}):
                    return f"(Ten.meanLastKeep {t})", "T"
                if m == "squeeze" and len(n.args) == 1 and extract.norm(n.args[0]) == "-1" and k == "T":
                    return f"(Ten.squeezeLast {t})", "T"
        raise Untranslatable(ast.unparse(n))

    def assign(self, s: ast.stmt):
        if not (isinstance(s, ast.Assign) and len(s.targets) == 1 and isinstance(s.targets[0], ast.Name)):
            raise Untranslatable(ast.unparse(s))
        t, k = self.expr(s.value)
        name = s.targets[0].id
        self.lines.append(f"  let {name} := {t}")
        self.env[name] = (name, k)


TEN_TY = {"T": "Ten (Dual K)", "D": "Dual K"}


def emit_ten(name: str, doc: str, params: str, tr: TenTr, outs: List[str]) -> str:
    rty = " × ".join(TEN_TY[tr.env[o][1]] if o in tr.env else TEN_TY["D"] for o in outs)
    ret = outs[0] if len(outs) == 1 else "(" + ", ".join(outs) + ")"
    return f"/-- {doc} -/\ndef {name} {params} : Option ({rty}) := do\n" + "\n".join(tr.lines) + f"\n  pure {ret}\n"


REINFORCE = "rl4co/models/rl/reinforce/reinforce.py"


def t_reinforce_loss() -> str:
    fn = _fn(REINFORCE, "REINFORCE.calculate_loss")
    body = _assigns(list(ast.walk(fn)), ["advantage", "reinforce_loss", "loss"])
    body = [s for s in fn.body if s in body]  # source order, top level only
    tr = TenTr({"reward": ("reward", "T"), "bl_val": ("bl_val", "T"), "log_likelihood": ("log_likelihood", "T"),
                "bl_loss": ("bl_loss", "D")}, unary={"self.advantage_scaler": "sc.apply"})
    for s in body:
        tr.assign(s)
    return emit_ten("reinforceLoss", "reinforce.py:REINFORCE.calculate_loss  `advantage = reward - bl_val; advantage = self.advantage_scaler(advantage); "
                    "reinforce_loss = -(advantage * log_likelihood).mean(); loss = reinforce_loss + bl_loss` → (loss, reinforce_loss, advantage); `none` = torch raises",
                    "(sc : ScaleOp K) (reward bl_val log_likelihood : Ten (Dual K)) (bl_loss : Dual K)", tr,
                    ["loss", "reinforce_loss", "advantage"])


def t_critic_eval() -> str:
    fn = _fn(BASELINES, "CriticBaseline.eval")
    tr = TenTr({"c": ("c", "T")}, atoms={"self.critic(x)": ("out", "T")})
    rets = [s for s in fn.body if isinstance(s, ast.Return)]
    if len(rets) != 1 or not isinstance(rets[0].value, ast.Tuple) or len(rets[0].value.elts) != 2:
        raise Untranslatable("CriticBaseline.eval return")
    for s in fn.body:
        if isinstance(s, ast.Assign):
            tr.assign(s)
    (tv, kv), (tl, kl) = tr.expr(rets[0].value.elts[0]), tr.expr(rets[0].value.elts[1])
    if (kv, kl) != ("T", "D"):
        raise Untranslatable("CriticBaseline.eval kinds")
    tr.lines += [f"  let bl_val := {tv}", f"  let bl_loss := {tl}"]
    tr.env["bl_val"], tr.env["bl_loss"] = ("bl_val", "T"), ("bl_loss", "D")
    return emit_ten("criticEval", "baselines.py:CriticBaseline.eval  `v = self.critic(x).squeeze(-1); return v.detach(), F.mse_loss(v, c.detach())` (`out` = the critic's output)",
                    "(out c : Ten (Dual K))", tr, ["bl_val", "bl_loss"])


def t_shared_eval() -> str:
    fn = _fn(BASELINES, "SharedBaseline.eval")
    rets = [s for s in fn.body if isinstance(s, ast.Return)]
    if len(rets) != 1 or not isinstance(rets[0].value, ast.Tuple) or len(rets[0].value.elts) != 2:
        raise Untranslatable("SharedBaseline.eval return")
    if extract.norm(rets[0].value.elts[1]) != "0":
        raise Untranslatable("SharedBaseline.eval loss is not the literal 0")
    dflt = {a.arg: extract.norm(d) for a, d in zip(fn.args.args[-len(fn.args.defaults):], fn.args.defaults)}
    if dflt.get("on_dim") != "1":
        raise Untranslatable("SharedBaseline.eval on_dim default")
    tr = TenTr({"reward": ("reward", "T")})
    tv, kv = tr.expr(rets[0].value.elts[0])
    tr.lines += [f"  let bl_val := {tv}", "  let bl_loss : Dual K := 0"]
    tr.env["bl_val"], tr.env["bl_loss"] = ("bl_val", kv), ("bl_loss", "D")
    return emit_ten("sharedEval", "baselines.py:SharedBaseline.eval  `return reward.mean(dim=on_dim, keepdims=True), 0` (on_dim = 1)",
                    "(reward : Ten (Dual K))", tr, ["bl_val", "bl_loss"])



# ---- PPO loss block: mixed gradient-carrying / gradient-free tensors ----------------------------
# Kinds: T = Ten (Dual K) · TK = Ten K (produced under no_grad / detached) · D = Dual K · K = plain scalar.
class PpoTr:
    def __init__(self, env, atoms):
        self.env = dict(env)
        self.atoms = dict(atoms)
        self.lines: List[str] = []
        self.fresh = 0

    def tmp(self) -> str:
        self.fresh += 1
        return f"t{self.fresh}"

    def bind(self, fn: str, a: str, b: str) -> str:
        v = self.tmp()
        self.lines.append(f"  let {v} ← Ten.bop ({fn}) {a} {b}")
        return v

    def expr(self, n: ast.AST) -> Tuple[str, str]:
        key = extract.norm(n)
        if key in self.atoms:
            return self.atoms[key]
        if isinstance(n, ast.Name):
            if n.id not in self.env:
                raise Untranslatable(f"unknown name {n.id}")
            return self.env[n.id]
        if isinstance(n, ast.Constant) and isinstance(n.value, (int, float)) and not isinstance(n.value, bool):
            return Tr.lit_K(n.value), "K"
        if isinstance(n, ast.UnaryOp) and isinstance(n.op, ast.USub):
            t, k = self.expr(n.operand)
            if k in "DK":
                return f"(- {t})", k
            raise Untranslatable("negated tensor")
        if isinstance(n, ast.BinOp) and type(n.op) in BIN and BIN[type(n.op)] in "+-*":
            op = BIN[type(n.op)]
            (lt, lk), (rt, rk) = self.expr(n.left), self.expr(n.right)
            kinds = (lk, op, rk)
            if lk == "K" and rk == "K":
                return f"({lt} {op} {rt})", "K"
            if lk == "D" and rk == "D":
                return f"({lt} {op} {rt})", "D"
            if kinds == ("K", "*", "D"):
                return f"(Dual.smul {lt} {rt})", "D"
            if kinds == ("T", "-", "TK"):
                return self.bind("fun a b => a - Dual.const b", lt, rt), "T"
            if kinds == ("TK", "-", "TK"):
                return self.bind("fun r v => r - v", lt, rt), "TK"
            if kinds == ("T", "*", "TK"):
                return self.bind("fun r a => Dual.smul a r", lt, rt), "T"
            raise Untranslatable(f"kinds {lk} {op} {rk}")
        if isinstance(n, ast.Call):
            f = n.func
            fkey = extract.norm(f)
            args = n.args
            kws = {kw.arg: extract.norm(kw.value) for kw in n.keywords}
            if fkey == "torch.exp" and len(args) == 1 and not kws:
                t, k = self.expr(args[0])
                if k == "T":
                    return f"(Ten.map (Dual.expw w) {t})", "T"
            if fkey == "torch.min" and len(args) == 2 and not kws:
                (lt, lk), (rt, rk) = self.expr(args[0]), self.expr(args[1])
                if lk == "T" and rk == "T":
                    return self.bind("minD", lt, rt), "T"
            if fkey == "torch.clamp" and len(args) == 3 and not kws:
                (t, k), (lo, lok), (hi, hik) = self.expr(args[0]), self.expr(args[1]), self.expr(args[2])
                if k == "T" and lok == "K" and hik == "K":
                    return f"(Ten.map (clampD {lo} {hi}) {t})", "T"
            if fkey == "F.huber_loss" and len(args) == 2 and not kws:
                (lt, lk), (rt, rk) = self.expr(args[0]), self.expr(args[1])
                if lk == "T" and rk == "TK":
                    v = self.bind("fun v r => huberD (v - Dual.const r)", lt, rt)
                    return f"(Ten.meanAll {v})", "D"
            if isinstance(f, ast.Attribute):
                m = f.attr
                t, k = self.expr(f.value)
                if m == "view" and [extract.norm(a) for a in args] == ["-1", "1"] and k in ("T", "TK"):
                    return f"(Ten.viewCol {t})", k
                if m == "sum" and not args and kws == {"dim": "-1"} and k == "T":
                    return f"(Ten.sumLast {t})", "T"
                if m == "mean" and not args and not kws and k == "T":
                    return f"(Ten.meanAll {t})", "D"
                if m == "detach" and not args and k == "T":
                    return f"(Ten.map (fun x => x.v) {t})", "TK"
        raise Untranslatable(ast.unparse(n))

    def assign(self, s: ast.Assign):
        t, k = self.expr(s.value)
        name = s.targets[0].id
        self.lines.append(f"  let {name} := {t}")
        self.env[name] = (name, k)


PPO = "rl4co/models/rl/ppo/ppo.py"


def ppo_block() -> List[ast.stmt]:
    """the six assignments of the PPO loss block (top level of the mini-batch loop; the optional
    `if normalize_adv:` statement in between is not part of the translated block)"""
    fn = _fn(PPO, "PPO.shared_step")
    loops = [n for n in ast.walk(fn) if isinstance(n, ast.For) and extract.norm(n.target) == "sub_td"]
    if len(loops) != 1:
        raise Untranslatable("mini-batch loop `for sub_td in dataloader`")
    names = ["previous_reward", "ratio", "adv", "surrogate_loss", "value_loss", "loss"]
    body = [s for s in loops[0].body if isinstance(s, ast.Assign) and len(s.targets) == 1
            and isinstance(s.targets[0], ast.Name) and s.targets[0].id in names]
    if [s.targets[0].id for s in body] != names:
        raise Untranslatable(f"PPO loss block statements {[s.targets[0].id for s in body]}")
    return body


def ppo_block_callable():
    """the same six source statements compiled as they stand into a Python function
    f(torch, F, self, sub_td, ll, entropy, value_pred) -> dict of the assigned names (used by the
    `numeric_generated` unit to run the REAL statements next to their Lean translation)"""
    body = ppo_block()
    ret = ast.parse("return dict(previous_reward=previous_reward, ratio=ratio, adv=adv, surrogate_loss=surrogate_loss, "
                    "value_loss=value_loss, loss=loss)").body
    fdef = ast.parse("def _ppo_block(torch, F, self, sub_td, ll, entropy, value_pred):\n    pass").body[0]
    fdef.body = list(body) + ret
    mod = ast.Module(body=[fdef], type_ignores=[])
    ast.fix_missing_locations(mod)
    ns: dict = {}
    exec(compile(mod, "<ppo loss block of rl4co/models/rl/ppo/ppo.py>", "exec"), ns)
    return ns["_ppo_block"]


def t_ppo_loss() -> str:
    body = ppo_block()
    # the only other top-level statement allowed to touch `adv` is the optional normalisation `if`
    tr = PpoTr({"ll": ("ll", "T"), "entropy": ("entropy", "T"), "value_pred": ("value_pred", "T")},
               {"sub_td['reward']": ("reward", "TK"), "sub_td['logprobs']": ("oldLogp", "TK"),
                "self.ppo_cfg['clip_range']": ("clipRange", "K"), "self.ppo_cfg['vf_lambda']": ("vfLambda", "K"),
                "self.ppo_cfg['entropy_lambda']": ("entLambda", "K")})
    for s in body:
        tr.assign(s)
    params = "(w : K → K) (clipRange vfLambda entLambda : K) (ll : Ten (Dual K)) (oldLogp reward : Ten K) (value_pred entropy : Ten (Dual K))"
    doc = ("ppo.py:PPO.shared_step, loss block of one mini-batch with `normalize_adv = False`: previous_reward, ratio, adv, "
           "surrogate_loss, value_loss, loss, statement by statement → (loss, surrogate_loss, value_loss, ratio, adv); `none` = torch raises")
    return (f"/-- {doc} -/\ndef ppoLoss {params} :\n    Option (Dual K × Dual K × Dual K × Ten (Dual K) × Ten K) := do\n"
            + "\n".join(tr.lines) + "\n  pure (loss, surrogate_loss, value_loss, ratio, adv)\n")

TEN_TARGETS: List[Tuple[str, Callable[[], str]]] = [
    ("reinforceLoss", t_reinforce_loss),
    ("criticEval", t_critic_eval),
    ("sharedEval", t_shared_eval),
]

PPO_TARGETS: List[Tuple[str, Callable[[], str]]] = [("ppoLoss", t_ppo_loss)]

TARGETS: List[Tuple[str, Callable[[], str]]] = [
    ("welfordUpdate", t_welford_update),
    ("scalerFactor", t_scaler_factor),
    ("scalerNorm", t_scaler_norm),
    ("scalerScale", t_scaler_scale),
    ("emaFirst", t_ema_first),
    ("emaStep", t_ema_step),
    ("warmupAlpha", t_warmup_alpha),
    ("warmupMix", t_warmup_mix),
]

HEADER = """-- GENERATED by harness/pytrans.py from /repo's current sources. Do not edit by hand.
-- Straight-line numeric code translated statement by statement; the bridging lemmas to the
-- hand-written models are in Rl4co/Props/C20/TrainGenerated.lean.
namespace Rl4co.Numeric
set_option linter.unusedVariables false
variable {K : Type} [Add K] [Sub K] [Mul K] [Div K] [Neg K] [Zero K] [One K] [NatCast K]

"""


def _committed_blocks(text: str) -> Dict[str, str]:
    """split a previously generated file into its definitions (for pattern-miss fallback)"""
    blocks: Dict[str, str] = {}
    cur: List[str] = []
    for line in text.splitlines(keepends=True):
        if line.startswith("/-- ") and cur and any(l.startswith("def ") for l in cur):
            _store(blocks, cur)
            cur = []
        if line.startswith("end Rl4co.Numeric"):
            break
        cur.append(line)
    if cur:
        _store(blocks, cur)
    return blocks


def _store(blocks, cur):
    for l in cur:
        if l.startswith("def "):
            start = next(i for i, x in enumerate(cur) if x.startswith("/-- "))
            blocks[l.split()[1]] = "".join(cur[start:]).rstrip("\n") + "\n"
            return


HEADER_LOSSES = """-- GENERATED by harness/pytrans.py from /repo's current sources. Do not edit by hand.
-- Loss / baseline code over shaped tensors of dual numbers, translated statement by statement into the
-- `Option` monad (`none` = torch raises a broadcasting error); bridging lemmas to the hand-written models
-- are in Rl4co/Props/C16/TrainGenerated.lean.
import Rl4co.Train.Loss
namespace Rl4co.Numeric
open Rl4co.Train
set_option linter.unusedVariables false
variable {K : Type} [Add K] [Sub K] [Mul K] [Div K] [Neg K] [Zero K] [One K] [NatCast K]

"""


HEADER_PPO = HEADER_LOSSES.replace("Loss / baseline code", "The PPO loss block").replace(
    "Rl4co/Props/C16/TrainGenerated.lean", "Rl4co/Props/C16/TrainGeneratedPpo.lean") + "variable [LT K] [DecidableLT K]\n\n"


DEFAULTS_FILE = os.path.join(os.path.dirname(os.path.abspath(__file__)), "pytrans_defaults.json")
_frozen: Optional[Dict[str, str]] = None


def _frozen_defaults() -> Dict[str, str]:
    global _frozen
    if _frozen is None:
        try:
            import json
            _frozen = json.load(open(DEFAULTS_FILE))
        except Exception:
            _frozen = {}
    return _frozen


def freeze():
    """maintenance: record the translation of the CURRENT sources as the pattern-miss defaults"""
    import json
    out = {}
    for name, fn in TARGETS + TEN_TARGETS + PPO_TARGETS:
        out[name] = fn()
    with open(DEFAULTS_FILE, "w") as f:
        json.dump(out, f, indent=1, sort_keys=True)
    return out


def generate(write: bool = True) -> Dict[str, dict]:
    report = _generate_file(NUMERIC_OUT, HEADER, TARGETS, "end Rl4co.Numeric", write)
    report.update(_generate_file(LOSSES_OUT, HEADER_LOSSES, TEN_TARGETS, "end Rl4co.Numeric", write))
    report.update(_generate_file(PPO_OUT, HEADER_PPO, PPO_TARGETS, "end Rl4co.Numeric", write))
    return report


def _generate_file(out_path, header, targets, footer, write) -> Dict[str, dict]:
    NUMERIC_OUT = out_path
    HEADER = header
    TARGETS = targets
    old = open(NUMERIC_OUT).read() if os.path.exists(NUMERIC_OUT) else ""
    # pattern-miss fallback: the frozen translation of the pinned tree (harness/pytrans_defaults.json, written only
    # by `pytrans.py --freeze`, never at run time) — not whatever an earlier run left in the generated file
    committed = _frozen_defaults() or _committed_blocks(old)
    report: Dict[str, dict] = {}
    parts = [HEADER]
    for name, fn in TARGETS:
        try:
            text, status, why = fn(), "extracted", None
        except Untranslatable as e:
            text, status, why = None, "pattern-miss", str(e)
        except Exception as e:  # the translator must never break the run
            text, status, why = None, "pattern-miss", f"{type(e).__name__}: {e}"
        if text is None:
            text = committed.get(name)
            if text is None:
                continue
        default = committed.get(name)
        report["num_" + name] = {"value": "<lean term>", "status": status, "default": "<committed term>",
                                 "changed": default is not None and default.strip() != text.strip(),
                                 **({"why": why} if why else {})}
        parts.append(text + "\n")
    parts.append("end Rl4co.Numeric\n")
    new = "".join(parts)
    if write and new != old:
        with open(NUMERIC_OUT, "w") as f:
            f.write(new)
    return report


if __name__ == "__main__":
    import json
    import sys
    if "--freeze" in sys.argv:
        print("frozen:", sorted(freeze()))
        sys.exit(0)
    rep = generate(write="--write" in sys.argv)
    json.dump(rep, sys.stdout, indent=1)
    print()
    if "--show" in sys.argv:
        print(open(NUMERIC_OUT).read() if "--write" in sys.argv else "")
