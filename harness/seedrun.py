#!/venv/bin/python
"""Run registered checks against seeded mutants WITHOUT touching /repo (safe while other work uses it).

  seedrun.py <seed-dir>... [--props C01,C05] [--tier quick] [--keep]

For each seed directory (containing patch.diff + meta.json) a scratch copy of /repo's `rl4co` package
and of the lake project is made under /tmp/seedrun_<pid>/, the patch is applied to the copy, and the
checks named in meta.json["property"] (or --props) are run with RL4CO_REPO / VERIF_LEAN_DIR pointing at
the copies (so the AST extraction and the Lean rebuild see the mutated source, exactly as a check run
on a patched /repo would).  Prints one line per (seed, property): DETECTED / MISSED, and exits 0.

The official way to run a check against a mutant is `git -C /repo apply <patch>; ./check …;
git -C /repo checkout -- .`; this script gives the same result without disturbing /repo.
"""
from __future__ import annotations

import argparse
import json
import os
import shutil
import subprocess
import sys

HERE = os.path.dirname(os.path.abspath(__file__))
VERIF = os.path.dirname(HERE)


def main():
    ap = argparse.ArgumentParser()
    ap.add_argument("seeds", nargs="+")
    ap.add_argument("--props", default=None)
    ap.add_argument("--tier", default="quick")
    ap.add_argument("--keep", action="store_true")
    ap.add_argument("--seed", default="0")
    a = ap.parse_args()
    base = f"/tmp/seedrun_{os.getpid()}"
    os.makedirs(base, exist_ok=True)
    lean_copy = os.path.join(base, "lean")
    for attempt in range(3):  # files may vanish while someone else is building (rsync exit 24): retry
        r = subprocess.run(["rsync", "-a", "--exclude", ".build.lock", os.path.join(VERIF, "lean") + "/", lean_copy + "/"])
        if r.returncode == 0:
            break
    results = []
    try:
        for sd in a.seeds:
            sd = sd.rstrip("/")
            patches = sorted(f for f in os.listdir(sd) if f.endswith(".diff"))
            meta = {}
            mp = os.path.join(sd, "meta.json")
            if os.path.exists(mp):
                meta = json.load(open(mp))
            props = a.props.split(",") if a.props else [meta.get("property")]
            for pf in patches:
                repo_copy = os.path.join(base, "repo")
                shutil.rmtree(repo_copy, ignore_errors=True)
                os.makedirs(repo_copy)
                subprocess.run(["rsync", "-a", "/repo/rl4co", repo_copy + "/"], check=True)
                r = subprocess.run(["patch", "-p1", "-s", "-i", os.path.abspath(os.path.join(sd, pf))], cwd=repo_copy,
                                   stdout=subprocess.PIPE, stderr=subprocess.STDOUT, text=True)
                if r.returncode != 0:
                    print(f"{sd}/{pf}: PATCH-FAILED {r.stdout[-300:]}")
                    continue
                for prop in props:
                    env = dict(os.environ, RL4CO_REPO=repo_copy, VERIF_LEAN_DIR=lean_copy, VERIF_SEED=a.seed,
                               VERIF_SCRATCH="1")
                    p = subprocess.run([os.path.join(VERIF, "check"), prop, a.tier], env=env, stdout=subprocess.PIPE,
                                       stderr=subprocess.STDOUT, text=True)
                    lines = [l for l in p.stdout.splitlines() if l.startswith("VIOLATION") or l.startswith("broken tie")]
                    verdict = "DETECTED" if p.returncode == 1 and any(l.startswith("VIOLATION") for l in lines) else (
                        "MISSED" if p.returncode == 0 else f"ERROR(rc={p.returncode})")
                    nf = any("no-failing-input-found" in l for l in lines)
                    print(f"{os.path.basename(sd)}/{pf} {prop}: {verdict}{' (no-failing-input-found)' if nf else ''} "
                          f"| {p.stdout.strip().splitlines()[-1][:160] if p.stdout.strip() else ''}")
                    results.append((sd, pf, prop, verdict))
                    sys.stdout.flush()
                # restore generated params in the lean copy for the next patch
                gdir = os.path.join(VERIF, "lean", "Rl4co", "Generated")
                for fn in os.listdir(gdir):
                    if fn.endswith(".lean"):
                        shutil.copy(os.path.join(gdir, fn), os.path.join(lean_copy, "Rl4co", "Generated", fn))
    finally:
        if not a.keep:
            shutil.rmtree(base, ignore_errors=True)
    return 0


if __name__ == "__main__":
    sys.exit(main())
