"""Recording layer of the `loglik` family (C11, C13).

The policy network is an oracle for the Lean model, so the correspondence has to *observe* what the
real network produced at every decoding step.  `Recorder` wraps, from the harness process and only
for the duration of one `policy(...)` call, the choke points every bundled decoding loop goes
through (nothing in /repo is edited):

  rl4co.utils.decoding.process_logits            → per-step processed log-prob matrix + mask
  DecodingStrategy.greedy / .sampling (static)    → (logprobs, mask) ↦ selected   (also reached through
                                                    `decode_logprobs` by PtrNet / MDAM / MatNet-FFSP)
  Evaluate._step                                  → the externally supplied action
  DecodingStrategy.pre_decoder_hook (+BeamSearch) → forced start actions, `done` after the hook
  DecodingStrategy.step                           → pass boundaries, what was appended to the buffers
  DecodingStrategy.post_decoder_hook              → stacked buffers
  BeamSearch._make_beam_step / _select_best_beam  → top-k outcome, parents, scores, best-beam selection
  rl4co.utils.decoding.unbatchify_and_gather      → the arg-max indices of `_select_best`
  get_log_likelihood / calculate_entropy as imported by constructive/base.py, ptrnet, mdam
  env.step (instance attribute)                   → `done` after every environment step

`enc_lp` turns float32 values into exact integers (common power-of-two scale) for the Lean driver.
"""
from __future__ import annotations

import math
from typing import Any, Dict, List, Optional, Tuple

import rl  # noqa: F401  (puts /repo on sys.path, configures torch)
from rl import torch


def _c(x):
    return x.detach().clone() if isinstance(x, torch.Tensor) else x


class Trace:
    def __init__(self):
        self.lp: List[torch.Tensor] = []  # process_logits outputs, one [B,N] per pass
        self.amask: List[Optional[torch.Tensor]] = []
        self.logits_in: List[torch.Tensor] = []  # raw decoder logits handed to process_logits, one per pass
        self.pl_opts: List[dict] = []  # the options process_logits was called with, one per pass
        self.sel_calls: List[dict] = []  # greedy/sampling/evaluate calls: {kind, logprobs, mask, selected}
        self.pre: Optional[dict] = None  # {start, done, num_starts, n_forced}
        self.steps: List[dict] = []  # per DecodingStrategy.step: {action_arg, appended_lp, appended_act}
        self.post: Optional[dict] = None  # {logprobs, actions}
        self.env_done: List[torch.Tensor] = []  # done after every env.step call (pre hook included)
        self.gll: List[dict] = []  # get_log_likelihood calls
        self.entropy: List[dict] = []
        self.beam: List[dict] = []  # per _make_beam_step
        self.best_beam: Optional[dict] = None
        self.select_best_idx: List[torch.Tensor] = []
        self.rewards: List[torch.Tensor] = []  # outputs of env.get_reward, in call order
        self.strategy = None
        self.out: Optional[dict] = None
        self.error: Optional[BaseException] = None


class Recorder:
    """Context manager; `with Recorder(env) as tr: out = policy(td, env, ...)`."""

    def __init__(self, env=None):
        self.env = env
        self.tr = Trace()
        self._undo: List[Tuple[Any, str, Any, bool]] = []

    # ---- patch helpers ------------------------------------------------------------------------
    def _patch(self, obj, name, new, static=False):
        had = name in vars(obj)
        old = vars(obj).get(name)
        self._undo.append((obj, name, old, had))
        setattr(obj, name, staticmethod(new) if static else new)

    def __enter__(self) -> Trace:
        import rl4co.utils.decoding as D
        import rl4co.models.common.constructive.base as CB

        tr = self.tr

        # process_logits (module global looked up by DecodingStrategy.step at call time)
        orig_pl = D.process_logits

        def process_logits(logits, mask=None, *a, **k):
            tr.logits_in.append(_c(logits))  # before the call: process_logits masks its argument in place
            out = orig_pl(logits, mask, *a, **k)
            tr.lp.append(_c(out))
            tr.amask.append(_c(mask))
            names = ("temperature", "top_p", "top_k", "tanh_clipping", "mask_logits")
            opts = {"temperature": 1.0, "top_p": 0.0, "top_k": 0, "tanh_clipping": 0, "mask_logits": True}
            opts.update(dict(zip(names, a)))
            opts.update({n: v for n, v in k.items() if n in names})
            tr.pl_opts.append(opts)
            return out

        self._patch(D, "process_logits", process_logits)

        # greedy / sampling
        orig_greedy = D.DecodingStrategy.__dict__["greedy"].__func__
        orig_sampling = D.DecodingStrategy.__dict__["sampling"].__func__

        def greedy(logprobs, mask=None):
            sel = orig_greedy(logprobs, mask)
            tr.sel_calls.append({"kind": "greedy", "logprobs": _c(logprobs), "mask": _c(mask), "selected": _c(sel)})
            return sel

        def sampling(logprobs, mask=None):
            sel = orig_sampling(logprobs, mask)
            tr.sel_calls.append({"kind": "sampling", "logprobs": _c(logprobs), "mask": _c(mask), "selected": _c(sel)})
            return sel

        self._patch(D.DecodingStrategy, "greedy", greedy, static=True)
        self._patch(D.DecodingStrategy, "sampling", sampling, static=True)

        orig_eval = D.Evaluate._step

        def eval_step(self_, logprobs, mask, td, action, **kw):
            r = orig_eval(self_, logprobs, mask, td, action, **kw)
            tr.sel_calls.append({"kind": "evaluate", "logprobs": _c(logprobs), "mask": _c(mask), "selected": _c(r[1])})
            return r

        self._patch(D.Evaluate, "_step", eval_step)

        # pre hooks
        def wrap_pre(cls):
            orig = cls.__dict__["pre_decoder_hook"]

            def pre(self_, td, env, *a, **k):
                n0 = len(self_.actions)
                res = orig(self_, td, env, *a, **k)
                td2 = res[0]
                tr.strategy = self_
                forced = len(self_.actions) - n0
                tr.pre = {
                    "start": _c(self_.actions[-1]) if forced else None,
                    "start_lp": _c(self_.logprobs[-1]) if forced else None,
                    "n_forced": forced,
                    "done": _c(td2["done"]).reshape(-1),
                    "num_starts": res[2],
                    "n_env_steps": len(tr.env_done),
                    "B": int(td2.batch_size[0]),
                    "N": int(td2["action_mask"].shape[-1]),
                }
                return res

            self._patch(cls, "pre_decoder_hook", pre)

        wrap_pre(D.DecodingStrategy)
        wrap_pre(D.BeamSearch)

        orig_step = D.DecodingStrategy.step

        def step(self_, logits, mask, td=None, action=None, **kw):
            res = orig_step(self_, logits, mask, td, action, **kw)
            if not self_.improvement_method_mode:
                tr.steps.append({"action_arg": _c(action), "appended_lp": _c(self_.logprobs[-1]),
                                 "appended_act": _c(self_.actions[-1])})
            return res

        self._patch(D.DecodingStrategy, "step", step)

        def wrap_post(cls):
            orig = cls.__dict__["post_decoder_hook"]

            def post(self_, td, env):
                res = orig(self_, td, env)
                tr.post = {"logprobs": _c(res[0]), "actions": _c(res[1]),
                           "stack_actions": _c(torch.stack(self_.actions, 1)) if self_.actions else None}
                return res

            self._patch(cls, "post_decoder_hook", post)

        wrap_post(D.DecodingStrategy)
        wrap_post(D.BeamSearch)

        # beam search
        orig_mbs = D.BeamSearch._make_beam_step

        def make_beam_step(self_, logprobs):
            before = _c(self_.parent_beam_logprobs)
            lp_in = _c(logprobs)
            selected, bbi = orig_mbs(self_, logprobs)
            tr.beam.append({"logprobs": lp_in, "logprobs_after": _c(logprobs), "score_before": before, "selected": _c(selected),
                            "bbi": _c(bbi), "parent": _c(self_.beam_path[-1]),
                            "score_after": _c(self_.parent_beam_logprobs)})
            return selected, bbi

        self._patch(D.BeamSearch, "_make_beam_step", make_beam_step)

        orig_sbb = D.BeamSearch._select_best_beam

        def select_best_beam(self_, logprobs, actions, td, env):
            res = orig_sbb(self_, logprobs, actions, td, env)
            tr.best_beam = {"in_logprobs": _c(logprobs), "in_actions": _c(actions), "in_td": td.clone(),
                            "out_logprobs": _c(res[0]), "out_actions": _c(res[1])}
            return res

        self._patch(D.BeamSearch, "_select_best_beam", select_best_beam)

        orig_ubg = D.unbatchify_and_gather

        def unbatchify_and_gather(x, idx, n):
            if isinstance(x, torch.Tensor) and x.dim() == 2 and x.dtype in (torch.int64, torch.int32):
                tr.select_best_idx.append(_c(idx))
            return orig_ubg(x, idx, n)

        self._patch(D, "unbatchify_and_gather", unbatchify_and_gather)

        # get_log_likelihood / calculate_entropy at their import sites
        def wrap_gll(mod):
            if not hasattr(mod, "get_log_likelihood"):
                return
            orig = mod.get_log_likelihood

            def gll(logprobs, actions=None, mask=None, return_sum=True):
                rec = {"logprobs": _c(logprobs), "actions": _c(actions), "mask": _c(mask), "return_sum": return_sum}
                out = orig(logprobs, actions, mask, return_sum)
                rec["out"] = _c(out)
                tr.gll.append(rec)
                return out

            self._patch(mod, "get_log_likelihood", gll)

        wrap_gll(CB)
        for name in ("rl4co.models.zoo.ptrnet.policy", "rl4co.models.zoo.mdam.decoder"):
            try:
                import importlib

                wrap_gll(importlib.import_module(name))
            except Exception:
                pass

        orig_ent = CB.calculate_entropy

        def calculate_entropy(logprobs):
            out = orig_ent(logprobs)
            tr.entropy.append({"logprobs": _c(logprobs), "out": _c(out)})
            return out

        self._patch(CB, "calculate_entropy", calculate_entropy)

        # env.step on the instance
        if self.env is not None:
            env = self.env
            bound = env.step

            def env_step(td):
                res = bound(td)
                tr.env_done.append(_c(res["next"]["done"]).reshape(-1))
                return res

            env.__dict__["step"] = env_step
            bound_gr = env.get_reward

            def env_get_reward(td, actions):
                r = bound_gr(td, actions)
                tr.rewards.append(_c(r))
                return r

            env.__dict__["get_reward"] = env_get_reward
        return tr

    def __exit__(self, et, ev, tb):
        for obj, name, old, had in reversed(self._undo):
            if had:
                setattr(obj, name, old)
            else:
                delattr(obj, name)
        if self.env is not None:
            self.env.__dict__.pop("step", None)
            self.env.__dict__.pop("get_reward", None)
        if ev is not None:
            self.tr.error = ev
        return False


# ---- exact encoding of float32 values ---------------------------------------------------------------


def _ratio(v: float) -> Tuple[int, int]:
    num, den = float(v).as_integer_ratio()
    return num, den.bit_length() - 1


def enc_lp(groups: List[List[float]]) -> Tuple[int, List[List[str]]]:
    """Encode several lists of floats (−inf allowed) with ONE common scale 2^k.  Returns (k, token lists)."""
    k = 0
    parts = []
    for g in groups:
        row = []
        for v in g:
            if v == float("-inf"):
                row.append(None)
            else:
                if not math.isfinite(v):
                    raise ValueError(f"non-finite log-prob {v}")
                num, e = _ratio(v)
                k = max(k, e)
                row.append((num, e))
        parts.append(row)
    toks = []
    for row in parts:
        toks.append(["x" if x is None else str(x[0] << (k - x[1])) for x in row])
    return k, toks


def dec_lp(tok: str, k: int) -> float:
    """Inverse of `enc_lp` for one token (correctly rounded to float64; exact for float32 values)."""
    if tok == "x":
        return float("-inf")
    return int(tok) / (1 << k)


def flat(t: torch.Tensor) -> List[float]:
    return t.detach().to(torch.float64).flatten().tolist()


def flat_i(t: torch.Tensor) -> List[int]:
    return [int(v) for v in t.detach().flatten().tolist()]
