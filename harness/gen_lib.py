"""Helpers of the generator / persistence units (C18, C19): exact conversions, float32 glue, env catalogue."""
from __future__ import annotations

import contextlib
import io
import math
import os
from fractions import Fraction
from typing import Any, Dict, List, Optional, Tuple

import numpy as np

import rl
from leanio import parse_fields
from rl import TensorDict, torch

SC = rl.SCALE  # 2^20 ticks per unit


def f32(x) -> float:
    return float(np.float32(x))


def fr(x) -> Fraction:
    """exact value of a python float / 0-dim tensor"""
    return Fraction(float(x))


def frac_pair(x) -> Tuple[int, int]:
    f = Fraction(str(x)) if not isinstance(x, Fraction) else x
    return f.numerator, f.denominator


def ask(ctx, lines: List[str]) -> List[Dict[str, str]]:
    return [parse_fields(r) | {"_raw": r} for r in ctx.driver.ask_many(lines)]


def ints(s: str) -> List[int]:
    return [int(x) for x in s.split(",")] if s not in ("", None) else []


def parse_frac(s: str) -> Optional[Fraction]:
    if s == "none":
        return None
    a, b = s.split("/")
    return Fraction(int(a), int(b))


@contextlib.contextmanager
def quiet():
    """rl4co logs warnings for off-table sizes etc.; keep the check output clean"""
    with contextlib.redirect_stdout(io.StringIO()), contextlib.redirect_stderr(io.StringIO()):
        yield


def seed_all(seed: int):
    torch.manual_seed(seed)
    np.random.seed(seed % (2**32))
    import random as _r

    _r.seed(seed)


# ---- environment catalogue for the "every generated instance is solvable" part and for persistence --------

def env_catalogue() -> Dict[str, Any]:
    """name → callable(**generator_params) building the environment with its bundled generator"""
    from rl4co import envs as E

    def mk(cls, **fixed):
        def f(**gp):
            kw = dict(fixed)
            kw["generator_params"] = gp
            with quiet():
                return cls(**kw)
        return f

    return {
        "tsp": mk(E.TSPEnv), "atsp": mk(E.ATSPEnv), "cvrp": mk(E.CVRPEnv), "sdvrp": mk(E.SDVRPEnv),
        "cvrptw": mk(E.CVRPTWEnv), "op": mk(E.OPEnv), "pctsp": mk(E.PCTSPEnv), "spctsp": mk(E.SPCTSPEnv),
        "pdp": mk(E.PDPEnv), "mtsp": mk(E.MTSPEnv), "svrp": mk(E.SVRPEnv), "mdcpdp": mk(E.MDCPDPEnv),
        "mtvrp": mk(E.MTVRPEnv), "fjsp": mk(E.FJSPEnv), "jssp": mk(E.JSSPEnv), "ffsp": mk(E.FFSPEnv),
        "smtwtp": mk(E.SMTWTPEnv), "flp": mk(E.FLPEnv), "mcp": mk(E.MCPEnv),
    }


def npz_head(path: str, key: str, k: int):
    """first `k` entries of array `key` of an (uncompressed or compressed) .npz without materialising the whole array"""
    import zipfile

    with zipfile.ZipFile(path) as z:
        with z.open(key + ".npy") as f:
            ver = np.lib.format.read_magic(f)
            shape, fortran, dtype = (np.lib.format.read_array_header_1_0 if ver == (1, 0) else np.lib.format.read_array_header_2_0)(f)
            assert not fortran
            k = min(k, shape[0])
            cnt = k * int(np.prod(shape[1:])) if len(shape) > 1 else k
            buf = f.read(cnt * dtype.itemsize)
            return np.frombuffer(buf, dtype=dtype).reshape((k, *shape[1:])).copy()


# ---- module-level tables of the generators / dataset writers: no call may mutate them --------------------------------------

TABLE_MODULES = ["rl4co.data.generate_data", "rl4co.envs.routing.cvrp.generator", "rl4co.envs.routing.op.generator",
                 "rl4co.envs.routing.pctsp.generator", "rl4co.envs.routing.mtvrp.generator", "rl4co.envs.common.utils",
                 "rl4co.envs.routing.cvrptw.generator", "rl4co.envs.scheduling.fjsp.generator", "rl4co.envs.scheduling.jssp.generator",
                 "rl4co.envs.graph.mcp.generator", "rl4co.envs.graph.flp.generator"]


def tables_snapshot():
    """deep copy of every module-level dict / list / tuple / set constant of the generator modules"""
    import copy as _copy
    import importlib

    snap = {}
    for mn in TABLE_MODULES:
        try:
            mod = importlib.import_module(mn)
        except Exception:  # noqa: BLE001
            continue
        for k, v in vars(mod).items():
            if not k.startswith("__") and isinstance(v, (dict, list, tuple, set)) and k.isupper():
                snap[(mn, k)] = _copy.deepcopy(v)
    return snap


def tables_changed(snap):
    """[(module, name, before, after)] for every table that differs from the snapshot"""
    import importlib

    out = []
    for (mn, k), before in snap.items():
        now = getattr(importlib.import_module(mn), k, None)
        if now != before:
            out.append((mn, k, str(before)[:160], str(now)[:160]))
    return out
