"""Helpers of the job-shop family (FJSPEnv / JSSPEnv): exact-stream instance builders, TensorDict
construction in the documented format (generator / `_reset`), the harness' own driving loop that also
records `time`, request lines for the Lean driver `drv_fjsp`, and an exhaustive breadth-first
expansion of the real `env.step` for tiny instances.

An instance is a dict
  {"J": jobs, "M": machines, "nops": [ops per job], "proc": [[p(m, o) for o in 0..total-1] for m in 0..M-1],
   "kind": label}
with small integral processing times (0 = machine not eligible), so every float32 value is exact.
Rows of one batch share J and M but may have different numbers of operations; they are padded to a
common `N` exactly as the repo's generator does (trailing zero columns, `pad_mask` true there).
"""
from __future__ import annotations

import os
import tempfile
from typing import Callable, Dict, List, Optional, Tuple

import rl
from leanio import parse_fields
from rl import TensorDict, torch

INIT_FINISH = 9999


# ----------------------------------------------------------------------------------------------
# environments
# ----------------------------------------------------------------------------------------------
_ENVS: Dict[tuple, object] = {}


def make_env(jssp: bool, mask_no_ops: bool, check_mask: bool = False, stepwise_reward: bool = False):
    """`check_mask` (assert a non-empty mask row after every step) and `stepwise_reward` (per-step reward
    from the lower bounds; `get_reward(td, actions)` still returns −makespan) are the remaining
    constructor options of both environments; neither may change mask / done / time / schedule."""
    key = (jssp, mask_no_ops, check_mask, stepwise_reward)
    if key not in _ENVS:
        kw = dict(mask_no_ops=mask_no_ops, check_mask=check_mask, stepwise_reward=stepwise_reward)
        if jssp:
            from rl4co.envs.scheduling.jssp.env import JSSPEnv

            _ENVS[key] = JSSPEnv(generator_params=dict(num_jobs=2, num_machines=2), **kw)
        else:
            from rl4co.envs.scheduling.fjsp.env import FJSPEnv

            _ENVS[key] = FJSPEnv(generator_params=dict(num_jobs=2, num_machines=2, min_ops_per_job=1, max_ops_per_job=2),
                                 **kw)
    return _ENVS[key]


# ----------------------------------------------------------------------------------------------
# instances
# ----------------------------------------------------------------------------------------------
def total_ops(inst: dict) -> int:
    return sum(inst["nops"])


def min_N(inst: dict) -> int:
    """smallest padded width: the real operations plus the padded columns that carry data
    (`padproc`: JSSPGenerator leaves non-zero processing times in padded columns)"""
    pp = inst.get("padproc")
    return total_ops(inst) + (len(pp[0]) if pp else 0)


def proc_row(inst: dict, m: int, N: int) -> List[int]:
    tot = total_ops(inst)
    pp = inst.get("padproc")
    extra = list(pp[m]) if pp else []
    return list(inst["proc"][m]) + extra + [0] * (N - tot - len(extra))


def starts_ends(inst: dict) -> Tuple[List[int], List[int]]:
    ends, acc = [], 0
    for k in inst["nops"]:
        acc += k
        ends.append(acc - 1)
    starts = [0] + [e + 1 for e in ends[:-1]]
    return starts, ends


def gen_instance(rng, J: int, M: int, kind: str, jssp: bool, max_ops: int = 3) -> dict:
    """kinds: random (times 1..9, 1..M eligible machines), ties (all times from a 2-element set, so
    many machines / jobs finish simultaneously: `busy == time`, `finish == time` boundaries),
    unit (all times 1), long (one long op next to short ones: long idle stretches and many waits),
    single (one op per job),
    huge (durations around and beyond every constant of the code: `INIT_FINISH = 9999` is the
    `finish_times` filler of unscheduled operations, `0` the filler of `start_times` / `busy_until`; the
    schedule horizon crosses 9999 while operations are still unscheduled),
    sentinel (completion / event times that hit 9999 exactly, and 9998 / 10000 next to it),
    unbalanced (one job with many operations next to single-operation jobs, durations 1 next to 1000s,
    possibly a machine that no operation can use)."""
    if kind == "single":
        nops = [1] * J
    elif kind == "unbalanced":
        nops = [2 * max_ops] + [1] * (J - 1)
        rng.shuffle(nops)
    else:
        nops = [rng.randint(1, max_ops) for _ in range(J)]
    tot = sum(nops)
    if kind == "ties":
        pool = rng.choice([[2, 2], [1, 2], [2, 4], [3, 3]])
    elif kind == "unit":
        pool = [1]
    elif kind == "long":
        pool = [1, 1, 2, 9, 17]
    elif kind == "huge":
        pool = [1, 2500, 4999, 5000, 7001, 10000, 12345, 20000]
    elif kind == "sentinel":
        pool = rng.choice([[9999], [9999, 1, 9998], [3333, 6666, 9999], [9998, 1, 10000], [5000, 4999, 1]])
    elif kind == "unbalanced":
        pool = [1, 1, 1, 1000, 3000]
    else:
        pool = list(range(1, 10))
    proc = [[0] * tot for _ in range(M)]
    usable = list(range(M))
    if kind == "unbalanced" and M > 1 and rng.random() < 0.5:
        usable = rng.sample(range(M), M - 1)  # one machine that no operation can use
    for o in range(tot):
        k = 1 if jssp else rng.randint(1, len(usable))
        for m in rng.sample(usable, k):
            proc[m][o] = rng.choice(pool)
    return {"kind": kind, "J": J, "M": M, "nops": nops, "proc": proc}


KINDS = ["random", "ties", "unit", "long", "single", "huge", "sentinel", "unbalanced"]


def wf(inst: dict, jssp: bool) -> bool:
    """the decidable well-formedness the theorems assume (mirrors `Rl4co.Fjsp.WF`)"""
    tot = total_ops(inst)
    if inst["J"] < 1 or any(k < 1 for k in inst["nops"]):
        return False
    for o in range(tot):
        col = [inst["proc"][m][o] for m in range(inst["M"])]
        if any(p < 0 for p in col):
            return False
        pos = sum(1 for p in col if p > 0)
        if pos < 1 or (jssp and pos != 1):
            return False
    return True


def to_td(insts: List[dict], N: Optional[int] = None) -> Tuple[TensorDict, int]:
    B = len(insts)
    J, M = insts[0]["J"], insts[0]["M"]
    assert all(i["J"] == J and i["M"] == M for i in insts)
    N = max(N or 0, max(min_N(i) for i in insts))
    start = torch.zeros((B, J), dtype=torch.int64)
    end = torch.zeros((B, J), dtype=torch.int64)
    proc = torch.zeros((B, M, N), dtype=torch.float32)
    pad = torch.zeros((B, N), dtype=torch.bool)
    for b, i in enumerate(insts):
        s, e = starts_ends(i)
        start[b] = torch.tensor(s)
        end[b] = torch.tensor(e)
        tot = total_ops(i)
        proc[b, :, :tot] = torch.tensor(i["proc"], dtype=torch.float32)
        if i.get("padproc"):
            pp = torch.tensor(i["padproc"], dtype=torch.float32)
            proc[b, :, tot:tot + pp.shape[1]] = pp
        pad[b, tot:] = True
    td = TensorDict({"start_op_per_job": start, "end_op_per_job": end, "proc_times": proc, "pad_mask": pad},
                    batch_size=[B])
    return td, N


def from_td(td: TensorDict, kind: str) -> List[dict]:
    """instances back from a TensorDict in the generator's format (generator / file-reader output)"""
    out = []
    B = td.batch_size[0]
    for b in range(B):
        s = [int(x) for x in td["start_op_per_job"][b].tolist()]
        e = [int(x) for x in td["end_op_per_job"][b].tolist()]
        nops = [ee - ss + 1 for ss, ee in zip(s, e)]
        tot = sum(nops)
        pr = td["proc_times"][b]
        proc = [[int(v) for v in pr[m, :tot].tolist()] for m in range(pr.shape[0])]
        assert s[0] == 0 and all(s[k + 1] == e[k] + 1 for k in range(len(s) - 1))
        assert [bool(x) for x in td["pad_mask"][b].tolist()] == [o >= tot for o in range(pr.shape[1])]
        inst = {"kind": kind, "J": len(s), "M": pr.shape[0], "nops": nops, "proc": proc}
        if float(pr[:, tot:].abs().sum()) != 0.0:
            # JSSPGenerator does not zero the processing times of padded operations
            inst["padproc"] = [[int(v) for v in pr[m, tot:].tolist()] for m in range(pr.shape[0])]
            inst["kind"] = kind + "+nonzero-padding"
        out.append(inst)
    return out


# TensorDicts exactly as produced by the repo's generator / file reader (dtypes included), so that the
# real env can be driven on them directly: id(instance dict) -> (TensorDict, row)
_SRC: Dict[int, tuple] = {}
_KEEP: List[dict] = []


def remember_source(insts: List[dict], td: TensorDict) -> None:
    for b, i in enumerate(insts):
        _SRC[id(i)] = (td, b)
        _KEEP.append(i)


def source_td(insts: List[dict]) -> Optional[TensorDict]:
    """the original TensorDict if `insts` are exactly its rows, in order"""
    src = [_SRC.get(id(i)) for i in insts]
    if not all(s is not None for s in src):
        return None
    td = src[0][0]
    if all(s[0] is td for s in src) and [s[1] for s in src] == list(range(td.batch_size[0])):
        return td
    return None


def generator_instances(rng, jssp: bool, B: int) -> List[dict]:
    """instances produced by the repo's own generator (seeded from the harness PRNG)"""
    torch.manual_seed(rng.randrange(1 << 30))
    # legal non-default generator settings: processing times in the thousands (horizon beyond INIT_FINISH)
    big = rng.random() < 0.35
    lo, hi = (2000, 12000) if big else (1, 9)
    if jssp:
        from rl4co.envs.scheduling.jssp.generator import JSSPGenerator

        if rng.random() < 0.5:
            m = rng.choice([2, 3])
            g = JSSPGenerator(num_jobs=rng.choice([2, 3, 4]), num_machines=m, min_processing_time=lo, max_processing_time=hi)
        else:
            g = JSSPGenerator(num_jobs=rng.choice([2, 3]), num_machines=rng.choice([2, 3]), min_ops_per_job=1,
                              max_ops_per_job=3, min_processing_time=lo, max_processing_time=hi, one2one_ma_map=False)
    else:
        from rl4co.envs.scheduling.fjsp.generator import FJSPGenerator

        g = FJSPGenerator(num_jobs=rng.choice([2, 3, 4]), num_machines=rng.choice([2, 3]), min_ops_per_job=1,
                          max_ops_per_job=3, min_processing_time=lo, max_processing_time=hi,
                          same_mean_per_op=rng.random() < 0.5)
    td = g(batch_size=[B])
    insts = from_td(td, "generator-big" if big else "generator")
    remember_source(insts, td)
    return insts


def file_instances(rng, jssp: bool, B: int) -> List[dict]:
    """Instances read from files.  FJSP: written by the repo's writer (`parser.write`) and read back
    through `FJSPFileGenerator`; JSSP: written in the documented JSSP format (1-based machine ids; the
    repo has no JSSP writer) and read through `JSSPFileGenerator`.  Different numbers of operations per
    file → padding decided by the reader."""
    J, M = rng.choice([2, 3]), rng.choice([2, 3])
    insts = [gen_instance(rng, J, M, rng.choice(KINDS), jssp=jssp) for _ in range(B)]
    d = tempfile.mkdtemp(prefix="jobshop_files_", dir="/tmp")
    try:
        if jssp:
            from rl4co.envs.scheduling.jssp.generator import JSSPFileGenerator

            for k, i in enumerate(insts):
                s_, e_ = starts_ends(i)
                lines = [f"{J} {M}"]
                for j in range(J):
                    parts = []
                    for o in range(s_[j], e_[j] + 1):
                        m = [m for m in range(M) if i["proc"][m][o] > 0][0]
                        parts += [str(m + 1), str(i["proc"][m][o])]
                    lines.append(" ".join(parts))
                with open(os.path.join(d, f"{k:04d}.txt"), "w") as fh:
                    fh.write("\n".join(lines) + "\n")
            g = JSSPFileGenerator(d)
        else:
            from rl4co.envs.scheduling.fjsp import parser as fparser
            from rl4co.envs.scheduling.fjsp.generator import FJSPFileGenerator

            env = make_env(False, True)
            td0, _ = to_td(insts)
            tdr = env.reset(td0)
            fparser.write(d, tdr)
            g = FJSPFileGenerator(d)
        td = g(batch_size=[len(g.files)])
        out = from_td(td, "file")
    finally:
        for fn in os.listdir(d):
            os.remove(os.path.join(d, fn))
        os.rmdir(d)
    # the reader lists files in directory order: match the read instances with the written ones
    canon = lambda i: (tuple(i["nops"]), tuple(map(tuple, i["proc"])))
    want = sorted(canon(i) for i in insts)
    got = sorted(canon(i) for i in out)
    if want != got:
        raise RuntimeError(f"file round trip changed the instances: wrote {want} read {got}")
    remember_source(out, td)
    return out


# ----------------------------------------------------------------------------------------------
# Lean request lines
# ----------------------------------------------------------------------------------------------
def _sections(inst: dict, N: int) -> str:
    s, e = starts_ends(inst)
    tot = total_ops(inst)
    flat = []
    for m in range(inst["M"]):
        flat += proc_row(inst, m, N)
    pad = [1 if o >= tot else 0 for o in range(N)]
    return (" ".join(map(str, s)) + " | " + " ".join(map(str, e)) + " | " + " ".join(map(str, flat)) + " | "
            + " ".join(map(str, pad)))


def line_episode(inst: dict, N: int, mno: bool, jssp: bool, actions: List[int]) -> str:
    return (f"fjsp.episode {inst['J']} {inst['M']} {N} {int(mno)} {int(jssp)} | " + _sections(inst, N) + " | "
            + " ".join(map(str, actions)))


def line_batch(insts: List[dict], N: int, mno: bool, jssp: bool, actions: List[List[int]]) -> str:
    T = len(actions[0])
    assert all(len(a) == T for a in actions)
    i0 = insts[0]
    head = f"fjsp.batch {i0['J']} {i0['M']} {N} {int(mno)} {int(jssp)} {len(insts)} {T}"
    rows = [_sections(i, N) + " | " + " ".join(map(str, a)) for i, a in zip(insts, actions)]
    return head + " | " + " | ".join(rows)


def line_spec(inst: dict, N: int, start: List[int], finish: List[int], assign: List[int], mk: int) -> str:
    s, e = starts_ends(inst)
    tot = total_ops(inst)
    flat = []
    for m in range(inst["M"]):
        flat += proc_row(inst, m, N)
    return (f"fjsp.spec {inst['J']} {inst['M']} {N} | " + " ".join(map(str, s)) + " | " + " ".join(map(str, e)) + " | "
            + " ".join(map(str, flat)) + " | " + " ".join(map(str, start)) + " | " + " ".join(map(str, finish)) + " | "
            + " ".join(map(str, assign)) + " | " + str(mk))


def line_brute(inst: dict) -> str:
    N = total_ops(inst)
    s, e = starts_ends(inst)
    flat = []
    for m in range(inst["M"]):
        flat += list(inst["proc"][m])
    return (f"fjsp.brute {inst['J']} {inst['M']} {N} | " + " ".join(map(str, s)) + " | " + " ".join(map(str, e)) + " | "
            + " ".join(map(str, flat)))


# ----------------------------------------------------------------------------------------------
# driving the real environment
# ----------------------------------------------------------------------------------------------
def exact_int(x: float) -> int:
    r = int(round(x))
    if r != x:
        raise ValueError(f"value {x!r} is not integral (instance left the exact stream)")
    return r


class Ep:
    def __init__(self, B: int):
        self.actions: List[List[int]] = [[] for _ in range(B)]
        self.masks: List[List[str]] = [[] for _ in range(B)]
        self.done: List[List[int]] = [[] for _ in range(B)]
        self.times: List[List[int]] = [[] for _ in range(B)]
        self.ready: List[List[str]] = [[] for _ in range(B)]  # td['is_ready'] (op_is_ready feature)
        self.empty_mask_rows: List[tuple] = []
        self.td = None
        self.steps = 0
        self.error: Optional[str] = None  # exception raised by env.step (assertion of the code)
        self.error_step: Optional[int] = None

    def final(self, r: int) -> dict:
        td = self.td
        return {
            "start": [exact_int(v) for v in td["start_times"][r].tolist()],
            "finish": [exact_int(v) for v in td["finish_times"][r].tolist()],
            "assign": [int(v) for v in td["ma_assignment"][r].flatten().tolist()],
        }


def run_real(env, td0: TensorDict, choose: Callable[[int, int, List[int]], int], extra_pad: int = 0,
             forced: Optional[List[List[int]]] = None, max_steps: int = 2000, stop_rows_done: Optional[List[int]] = None) -> Ep:
    """The harness' own loop: reset, then step until every row is done (+ `extra_pad` further steps in
    which finished rows take whatever their mask offers).  Records mask / done / time of every row
    before each action and after the last one."""
    td = env.reset(td0.clone())
    B = td.batch_size[0]
    ep = Ep(B)
    pad_left = extra_pad
    t = 0
    while True:
        mask = td["action_mask"]
        done = td["done"].reshape(B)
        tm = td["time"].reshape(B).tolist()
        for r in range(B):
            ep.masks[r].append(rl.mask_str(mask[r]))
            ep.done[r].append(int(done[r]))
            ep.times[r].append(exact_int(tm[r]))
            if "is_ready" in td.keys():
                ep.ready[r].append(rl.mask_str(td["is_ready"][r]))
        if bool(done.all()):
            if pad_left <= 0:
                break
            pad_left -= 1
        if forced is not None and all(t >= len(f) for f in forced):
            break
        if t >= max_steps:
            ep.td, ep.steps = td, t
            raise RuntimeError(f"episode exceeded {max_steps} steps")
        acts, stop = [], False
        for r in range(B):
            feas = [j for j, b in enumerate(mask[r].tolist()) if b]
            if not feas:
                ep.empty_mask_rows.append((r, t))
                stop = True
                acts.append(0)
                continue
            if forced is not None and t < len(forced[r]):
                acts.append(forced[r][t])
            else:
                acts.append(choose(r, t, feas))
        if stop:
            break
        td.set("action", torch.tensor(acts, dtype=torch.long))
        try:
            td = env.step(td)["next"]
        except (AssertionError, RuntimeError, IndexError) as e:
            ep.error, ep.error_step = f"{type(e).__name__}: {e}", t
            for r in range(B):
                ep.actions[r].append(acts[r])
            break
        for r in range(B):
            ep.actions[r].append(acts[r])
        t += 1
    ep.td, ep.steps = td, t
    return ep


def chooser(rng, style: str):
    """uniform: uniform over the real mask; waity: take the wait action half of the time when it is
    offered (long idle stretches); eager: never wait unless forced"""
    def ch(r, t, feas):
        if style == "waity" and 0 in feas and len(feas) > 1 and rng.random() < 0.5:
            return 0
        if style == "eager" and len(feas) > 1 and 0 in feas:
            return rng.choice([a for a in feas if a != 0])
        return rng.choice(feas)
    return ch


def real_reward(env, td, actions: Optional[List[List[int]]] = None) -> List[int]:
    """`env.get_reward(td, actions)` as the policies call it (with the executed actions)"""
    B = td.batch_size[0]
    acts = torch.tensor(actions, dtype=torch.long) if actions is not None and len({len(a) for a in actions}) == 1 \
        else torch.zeros((B, 1), dtype=torch.long)
    r = env.get_reward(td, acts)
    return [exact_int(v) for v in r.flatten().tolist()]


# ----------------------------------------------------------------------------------------------
# model-vs-real comparison of one row
# ----------------------------------------------------------------------------------------------
def compare_row(ctx, tag: str, inst: dict, N: int, mno: bool, jssp: bool, actions: List[int], masks, done, times,
                final: Optional[dict], reward: Optional[int], f: Dict[str, str], sfx: str = "",
                what: str = "", observables=("mask", "done", "time", "schedule", "reward", "ready"),
                real_broke: Optional[str] = None, ready: Optional[List[str]] = None) -> None:
    """`f` = parsed driver reply (`fjsp.episode`, or one row of `fjsp.batch` with suffix `sfx`)."""
    det = {"inst": inst, "N": N, "mask_no_ops": mno, "jssp": jssp, "actions": actions}
    if "masks" + sfx not in f:
        ctx.disagreement(f"{tag}: driver error ({what})", {**det, "reply": f})
        return
    T = len(masks)
    if "mask" in observables:
        mm = f["masks" + sfx].split(",")[:T]
        if mm != masks:
            k = next((k for k in range(min(len(mm), T)) if mm[k] != masks[k]), -1)
            ctx.disagreement(f"{tag}: mask differs ({what})", {**det, "step": k, "real": masks[k] if k >= 0 else masks,
                                                               "model": mm[k] if k >= 0 else mm})
        if f.get("adm" + sfx) != "1":
            ctx.disagreement(f"{tag}: model mask does not admit an action the real mask offered ({what})", det)
    if "done" in observables:
        dm = [int(c) for c in f["done" + sfx]][:T]
        if dm != done:
            ctx.disagreement(f"{tag}: done differs ({what})", {**det, "real": done, "model": dm})
    if "time" in observables:
        tm = [int(x) for x in f["times" + sfx].split(",")][:T]
        if tm != times:
            ctx.disagreement(f"{tag}: time differs ({what})", {**det, "real": times, "model": tm})
    if "ready" in observables and ready is not None and ("ready" + sfx) in f:
        rm = f["ready" + sfx].split(",")[:T]
        if rm != ready[:T]:
            k = next((k for k in range(min(len(rm), T)) if rm[k] != ready[k]), -1)
            ctx.disagreement(f"{tag}: is_ready feature differs ({what})", {**det, "step": k, "real": ready[k] if k >= 0 else ready,
                                                                          "model": rm[k] if k >= 0 else rm})
    model_err = "1" in f.get("err" + sfx, "")[: T + 1]
    if model_err and not real_broke:
        ctx.disagreement(f"{tag}: model reports a fired assertion, real code ran through ({what})", det)
    if real_broke and not model_err:
        ctx.disagreement(f"{tag}: the real env broke ({real_broke}) where the model runs through ({what})", det)
    if final is not None and "schedule" in observables:
        for key in ("start", "finish"):
            mv = [int(x) for x in f[key + sfx].split(",")]
            if mv != final[key]:
                ctx.disagreement(f"{tag}: final {key}_times differ ({what})", {**det, "real": final[key], "model": mv})
        av = [int(c) for c in f["assign" + sfx]]
        if av != final["assign"]:
            ctx.disagreement(f"{tag}: final ma_assignment differs ({what})", {**det, "real": final["assign"], "model": av})
    if reward is not None and "reward" in observables:
        if int(f["reward" + sfx]) != reward:
            ctx.disagreement(f"{tag}: reward differs ({what})", {**det, "real": reward, "model": f["reward" + sfx]})


# ----------------------------------------------------------------------------------------------
# exhaustive expansion of the real env on a tiny instance
# ----------------------------------------------------------------------------------------------
def sched_key(inst: dict, start: List[int], finish: List[int], assign: List[int], N: int) -> str:
    """canonical text of a complete schedule, same format as the driver's `fjsp.brute` output"""
    tot = total_ops(inst)
    recs = []
    for o in range(tot):
        ms = [m for m in range(inst["M"]) if assign[m * N + o]]
        recs.append(f"{o}:{'+'.join(map(str, ms))}:{start[o]}:{finish[o]}")
    return ",".join(recs)


def bfs_real(env, inst: dict, max_states: int = 60000):
    """All complete schedules reachable through the real mask, by breadth-first expansion of every
    True mask entry of the real env (frontier stepped as one batch, states deduplicated).
    Returns (set of schedule keys → one action list reaching it, best reward, #expanded, dead_ends)."""
    td0, N = to_td([inst])
    root = env.reset(td0)
    keys = ["time", "next_op", "job_in_process", "job_done", "busy_until", "start_times", "finish_times", "ma_assignment", "done"]

    def sig(td, r):
        return tuple(tuple(td[k][r].flatten().tolist()) for k in keys)

    frontier = [(root[0:1].clone(), [])]
    seen = {sig(root, 0)}
    finals: Dict[str, List[int]] = {}
    best = None
    expanded = 0
    dead = []
    depth = 0
    while frontier:
        depth += 1
        if depth > 4 * total_ops(inst) + 4:
            raise RuntimeError("BFS deeper than any admissible episode")
        parents, acts, paths = [], [], []
        for (td1, path) in frontier:
            m = td1["action_mask"][0].tolist()
            feas = [a for a, b in enumerate(m) if b]
            if not feas:
                dead.append(path)
            for a in feas:
                parents.append(td1)
                acts.append(a)
                paths.append(path + [a])
        if not parents:
            break
        nxt = []
        CH = 512
        for k in range(0, len(parents), CH):
            tdb = torch.cat(parents[k:k + CH], dim=0).clone()
            tdb.set("action", torch.tensor(acts[k:k + CH], dtype=torch.long))
            try:
                out = env.step(tdb)["next"]
            except (AssertionError, RuntimeError, IndexError) as e:
                # locate the offending child by stepping the chunk one by one
                for q in range(k, min(k + CH, len(parents))):
                    one = parents[q].clone()
                    one.set("action", torch.tensor(acts[q:q + 1], dtype=torch.long))
                    try:
                        env.step(one)
                    except (AssertionError, RuntimeError, IndexError) as e1:
                        dead.append(paths[q] + [f"{type(e1).__name__}: {e1}"])
                        return finals, best, expanded, dead
                dead.append(paths[k] + [f"batched step only: {type(e).__name__}: {e}"])
                return finals, best, expanded, dead
            expanded += out.batch_size[0]
            for r in range(out.batch_size[0]):
                s = sig(out, r)
                if s in seen:
                    continue
                seen.add(s)
                if bool(out["done"][r]):
                    st = [exact_int(v) for v in out["start_times"][r].tolist()]
                    fi = [exact_int(v) for v in out["finish_times"][r].tolist()]
                    asg = [int(v) for v in out["ma_assignment"][r].flatten().tolist()]
                    key = sched_key(inst, st, fi, asg, N)
                    rew = exact_int(float(env.get_reward(out[r:r + 1], torch.zeros((1, 1), dtype=torch.long))[0]))
                    if key not in finals:
                        finals[key] = paths[k + r]
                    best = rew if best is None else max(best, rew)
                else:
                    nxt.append((out[r:r + 1].clone(), paths[k + r]))
            if len(seen) > max_states:
                raise RuntimeError("BFS state budget exceeded")
        frontier = nxt
    return finals, best, expanded, dead


def actions_for_schedule(inst: dict, recs: List[Tuple[int, int, int, int]], jssp: bool) -> List[int]:
    """Action list that builds a given (semi-active) schedule chronologically when waiting is allowed:
    at every event time schedule the operations that start there (in operation order), then wait.
    Independent of the Lean model; used to test that the real mask admits every such schedule."""
    s, e = starts_ends(inst)
    job_of = {}
    for j, (a, b) in enumerate(zip(s, e)):
        for o in range(a, b + 1):
            job_of[o] = j
    M = inst["M"]
    times = sorted({r[2] for r in recs} | {r[3] for r in recs} | {0})
    end = max(r[3] for r in recs)
    acts = []
    for t in times:
        for (o, m, st, fi) in sorted(recs):
            if st == t:
                j = job_of[o]
                acts.append(1 + j if jssp else 1 + j * M + m)
        if t < end:
            acts.append(0)
    return acts


def parse_scheds(txt: str) -> List[List[Tuple[int, int, int, int]]]:
    out = []
    if not txt:
        return out
    for s in txt.split(";"):
        recs = []
        for r in s.split(","):
            o, m, st, fi = r.split(":")
            recs.append((int(o), int(m), int(st), int(fi)))
        out.append(recs)
    return out
