"""Helpers shared by the multi-agent routing units (mTSP, MDCPDP): an episode runner that also records
per-step bookkeeping tensors, and C03 / C04 routines that *classify* a reward mismatch by cause (so
that a modelled, known defect gets its own stable violation key and anything else keeps firing).

Adapted from `rl.run_episode` / `envcorr.check_batch_independence`; the shared modules are untouched.
"""
from __future__ import annotations

from typing import Callable, Dict, List, Optional

import envcorr
import rl
from leanio import parse_fields
from rl import torch


def run_episode_obs(env, td0, choose, observe: Callable, max_steps: int = 10_000, extra_pad: int = 0,
                    forced: Optional[List[List[int]]] = None, post_reset: Optional[Callable] = None):
    """Like `rl.run_episode`, plus `obs[r][t]` = `observe(td, r)` in the state after t actions.
    `post_reset(td)` may pin what `reset` drew at random (so that a row can be re-run with the same draw)."""
    td = env.reset(td0.clone())
    if post_reset is not None:
        post_reset(td)
    B = td.batch_size[0]
    ep = rl.Episode(B)
    ep.obs = [[] for _ in range(B)]
    pad_left = extra_pad
    t = 0
    while True:
        mask = td["action_mask"]
        done = td["done"].reshape(B) if "done" in td.keys() else torch.zeros(B, dtype=torch.bool)
        for r in range(B):
            ep.masks[r].append(rl.mask_str(mask[r]))
            ep.done[r].append(int(done[r]))
            ep.obs[r].append(observe(td, r))
        if bool(done.all()):
            if pad_left <= 0:
                break
            pad_left -= 1
        if t >= max_steps:
            raise RuntimeError(f"episode exceeded {max_steps} steps")
        acts, stop = [], False
        for r in range(B):
            feas = [j for j, b in enumerate(mask[r].tolist()) if b]
            if not feas:
                ep.empty_mask_rows.append((r, t))
                stop = True
                acts.append(0)
                continue
            acts.append(forced[r][t] if (forced is not None and t < len(forced[r])) else choose(r, t, feas))
        if stop:
            break
        for r in range(B):
            ep.actions[r].append(acts[r])
        td.set("action", torch.tensor(acts, dtype=torch.long))
        td = env.step(td)["next"]
        t += 1
    ep.steps = t
    ep.td = td
    return ep


def gen_points_box(rng, m: int):
    """exact-grid points with integral pairwise distances (`geom.gen_points`), in the unit box or — one time in three —
    in a scaled and/or shifted box (coordinates up to ±8, still exact in float32): magnitudes other than [0,1]²"""
    import geom

    pts = geom.gen_points(rng, m)
    if rng.random() < 0.34:
        sc = rng.choice([1, 2, 4])
        dx, dy = rng.choice([0, 1, -1, 3, -4]) * geom.GRID, rng.choice([0, 1, -2, 4]) * geom.GRID
        pts = [(x * sc + dx, y * sc + dy) for (x, y) in pts]
    return pts


def chunked(run):
    """wrap a unit's `run(ctx)` so that every driver request of the unit (also those issued by the shared
    `envcorr` routines) goes through small chunks"""
    import leanio

    class ChunkedDriver(leanio.Driver):
        def ask_many(self, lines):
            out = []
            for k in range(0, len(lines), 40):
                out += leanio.Driver.ask_many(self, lines[k: k + 40])
            return out

    def wrapped(ctx):
        if ctx._driver is None:
            ctx._driver = ChunkedDriver()
        return run(ctx)

    return wrapped


def ask_chunked(ctx, lines: List[str], chunk: int = 40) -> List[str]:
    """`leanio.ask_many` writes a whole chunk (2000 lines) before it reads; with long replies the driver blocks on
    its full stdout pipe while we block on its stdin.  Small chunks keep both directions below the pipe size."""
    out: List[str] = []
    for k in range(0, len(lines), chunk):
        out += ctx.driver.ask_many(lines[k: k + chunk])
    return out


def first_done(d: List[int]) -> Optional[int]:
    return d.index(1) if 1 in d else None


def check_batch_independence(ctx, ad, groups_quick: int = 10, groups_thorough: int = 120):
    """C04: every row of a batch (any position, any batch-mates, padded while slower rows run) against
    (a) the per-instance Lean model and (b) a real solo run of the same row with the same actions.
    `ad.reward_diff_key(inst, f, rew_solo, rew_batched)` names the cause of a reward difference."""
    env = ad.make_env()
    total = ctx.budget(groups_quick, groups_thorough)
    for g in range(total):
        n = ctx.rng.choice(ad.sizes(ctx.tier))
        B = ctx.rng.choice([2, 3, 5, 8])
        insts = envcorr.make_batch(ad, ctx, n, B)
        if ctx.rng.random() < 0.4:
            insts[ctx.rng.randrange(B)] = insts[0]
        pad = ctx.rng.choice([0, 1, 2, 4])
        try:
            td0, ep = envcorr.run_batch(ctx, ad, env, insts, extra_pad=pad)
        except envcorr.EpisodeFailed:
            continue
        try:
            rew_b = ad.real_reward_ticks(env, ep.td, rl.actions_tensor(ep))
            extra_b = ad.extra_rewards(env, ep.td, rl.actions_tensor(ep)) if hasattr(ad, "extra_rewards") else {}
        except ValueError:
            rew_b, extra_b = None, {}
        lines = [ad.line("episode", insts[r], ep.actions[r]) for r in range(B)]
        replies = ctx.driver.ask_many(lines)
        fs = []
        for r in range(B):
            fs.append(envcorr.compare_trace(ctx, ad, insts[r], ep.actions[r], ep.masks[r], ep.done[r], replies[r],
                                            "C04 batched row vs solo model"))
            if rew_b is not None and "reward" in fs[r] and int(fs[r]["reward"]) != rew_b[r]:
                ctx.disagreement(f"{ad.name}: reward of a batched row differs from the model run on the same actions",
                                 {"inst": insts[r], "actions": ep.actions[r], "real": rew_b[r], "model": fs[r]["reward"]})
        rows = list(range(B)) if ctx.tier == "thorough" else ctx.rng.sample(range(B), min(B, 3))
        for r in rows:
            d = ep.done[r]
            fin = d.index(1) if 1 in d else len(ep.actions[r])
            solo_actions = ep.actions[r][:fin]
            try:
                td1, ep1 = envcorr.run_batch(ctx, ad, env, [insts[r]], forced=[solo_actions])
            except envcorr.EpisodeFailed:
                continue
            ctx.case((ad.name, repr(insts[r]), tuple(ep.actions[r]), B, r), nontrivial=B > 1)
            ctx.count(f"{ad.name}.B={B}")
            ctx.count(f"{ad.name}.pad-steps={min(len(ep.actions[r]) - fin, 3)}{'+' if len(ep.actions[r]) - fin > 3 else ''}")
            if ep1.actions[0] != solo_actions:
                ctx.violation(f"{ad.name}:batch-dependence:finish-step",
                              "solo run does not finish at the same step as inside the batch",
                              {"inst": insts[r], "batched_actions": ep.actions[r], "solo_actions": ep1.actions[0],
                               "row": r, "B": B})
                continue
            if ep1.masks[0] != ep.masks[r][: fin + 1]:
                ctx.violation(f"{ad.name}:batch-dependence:mask", "masks differ between solo and batched run",
                              {"inst": insts[r], "actions": solo_actions, "solo": ep1.masks[0],
                               "batched": ep.masks[r][: fin + 1], "row": r, "B": B})
            if rew_b is None:
                continue
            try:
                rew_s = ad.real_reward_ticks(env, ep1.td, rl.actions_tensor(ep1))[0]
                extra_s = ad.extra_rewards(env, ep1.td, rl.actions_tensor(ep1)) if hasattr(ad, "extra_rewards") else {}
            except ValueError:
                continue
            for field, vals in extra_b.items():  # further reward modes evaluated on the same final states
                if field in fs[r] and int(fs[r][field]) != vals[r]:
                    ctx.disagreement(f"{ad.name}: {field} of a batched row differs from the model run on the same actions",
                                     {"inst": insts[r], "actions": ep.actions[r], "real": vals[r], "model": fs[r][field]})
                if extra_s[field][0] != vals[r]:
                    ctx.violation(f"{ad.name}:batch-dependence:{field}",
                                  f"{field} differs between the solo run and the batched run (same instance, same actions)",
                                  {"inst": insts[r], "actions": solo_actions, "solo": extra_s[field][0], "batched": vals[r],
                                   "row": r, "B": B})
            if rew_s != rew_b[r]:
                key = ad.reward_diff_key(insts[r], fs[r], rew_s, rew_b[r])
                ctx.violation(key, "reward differs between the solo run and the batched (padded) run of the same "
                                   "instance with the same actions",
                              {"inst": insts[r], "batched_actions": ep.actions[r], "solo_actions": solo_actions,
                               "solo_reward_ticks": rew_s, "batched_reward_ticks": rew_b[r], "row": r, "B": B,
                               "lean_line": lines[r]})
        ctx.sample({"env": ad.name, "n": n, "B": B, "pad": pad, "steps": ep.steps})


# ------------------------------------------------------------------------------------------------
# C05 on tiny instances, driven inside heterogeneous batches
# ------------------------------------------------------------------------------------------------
def check_completeness_batched(ctx, P, insts_quick: int, insts_thorough: int, chunk: int = 30):
    """C05: every candidate complete solution of a tiny instance is (a) judged by the Lean Spec and (b) driven
    step by step through the REAL mask — as rows 1..k of a batch whose first and last rows are companion instances
    with different per-row parameters following their own random admissible actions.  Judged on the real mask:
      * a Spec-feasible canonical solution must be admitted all the way and recognised as finished;
      * the best objective over the solutions the real mask lets through must equal the best objective over the
        Spec-feasible ones (a solution that the mask admits although the Spec rejects it, and that beats the feasible
        optimum, is a witness).
    `P` supplies: name, instances(ctx, g) -> (inst, [companions]), candidates(inst), env_for(inst), to_td(insts),
    after_reset(td, r) -> dict merged into the row's instance, line(inst, actions), obj_fields,
    hide_key(inst, cand, t, mask, f), known_reachable(inst, cand, f)."""
    total = ctx.budget(insts_quick, insts_thorough)
    for g in range(total):
        inst, comps = P.instances(ctx, g)
        env = P.env_for(inst)
        cands = list(P.candidates(inst))
        rows = []  # per candidate: dict(cand, inst_row, blocked, done)
        for k0 in range(0, len(cands), chunk):
            part = cands[k0: k0 + chunk]
            batch = [comps[0]] + [inst] * len(part) + [comps[-1]]
            td = env.reset(P.to_td(batch))
            B = len(batch)
            infos = [P.after_reset(td, r) for r in range(B)]
            recs = [{"cand": c, "inst": dict(inst, **infos[1 + j]), "blocked": None, "done": None} for j, c in enumerate(part)]
            L = max(len(c) for c in part)
            for t in range(L):
                mask = td["action_mask"]
                acts = []
                for r in range(B):
                    feas = [j for j, b in enumerate(mask[r].tolist()) if b]
                    if r == 0 or r == B - 1:
                        acts.append(ctx.rng.choice(feas) if feas else 0)
                        continue
                    rec = recs[r - 1]
                    c = rec["cand"]
                    if t < len(c) and rec["blocked"] is None:
                        if bool(mask[r, c[t]]):
                            acts.append(c[t])
                            continue
                        rec["blocked"] = (t, rl.mask_str(mask[r]))
                    acts.append(feas[0] if feas else 0)
                td.set("action", torch.tensor(acts, dtype=torch.long))
                td = env.step(td)["next"]
                dn = td["done"].reshape(B).tolist()
                for j, rec in enumerate(recs):
                    if t + 1 == len(rec["cand"]):
                        rec["done"] = bool(dn[1 + j])
            rows += recs
        replies = ask_chunked(ctx, [P.line(rec["inst"], rec["cand"]) for rec in rows])
        feas_best = {k: None for k in P.obj_fields}
        n_feas = n_reach = 0
        for rec, rep in zip(rows, replies):
            f = parse_fields(rep)
            rec["f"] = f
            if "feas" not in f:
                ctx.disagreement(f"{P.name}: driver error", {"reply": rep[:300]})
                continue
            if f["feas"] == "1":
                n_feas += 1
                for k in P.obj_fields:
                    v = int(f[k])
                    feas_best[k] = v if feas_best[k] is None else min(feas_best[k], v)
        for rec in rows:
            f = rec.get("f", {})
            if "feas" not in f:
                continue
            c, ri = rec["cand"], rec["inst"]
            reach = rec["blocked"] is None and rec["done"] is True
            n_reach += int(reach)
            ctx.case((P.name, repr(ri), tuple(c)))
            if hasattr(P, "extra_check"):
                P.extra_check(ctx, ri, c, f)
            if (f.get("adm") == "1") != (rec["blocked"] is None):
                ctx.disagreement(f"{P.name}: model and real mask disagree on a candidate solution",
                                 {"inst": ri, "solution": c, "model_admits": f.get("adm"), "real_blocked": rec["blocked"]})
            if f["feas"] == "1":
                if rec["blocked"] is not None:
                    t, m = rec["blocked"]
                    ctx.violation(P.hide_key(ri, c, t, m, f), "a feasible solution (Lean Spec) is not offered by the real mask",
                                  {"inst": ri, "solution": c, "blocked_at_step": t, "mask": m, "companions": comps})
                elif not rec["done"]:
                    ctx.violation(f"{P.name}:feasible-not-done", "feasible complete solution not recognised as finished",
                                  {"inst": ri, "solution": c})
            elif reach:
                ctx.count(f"{P.name}.mask-admits-spec-infeasible-solution")
                if P.known_reachable(ri, c, f):
                    ctx.count(f"{P.name}.…explained-by-known-finding")
                    continue
                for k in P.obj_fields:
                    if feas_best[k] is not None and int(f[k]) < feas_best[k]:
                        ctx.violation(f"{P.name}:mask-optimum-beats-feasible-optimum",
                                      "the best solution reachable through the real mask is better than the brute-force optimum: "
                                      "the mask admits a complete solution that the Lean Spec rejects",
                                      {"inst": ri, "solution": c, "objective": k, "value_ticks": int(f[k]),
                                       "feasible_optimum_ticks": feas_best[k], "spec_verdict": f.get("why"), "companions": comps})
                        break
        ctx.count(f"{P.name}.candidates", len(rows))
        ctx.count(f"{P.name}.feasible", n_feas)
        ctx.count(f"{P.name}.mask-reachable", n_reach)
        ex = next((rec["cand"] for rec in rows if rec.get("f", {}).get("feas") == "1"), None)
        ctx.sample({"env": P.name, "inst": inst, "companions": comps, "n_candidates": len(rows), "n_feasible": n_feas,
                    "n_mask_reachable": n_reach, "feasible_optimum_ticks": feas_best, "example": ex})
