"""Helpers shared by the multi-agent routing units (mTSP, MDCPDP): an episode runner that also records
per-step bookkeeping tensors, and C03 / C04 routines that *classify* a reward mismatch by cause (so
that a modelled, known defect gets its own stable violation key and anything else keeps firing).

Adapted from `rl.run_episode` / `envcorr.check_batch_independence`; the shared modules are untouched.
"""
from __future__ import annotations

from typing import Callable, Dict, List, Optional

import envcorr
import rl
from leanio import parse_fields
from rl import torch


def run_episode_obs(env, td0, choose, observe: Callable, max_steps: int = 10_000, extra_pad: int = 0,
                    forced: Optional[List[List[int]]] = None):
    """Like `rl.run_episode`, plus `obs[r][t]` = `observe(td, r)` in the state after t actions."""
    td = env.reset(td0.clone())
    B = td.batch_size[0]
    ep = rl.Episode(B)
    ep.obs = [[] for _ in range(B)]
    pad_left = extra_pad
    t = 0
    while True:
        mask = td["action_mask"]
        done = td["done"].reshape(B) if "done" in td.keys() else torch.zeros(B, dtype=torch.bool)
        for r in range(B):
            ep.masks[r].append(rl.mask_str(mask[r]))
            ep.done[r].append(int(done[r]))
            ep.obs[r].append(observe(td, r))
        if bool(done.all()):
            if pad_left <= 0:
                break
            pad_left -= 1
        if t >= max_steps:
            raise RuntimeError(f"episode exceeded {max_steps} steps")
        acts, stop = [], False
        for r in range(B):
            feas = [j for j, b in enumerate(mask[r].tolist()) if b]
            if not feas:
                ep.empty_mask_rows.append((r, t))
                stop = True
                acts.append(0)
                continue
            acts.append(forced[r][t] if (forced is not None and t < len(forced[r])) else choose(r, t, feas))
        if stop:
            break
        for r in range(B):
            ep.actions[r].append(acts[r])
        td.set("action", torch.tensor(acts, dtype=torch.long))
        td = env.step(td)["next"]
        t += 1
    ep.steps = t
    ep.td = td
    return ep


def chunked(run):
    """wrap a unit's `run(ctx)` so that every driver request of the unit (also those issued by the shared
    `envcorr` routines) goes through small chunks"""
    import leanio

    class ChunkedDriver(leanio.Driver):
        def ask_many(self, lines):
            out = []
            for k in range(0, len(lines), 40):
                out += leanio.Driver.ask_many(self, lines[k: k + 40])
            return out

    def wrapped(ctx):
        if ctx._driver is None:
            ctx._driver = ChunkedDriver()
        return run(ctx)

    return wrapped


def ask_chunked(ctx, lines: List[str], chunk: int = 40) -> List[str]:
    """`leanio.ask_many` writes a whole chunk (2000 lines) before it reads; with long replies the driver blocks on
    its full stdout pipe while we block on its stdin.  Small chunks keep both directions below the pipe size."""
    out: List[str] = []
    for k in range(0, len(lines), chunk):
        out += ctx.driver.ask_many(lines[k: k + chunk])
    return out


def first_done(d: List[int]) -> Optional[int]:
    return d.index(1) if 1 in d else None


def check_batch_independence(ctx, ad, groups_quick: int = 10, groups_thorough: int = 120):
    """C04: every row of a batch (any position, any batch-mates, padded while slower rows run) against
    (a) the per-instance Lean model and (b) a real solo run of the same row with the same actions.
    `ad.reward_diff_key(inst, f, rew_solo, rew_batched)` names the cause of a reward difference."""
    env = ad.make_env()
    total = ctx.budget(groups_quick, groups_thorough)
    for g in range(total):
        n = ctx.rng.choice(ad.sizes(ctx.tier))
        B = ctx.rng.choice([2, 3, 5, 8])
        insts = envcorr.make_batch(ad, ctx, n, B)
        if ctx.rng.random() < 0.4:
            insts[ctx.rng.randrange(B)] = insts[0]
        pad = ctx.rng.choice([0, 1, 2, 4])
        try:
            td0, ep = envcorr.run_batch(ctx, ad, env, insts, extra_pad=pad)
        except envcorr.EpisodeFailed:
            continue
        try:
            rew_b = ad.real_reward_ticks(env, ep.td, rl.actions_tensor(ep))
        except ValueError:
            rew_b = None
        lines = [ad.line("episode", insts[r], ep.actions[r]) for r in range(B)]
        replies = ctx.driver.ask_many(lines)
        fs = []
        for r in range(B):
            fs.append(envcorr.compare_trace(ctx, ad, insts[r], ep.actions[r], ep.masks[r], ep.done[r], replies[r],
                                            "C04 batched row vs solo model"))
            if rew_b is not None and "reward" in fs[r] and int(fs[r]["reward"]) != rew_b[r]:
                ctx.disagreement(f"{ad.name}: reward of a batched row differs from the model run on the same actions",
                                 {"inst": insts[r], "actions": ep.actions[r], "real": rew_b[r], "model": fs[r]["reward"]})
        rows = list(range(B)) if ctx.tier == "thorough" else ctx.rng.sample(range(B), min(B, 3))
        for r in rows:
            d = ep.done[r]
            fin = d.index(1) if 1 in d else len(ep.actions[r])
            solo_actions = ep.actions[r][:fin]
            try:
                td1, ep1 = envcorr.run_batch(ctx, ad, env, [insts[r]], forced=[solo_actions])
            except envcorr.EpisodeFailed:
                continue
            ctx.case((ad.name, repr(insts[r]), tuple(ep.actions[r]), B, r), nontrivial=B > 1)
            ctx.count(f"{ad.name}.B={B}")
            ctx.count(f"{ad.name}.pad-steps={min(len(ep.actions[r]) - fin, 3)}{'+' if len(ep.actions[r]) - fin > 3 else ''}")
            if ep1.actions[0] != solo_actions:
                ctx.violation(f"{ad.name}:batch-dependence:finish-step",
                              "solo run does not finish at the same step as inside the batch",
                              {"inst": insts[r], "batched_actions": ep.actions[r], "solo_actions": ep1.actions[0],
                               "row": r, "B": B})
                continue
            if ep1.masks[0] != ep.masks[r][: fin + 1]:
                ctx.violation(f"{ad.name}:batch-dependence:mask", "masks differ between solo and batched run",
                              {"inst": insts[r], "actions": solo_actions, "solo": ep1.masks[0],
                               "batched": ep.masks[r][: fin + 1], "row": r, "B": B})
            if rew_b is None:
                continue
            try:
                rew_s = ad.real_reward_ticks(env, ep1.td, rl.actions_tensor(ep1))[0]
            except ValueError:
                continue
            if rew_s != rew_b[r]:
                key = ad.reward_diff_key(insts[r], fs[r], rew_s, rew_b[r])
                ctx.violation(key, "reward differs between the solo run and the batched (padded) run of the same "
                                   "instance with the same actions",
                              {"inst": insts[r], "batched_actions": ep.actions[r], "solo_actions": solo_actions,
                               "solo_reward_ticks": rew_s, "batched_reward_ticks": rew_b[r], "row": r, "B": B,
                               "lean_line": lines[r]})
        ctx.sample({"env": ad.name, "n": n, "B": B, "pad": pad, "steps": ep.steps})
