"""Correspondence routines for the CVRP variants (CVRPTW, SDVRP, SVRP), adapted from `envcorr.py`
(which stays untouched).  Differences from the generic routines:

* the amount of post-finish padding is an adapter attribute (`ad.pads`): SVRP's real env indexes
  `techs[current_tech]` and raises once a finished row has been padded past the last technician, which
  cannot happen inside a `while not done.all()` loop but does with arbitrary extra padding;
* exceptions raised by the real env / reward / checker are caught and compared with what the model
  predicts (`ovf=` / `zeros=` fields of the driver) instead of aborting the unit;
* violations are *classified by cause* (`ad.classify(...)`) so that a modelled, known defect gets its own
  stable key and every other failure of the same property keeps firing;
* C05 filters the enumerated candidates through `ad.c05_ok(fields)` (SDVRP: canonical sequences only).
"""
from __future__ import annotations

from typing import Dict, List

import envcorr
import rl
from envcorr import EpisodeFailed, compare_trace, make_batch, pick_env, run_batch
from leanio import parse_fields
from rl import torch


def viol(ctx, key: str, what: str, witness: dict, per_key: int = 2):
    """`ctx.violation` keeps only the first 20 records of a unit; a known finding that reproduces many times
    would crowd out a fresh violation raised later.  Report each key at most `per_key` times, count the rest."""
    seen = getattr(ctx, "_vv_seen", None)
    if seen is None:
        seen = ctx._vv_seen = {}
    seen[key] = seen.get(key, 0) + 1
    if seen[key] <= per_key:
        ctx.violation(key, what, witness)
    else:
        ctx.count("repeat:" + key)


def ask(ctx, lines: List[str], per_call: int = 100) -> List[str]:
    """`Driver.ask_many` writes up to 2000 request lines before it reads a reply; with long lines (distance
    matrix + a 17-step mask trace per reply) that exceeds the pipe buffers in both directions and deadlocks.
    Ask in small portions instead."""
    out: List[str] = []
    chunk, size = [], 0
    for ln in lines:  # at most `per_call` lines and ~32 kB per call (a single longer line goes alone)
        if chunk and (len(chunk) >= per_call or size + len(ln) > 32_000):
            out += ctx.driver.ask_many(chunk)
            chunk, size = [], 0
        chunk.append(ln)
        size += len(ln) + 1
    if chunk:
        out += ctx.driver.ask_many(chunk)
    return out


def first_done(d: List[int]):
    return d.index(1) if 1 in d else None


# ------------------------------------------------------------------------------------------------
# C01 (as envcorr.check_feasibility, plus boundary-event counters from `ad.boundary_events`)
# ------------------------------------------------------------------------------------------------
def check_feasibility(ctx, ad, episodes_quick: int = 150, episodes_thorough: int = 1500):
    total = ctx.budget(episodes_quick, episodes_thorough)
    done_eps = 0
    while done_eps < total:
        env, var = pick_env(ctx, ad)
        n = ctx.rng.choice(ad.sizes(ctx.tier))
        B = ctx.rng.choice([1, 2, 4, 6])
        insts = make_batch(ad, ctx, n, B, var)
        try:
            td0, ep = run_batch(ctx, ad, env, insts)
        except EpisodeFailed:
            done_eps += B
            continue
        if ep.empty_mask_rows:
            r0 = ep.empty_mask_rows[0][0]
            viol(ctx, f"{ad.name}:dead-end", "all-False mask row while the batch is running",
                 {"inst": insts[r0], "actions": ep.actions[r0]})
        lines = [ad.line("episode", insts[r], ep.actions[r]) for r in range(B)]
        replies = ask(ctx, lines)
        for r in range(B):
            f = compare_trace(ctx, ad, insts[r], ep.actions[r], ep.masks[r], ep.done[r], replies[r], "C01 stream")
            ctx.case((ad.name, repr(insts[r]), tuple(ep.actions[r])), nontrivial=len(ep.actions[r]) > 1)
            ctx.count(f"{ad.name}.n={n}")
            ctx.count(f"{ad.name}.kind={insts[r].get('kind')}")
            for ev in ad.boundary_events(insts[r], ep.actions[r]):
                ctx.count(f"{ad.name}.boundary.{ev}")
            if f.get("feas") == "0" and not ep.empty_mask_rows:
                viol(ctx, f"{ad.name}:infeasible-episode",
                     "mask-confined episode of the real env is infeasible by the Lean Spec",
                     {"inst": insts[r], "actions": ep.actions[r], "lean_line": lines[r]})
            ctx.sample({"env": ad.name, "inst": insts[r], "actions": ep.actions[r], "spec_feasible": f.get("feas")})
        done_eps += B


# ------------------------------------------------------------------------------------------------
# C02
# ------------------------------------------------------------------------------------------------
def check_termination(ctx, ad, episodes_quick: int = 100, episodes_thorough: int = 1000):
    total = ctx.budget(episodes_quick, episodes_thorough)
    done_eps = 0
    while done_eps < total:
        env, var = pick_env(ctx, ad)
        n = ctx.rng.choice(ad.sizes(ctx.tier))
        B = ctx.rng.choice([1, 2, 3, 5, 8])
        insts = make_batch(ad, ctx, n, B, var)
        pad = ctx.rng.choice(ad.pads)
        try:
            td0, ep = run_batch(ctx, ad, env, insts, extra_pad=pad, nonterm_is_violation=True)
        except EpisodeFailed:
            done_eps += B
            continue
        lines = [ad.line("episode", insts[r], ep.actions[r]) for r in range(B)]
        replies = ask(ctx, lines)
        for r in range(B):
            f = compare_trace(ctx, ad, insts[r], ep.actions[r], ep.masks[r], ep.done[r], replies[r], "C02 stream")
            d = ep.done[r]
            ctx.case((ad.name, repr(insts[r]), tuple(ep.actions[r])))
            ctx.count(f"{ad.name}.n={n}")
            ctx.count(f"{ad.name}.kind={insts[r].get('kind')}")
            for ev in ad.boundary_events(insts[r], ep.actions[r]):
                ctx.count(f"{ad.name}.boundary.{ev}")
            if any(d[k] == 1 and d[k + 1] == 0 for k in range(len(d) - 1)):
                viol(ctx, f"{ad.name}:done-unstable", "a finished row became unfinished again",
                              {"inst": insts[r], "actions": ep.actions[r], "done": d})
            fd = first_done(d)
            bound = ad.step_bound(insts[r])
            if fd is None:
                viol(ctx, f"{ad.name}:not-finished", "row not finished at the end of the batch episode",
                              {"inst": insts[r], "actions": ep.actions[r]})
            elif bound is not None and fd > bound:
                viol(ctx, f"{ad.name}:step-bound", f"row needed {fd} steps, bound is {bound}",
                              {"inst": insts[r], "actions": ep.actions[r]})
            if fd is not None and bound is not None and fd == bound:
                ctx.count(f"{ad.name}.bound-attained")
            if "bound" in f and bound is not None and int(f["bound"]) != bound:
                ctx.disagreement(f"{ad.name}: bound differs", {"model": f["bound"], "harness": bound, "inst": insts[r]})
            if fd is not None and fd < len(d) - 1:
                ctx.count(f"{ad.name}.padded-rows")
        for (r, t) in ep.empty_mask_rows:
            viol(ctx, f"{ad.name}:dead-end", "a row is offered no action while the batch is still running",
                          {"inst": insts[r], "actions": ep.actions[r], "step": t,
                           "row_done": ep.done[r][t] if t < len(ep.done[r]) else None})
        ctx.sample({"env": ad.name, "n": n, "B": B, "steps": ep.steps,
                    "first_done": [first_done(d) for d in ep.done]})
        done_eps += B


# ------------------------------------------------------------------------------------------------
# C03 (as envcorr.check_reward; an exception raised by the real `_get_reward` is a classified violation)
# ------------------------------------------------------------------------------------------------
def check_reward(ctx, ad, episodes_quick: int = 150, episodes_thorough: int = 3000):
    total = ctx.budget(episodes_quick, episodes_thorough)
    done_eps = 0
    while done_eps < total:
        env, var = pick_env(ctx, ad)
        n = ctx.rng.choice(ad.sizes(ctx.tier))
        B = ctx.rng.choice([1, 2, 4])
        insts = make_batch(ad, ctx, n, B, var)
        try:
            td0, ep = run_batch(ctx, ad, env, insts)
        except EpisodeFailed:
            done_eps += B
            continue
        acts = rl.actions_tensor(ep)
        done_eps += B
        try:
            real = ad.real_reward_ticks(env, ep.td, acts)
        except ValueError as e:
            ctx.note(f"{ad.name}: reward not on the exact grid ({e}); case skipped")
            ctx.count("inexact-skipped")
            continue
        except (RuntimeError, IndexError) as e:
            cause = ad.reward_exception_cause(insts, ep.actions, e)
            viol(ctx, f"{ad.name}:reward-raises" + (":" + cause if cause else ""),
                 "the real `_get_reward` raises for a finished mask-confined episode",
                 {"insts": insts, "actions": ep.actions, "error": str(e)[:200], "cause": cause})
            ctx.count(f"{ad.name}.reward-raised")
            continue
        mb = ad.batched_reward_model(ctx, insts, ep.actions)
        if mb is not None and mb != real:
            ctx.disagreement(f"{ad.name}: batched reward differs from the model of the batched reward loop",
                             {"insts": insts, "actions": ep.actions, "real": real, "model": mb})
        lines = [ad.line("episode", insts[r], ep.actions[r]) for r in range(B)]
        replies = ask(ctx, lines)
        for r in range(B):
            f = compare_trace(ctx, ad, insts[r], ep.actions[r], ep.masks[r], ep.done[r], replies[r], "C03 stream", trace=False)
            ctx.case((ad.name, repr(insts[r]), tuple(ep.actions[r])), nontrivial=real[r] != 0)
            ctx.count(f"{ad.name}.n={n}")
            ctx.count(f"{ad.name}.kind={insts[r].get('kind')}")
            if "reward" in f and int(f["reward"]) != real[r]:
                ctx.disagreement(f"{ad.name}: reward differs",
                                 {"inst": insts[r], "actions": ep.actions[r], "real": real[r], "model": f["reward"]})
            if "obj" in f and ad.reward_sign * int(f["obj"]) != real[r]:
                viol(ctx, f"{ad.name}:reward-ne-objective", "reward of the real env differs from the Spec objective",
                     {"inst": insts[r], "actions": ep.actions[r], "real_reward_ticks": real[r],
                      "spec_objective_ticks": int(f["obj"]), "lean_line": lines[r]})
            ctx.sample({"env": ad.name, "inst": insts[r], "actions": ep.actions[r], "reward_ticks": real[r],
                        "spec_obj": f.get("obj")})


# ------------------------------------------------------------------------------------------------
# C04
# ------------------------------------------------------------------------------------------------
def check_batch_independence(ctx, ad, groups_quick: int = 30, groups_thorough: int = 300):
    total = ctx.budget(groups_quick, groups_thorough)
    for g in range(total):
        env, var = pick_env(ctx, ad)
        n = ctx.rng.choice(ad.sizes(ctx.tier))
        B = ctx.rng.choice([2, 3, 5, 8])
        insts = make_batch(ad, ctx, n, B, var)
        if ctx.rng.random() < 0.4:
            insts[ctx.rng.randrange(B)] = insts[0]
        pad = ctx.rng.choice(ad.pads)
        try:
            td0, ep = run_batch(ctx, ad, env, insts, extra_pad=pad)
        except EpisodeFailed:
            continue
        acts = rl.actions_tensor(ep)
        try:
            rew_b = ad.real_reward_ticks(env, ep.td, acts)
        except ValueError:
            rew_b = None
        except (RuntimeError, IndexError) as e:
            rew_b = None
            ctx.count(f"{ad.name}.batched-reward-raised")
        if rew_b is not None:
            mb = ad.batched_reward_model(ctx, insts, ep.actions)
            if mb is not None and mb != rew_b:
                ctx.disagreement(f"{ad.name}: batched reward differs from the model of the batched reward loop",
                                 {"insts": insts, "actions": ep.actions, "real": rew_b, "model": mb})
        lines = [ad.line("episode", insts[r], ep.actions[r]) for r in range(B)]
        replies = ask(ctx, lines)
        for r in range(B):
            f = compare_trace(ctx, ad, insts[r], ep.actions[r], ep.masks[r], ep.done[r], replies[r],
                              "C04 batched row vs solo model")
            if rew_b is not None and "reward" in f and int(f["reward"]) != rew_b[r]:
                ctx.disagreement(f"{ad.name}: batched reward differs from the per-instance model",
                                 {"inst": insts[r], "actions": ep.actions[r], "real": rew_b[r], "model": f["reward"],
                                  "row": r, "B": B})
        rows = list(range(B)) if ctx.tier == "thorough" else ctx.rng.sample(range(B), min(B, 3))
        for r in rows:
            d = ep.done[r]
            fin = d.index(1) if 1 in d else len(ep.actions[r])
            solo_actions = ep.actions[r][:fin]
            try:
                td1, ep1 = run_batch(ctx, ad, env, [insts[r]], forced=[solo_actions])
            except EpisodeFailed:
                continue
            ctx.case((ad.name, repr(insts[r]), tuple(ep.actions[r]), B, r), nontrivial=B > 1)
            ctx.count(f"{ad.name}.B={B}")
            if fin < len(ep.actions[r]):
                ctx.count(f"{ad.name}.rows-with-padding")
                ctx.count(f"{ad.name}.padding-steps", len(ep.actions[r]) - fin)
            if ep1.actions[0] != solo_actions:
                viol(ctx, f"{ad.name}:batch-dependence:finish-step",
                              "solo run does not finish at the same step as inside the batch",
                              {"inst": insts[r], "batched_actions": ep.actions[r], "solo_actions": ep1.actions[0],
                               "batch": insts, "row": r})
                continue
            if ep1.masks[0] != ep.masks[r][: fin + 1]:
                viol(ctx, f"{ad.name}:batch-dependence:mask", "masks differ between solo and batched run",
                              {"inst": insts[r], "actions": solo_actions, "solo": ep1.masks[0],
                               "batched": ep.masks[r][: fin + 1], "batch": insts, "row": r})
            if rew_b is not None:
                try:
                    rew_s = ad.real_reward_ticks(env, ep1.td, rl.actions_tensor(ep1))[0]
                except ValueError:
                    rew_s = None
                except (RuntimeError, IndexError) as e:
                    rew_s = None
                    cause = ad.reward_exception_cause([insts[r]], [solo_actions], e)
                    viol(ctx, f"{ad.name}:batch-dependence:reward-raises-solo" + (":" + cause if cause else ""),
                         "`_get_reward` returns a value for the row inside the batch but raises for the same instance and "
                         "actions run alone",
                         {"inst": insts[r], "solo_actions": solo_actions, "batched_actions": ep.actions[r],
                          "batched_reward_ticks": rew_b[r], "error": str(e)[:200], "cause": cause})
                if rew_s is not None and rew_s != rew_b[r]:
                    viol(ctx, f"{ad.name}:batch-dependence:reward",
                                  "reward differs between the solo run and the batched (padded) run",
                                  {"inst": insts[r], "batched_actions": ep.actions[r], "solo_actions": solo_actions,
                                   "solo_reward_ticks": rew_s, "batched_reward_ticks": rew_b[r], "row": r, "B": B})
        ctx.sample({"env": ad.name, "n": n, "B": B, "pad": pad, "steps": ep.steps})


# ------------------------------------------------------------------------------------------------
# C05
# ------------------------------------------------------------------------------------------------
def check_completeness(ctx, ad, insts_quick: int = 12, insts_thorough: int = 80, nmax_quick=3, nmax_thorough=4):
    """Every Spec-feasible candidate that `ad.c05_ok` calls canonical must be admitted step by step by the
    REAL mask and end in a finished state.  A blocked candidate is classified by `ad.c05_cause`.  Candidates
    are replayed in chunks of equal length (no padding of shorter rows)."""
    total = ctx.budget(insts_quick, insts_thorough)
    nmax = ctx.budget(nmax_quick, nmax_thorough)
    for g in range(total):
        n = ctx.rng.randint(1, nmax) if g >= nmax else nmax - g  # the largest sizes first, then random
        ks = sorted(set(ad.kinds()), key=lambda k: (not k.startswith("boundary"), k))
        env, var = pick_env(ctx, ad)
        inst = ad.gen_instance(ctx.rng, n, ks[g % len(ks)], **var)  # every kind is used, boundary kinds first
        decoy = ad.gen_instance(ctx.rng, n, ctx.rng.choice(ad.kinds()), **var)  # unrelated row 0 of every replay batch
        cands = list(ad.enumerate_solutions(inst))
        lines = [ad.line(ad.c05_op, inst, c) for c in cands]
        replies = ask(ctx, lines)
        feas = []
        for c, rep in zip(cands, replies):
            f = parse_fields(rep)
            if f.get("feas") == "1" and ad.c05_ok(f):
                feas.append((c, f))
        ctx.count(f"{ad.name}.candidates", len(cands))
        ctx.count(f"{ad.name}.feasible-canonical", len(feas))
        ctx.count(f"{ad.name}.kind={inst.get('kind')}")
        if not feas:
            ctx.count(f"{ad.name}.no-feasible-solution")
            continue
        best_all, best_adm, best_c, best_f = None, None, None, None
        by_len = {}
        for c, f in feas:
            by_len.setdefault(len(c), []).append((c, f))
        CH = 64
        for L, group in sorted(by_len.items()):
            for k in range(0, len(group), CH):
                chunk = group[k: k + CH]
                # row 0 of every replay batch is an unrelated instance stepped with its first feasible action
                td = env.reset(ad.to_td([decoy] + [inst] * len(chunk)))
                alive = [True] * len(chunk)
                crashed = None
                for t in range(L):
                    mask = td["action_mask"][1:]
                    drow = td["action_mask"][0].tolist()
                    acts = [next((j for j, b in enumerate(drow) if b), 0)]
                    for r, (c, f) in enumerate(chunk):
                        row = mask[r].tolist()
                        a = c[t]
                        if alive[r] and not row[a]:
                            alive[r] = False
                            cause = ad.c05_cause(inst, c, t, f)
                            viol(ctx, f"{ad.name}:mask-hides-feasible" + (":" + cause if cause else ""),
                                          "a feasible solution (Lean Spec) is not offered by the real mask",
                                          {"inst": inst, "solution": c, "blocked_at_step": t,
                                           "mask": rl.mask_str(mask[r]), "cause": cause})
                            if f.get("adm") == "1":
                                ctx.disagreement(f"{ad.name}: model admits, real mask blocks",
                                                 {"inst": inst, "solution": c, "step": t})
                        feasible_now = [j for j, b in enumerate(row) if b]
                        acts.append(a if row[a] else (feasible_now[0] if feasible_now else 0))
                    td.set("action", torch.tensor(acts, dtype=torch.long))
                    try:
                        td = env.step(td)["next"]
                    except (RuntimeError, IndexError) as e:
                        crashed = (t, str(e)[:160])
                        break
                if crashed is not None:
                    # only a row that left its own candidate (blocked earlier) may make the env raise
                    if all(alive):
                        viol(ctx, f"{ad.name}:env-raised-on-feasible", "real env raised while replaying feasible solutions",
                                      {"inst": inst, "step": crashed[0], "error": crashed[1], "solutions": [c for c, _ in chunk][:4]})
                    ctx.count(f"{ad.name}.chunks-aborted-after-blocked-row")
                    done = [None] * len(chunk)
                else:
                    done = td["done"].reshape(len(chunk) + 1).tolist()[1:]
                for r, (c, f) in enumerate(chunk):
                    ctx.case((ad.name, repr(inst), tuple(c)))
                    o = int(f["obj"])
                    if best_all is None or o < best_all:
                        best_all, best_c, best_f = o, c, f
                    if alive[r] and done[r] is not None:
                        best_adm = o if best_adm is None else min(best_adm, o)
                    if alive[r] and done[r] is False:
                        viol(ctx, f"{ad.name}:feasible-not-done", "feasible complete solution not recognised as finished",
                                      {"inst": inst, "solution": c})
                    if alive[r] and f.get("adm") != "1":
                        ctx.disagreement(f"{ad.name}: real mask admits a feasible solution, model does not",
                                         {"inst": inst, "solution": c})
                    if not alive[r] and f.get("adm") == "1":
                        pass  # already reported above
        if best_adm is None or best_all < best_adm:
            cause = ad.c05_opt_cause(inst, best_c, best_f)
            viol(ctx, f"{ad.name}:optimum-hidden" + (":" + cause if cause else ""),
                          "the best objective over the feasible candidates is better than the best one the real mask admits",
                          {"inst": inst, "best_feasible_ticks": best_all, "best_feasible_solution": best_c,
                           "best_admitted_ticks": best_adm})
        ad.c05_extra(ctx, env, inst, feas, best_all)
        ctx.sample({"env": ad.name, "inst": inst, "n_candidates": len(cands), "n_feasible": len(feas),
                    "best_objective_ticks": best_all, "best_admitted_ticks": best_adm, "example": feas[0][0]})


# ------------------------------------------------------------------------------------------------
# C06
# ------------------------------------------------------------------------------------------------
def real_checker(env, td, sol):
    """(accepted, exception name or None)"""
    try:
        env.check_solution_validity(td, torch.tensor([sol], dtype=torch.long))
        return True, None
    except AssertionError:
        return False, "AssertionError"
    except Exception as e:  # IndexError / RuntimeError on malformed input: a rejection by crash
        return False, type(e).__name__


def check_checker(ctx, ad, episodes_quick: int = 24, episodes_thorough: int = 300):
    total = ctx.budget(episodes_quick, episodes_thorough)
    light_total = ctx.budget(130, 1200)  # further episodes whose mask-generated solutions alone go to the checker
    done_eps = 0
    while done_eps < total + light_total:
        light = done_eps >= total
        env, var = pick_env(ctx, ad)
        n = ctx.rng.choice(ad.sizes(ctx.tier))
        B = ctx.rng.choice([1, 2, 4])
        insts = make_batch(ad, ctx, n, B, var)
        try:
            td0, ep = run_batch(ctx, ad, env, insts, extra_pad=ctx.rng.choice(ad.pads))
        except EpisodeFailed:
            done_eps += B
            continue
        cases = []  # (inst, label, actions, extra-line-or-None)
        for r in range(B):
            fin = first_done(ep.done[r])
            cases.append((insts[r], "mask-generated", ep.actions[r]))
            if fin is not None and fin < len(ep.actions[r]):
                cases.append((insts[r], "mask-generated-unpadded", ep.actions[r][:fin]))
            if light:
                continue
            for lab, sol in ad.handbuilt(ctx.rng, insts[r]):
                cases.append((insts[r], lab, sol))
            for lab, sol in envcorr.corruptions(ad, ctx.rng, insts[r], ep.actions[r]):
                cases.append((insts[r], lab, sol))
            for lab, inst2, sol in ad.special_cases(ctx.rng, insts[r], ep.actions[r]):
                cases.append((inst2, lab, sol))
        lines = [ad.check_line(i, lab, s) for (i, lab, s) in cases]
        replies = ask(ctx, lines)
        solo_verdicts = []
        for (inst, lab, sol), rep in zip(cases, replies):
            f = parse_fields(rep)
            td1 = env.reset(ad.to_td([inst]))
            acc, exc = real_checker(env, td1, sol)
            solo_verdicts.append(acc)
            ctx.case((ad.name, repr(inst), lab, tuple(sol)), nontrivial=True)
            ctx.count(f"{ad.name}.{lab}.{'feasible' if f.get('feas') == '1' else 'infeasible'}.{'accepted' if acc else 'rejected'}")
            if exc not in (None, "AssertionError"):
                ctx.count(f"{ad.name}.checker-raised-{exc}")
            if f.get("check") is None:
                ctx.disagreement(f"{ad.name}: driver error", {"reply": rep, "inst": inst, "actions": sol})
                continue
            if (f["check"] == "1") != acc:
                ctx.disagreement(f"{ad.name}: checker model differs from real checker",
                                 {"inst": inst, "label": lab, "actions": sol, "real_accepts": acc, "exception": exc,
                                  "model": f["check"]})
            margin_ok = f.get("near", "0") == "0"
            ad.checker_case_hook(ctx, inst, lab, sol, f)
            f["_exc"] = exc or ""
            # a cause is attributed only when the faithful model reproduces the real verdict: a checker that
            # deviates from the modelled one is never explained by a known defect
            explained = (f["check"] == "1") == acc
            if f.get("feas") == "1" and not acc:
                cause = ad.classify("rejects-feasible", inst, lab, sol, f) if explained else ""
                viol(ctx, f"{ad.name}:checker-rejects-feasible" + (":" + cause if cause else ""),
                              "the real checker raises for a solution that is feasible by the Lean Spec",
                              {"inst": inst, "label": lab, "actions": sol, "exception": exc, "cause": cause})
            if lab.startswith("mask-generated") and not acc and f.get("feas") != "1":
                # the property text: the checker accepts "in particular every solution produced through the mask";
                # here the mask produced a solution the checker rejects AND the Spec calls infeasible (so C01 fails too)
                viol(ctx, f"{ad.name}:checker-rejects-mask-generated",
                     "a solution produced through the real mask is rejected by the real checker (and infeasible by the Lean Spec)",
                     {"inst": inst, "label": lab, "actions": list(sol), "exception": exc})
            if f.get("feas") == "0" and acc and margin_ok:
                cause = ad.classify("accepts-infeasible", inst, lab, sol, f) if explained else ""
                viol(ctx, f"{ad.name}:checker-accepts-infeasible" + (":" + cause if cause else ""),
                              "the real checker accepts a solution that is infeasible by the Lean Spec",
                              {"inst": inst, "label": lab, "actions": sol, "cause": cause})
            ctx.sample({"env": ad.name, "label": lab, "inst": inst, "actions": list(sol),
                        "real_checker_accepts": acc, "spec_feasible": f.get("feas")}, cap=4)
        # `get_reward` calls the checker on whole batches: a batch must be accepted iff every one of its rows is
        # accepted on its own (a batch-global shortcut inside the checker breaks this)
        by_len: Dict[int, List[int]] = {}
        for k, (inst, lab, sol) in enumerate(cases):
            by_len.setdefault(len(sol), []).append(k)
        for L, idx in by_len.items():
            if len(idx) < 2 or L == 0:
                continue
            for _ in range(2):
                grp = ctx.rng.sample(idx, min(len(idx), ctx.rng.choice([2, 3, 4])))
                rej = [k for k in grp if not solo_verdicts[k]]
                if len(rej) > 1:  # at most one rejected row: the informative compositions
                    grp = [k for k in grp if solo_verdicts[k]] + rej[:1]
                    if len(grp) < 2:
                        continue
                ctx.rng.shuffle(grp)
                tdb = env.reset(ad.to_td([cases[k][0] for k in grp]))
                try:
                    env.check_solution_validity(tdb, torch.tensor([list(cases[k][2]) for k in grp], dtype=torch.long))
                    accb = True
                except Exception:
                    accb = False
                expect = all(solo_verdicts[k] for k in grp)
                ctx.case((ad.name, "batched-checker", tuple(repr(cases[k][0]) for k in grp),
                          tuple(tuple(cases[k][2]) for k in grp)))
                ctx.count(f"{ad.name}.checker-batch.{'all-accepted' if expect else 'one-rejected'}")
                if accb != expect:
                    rows = [(cases[k][0], cases[k][1], list(cases[k][2]), solo_verdicts[k]) for k in grp]
                    cause = ad.batch_checker_cause(ctx, rows, accb)
                    viol(ctx, f"{ad.name}:checker-batch-differs-from-rows" + (":" + cause if cause else ""),
                         "the checker's verdict on a batch is not the conjunction of its verdicts on the rows",
                         {"rows": [{"inst": i, "label": lab, "actions": a, "solo_accepts": v} for (i, lab, a, v) in rows],
                          "batch_accepts": accb, "cause": cause})
        done_eps += B
