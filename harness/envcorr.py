"""Generic correspondence routines for constructive environments.

An `Adapter` describes one environment family: how to build exact-stream instances, how to turn
them into the TensorDict the real env consumes, and how to phrase the same instance + action list
as a request line for the Lean driver.  The routines below implement the property-specific
comparisons once for all families.

Reply fields expected from the driver's `<fam>.episode` op:
  masks=<m0>,<m1>,..,<mT>   mask bit-strings in the states after 0..T actions
  done=<bits>               done flag in those states
  adm=<0|1>                 every action was admitted by the model's mask
  reward=<int>              model of `_get_reward` (ticks)
  check=<0|1>               model of `check_solution_validity` (if the env ships one)
  feas=<0|1>                Lean Spec: is the action list a feasible solution?
  obj=<int>                 Lean Spec objective (ticks)
  bound=<int>               (optional) step bound of the family for this instance
"""
from __future__ import annotations

import itertools
from typing import Any, Dict, List, Optional

import rl
from leanio import parse_fields
from rl import run_episode, torch


class Adapter:
    name = "?"
    has_checker = True
    reward_sign = -1  # reward = reward_sign * objective
    exact_reward = True

    def make_env(self, **kw):
        raise NotImplementedError

    def gen_instance(self, rng, n: int, kind: str = "random") -> dict:
        raise NotImplementedError

    def to_td(self, insts: List[dict]):
        raise NotImplementedError

    def line(self, op: str, inst: dict, actions: List[int]) -> str:
        raise NotImplementedError

    def real_reward_ticks(self, env, td, actions) -> List[int]:
        r = env._get_reward(td, actions)
        return [rl.ticks(v) for v in r.flatten().tolist()]

    def step_bound(self, inst: dict) -> Optional[int]:
        return None

    def variants(self) -> List[dict]:
        """Environment-level configurations (constructor / generator options) to exercise; each is passed
        to `make_env(**var)` and to `gen_instance(..., **var)`.  Default: only the default configuration."""
        return [{}]

    def env_for(self, var: dict):
        key = repr(sorted(var.items()))
        cache = self.__dict__.setdefault("_envs", {})
        if key not in cache:
            cache[key] = self.make_env(**var)
        return cache[key]

    def sizes(self, tier: str) -> List[int]:
        return [2, 3, 5, 8] if tier == "quick" else [1, 2, 3, 5, 8, 13, 20]

    def kinds(self) -> List[str]:
        return ["random", "boundary"]

    # candidate complete solutions for the C05 enumeration on tiny instances
    def enumerate_solutions(self, inst: dict):
        raise NotImplementedError


def uniform_chooser(rng):
    return lambda r, t, feas: rng.choice(feas)


def steer(ad: Adapter, ctx, insts: List[dict]):
    """Optional steering: an adapter may propose, per instance, a prefix of actions that drives the episode
    towards a constraint boundary (taken only where the real mask offers them)."""
    if not hasattr(ad, "steering_prefix"):
        return None
    return [ad.steering_prefix(ctx.rng, i) for i in insts]


def pick_env(ctx, ad: Adapter):
    """choose one environment-level configuration for the next batch"""
    var = ctx.rng.choice(ad.variants())
    if var:
        ctx.count(f"{ad.name}.variant=" + ",".join(f"{k}={v}" for k, v in sorted(var.items())))
    return ad.env_for(var), var


def make_batch(ad: Adapter, ctx, n: int, B: int, var: Optional[dict] = None) -> List[dict]:
    kinds = ad.kinds()
    var = var or {}
    return [ad.gen_instance(ctx.rng, n, ctx.rng.choice(kinds), **var) for _ in range(B)]


def compare_trace(ctx, ad: Adapter, inst: dict, actions: List[int], masks: List[str], done: List[int],
                  reply: str, what: str, trace: bool = True) -> Dict[str, str]:
    """Parse the driver's reply; with `trace=True` compare the mask/done trace of the model with the
    real one (only the properties whose theorems speak about masks do that)."""
    f = parse_fields(reply)
    if "masks" not in f:
        ctx.disagreement(f"{ad.name}: driver error", {"reply": reply, "inst": inst, "actions": actions})
        return f
    if not trace:
        return f
    m_model = f["masks"].split(",")
    d_model = [int(c) for c in f["done"]]
    if m_model != masks:
        k = next((k for k in range(min(len(masks), len(m_model))) if masks[k] != m_model[k]), -1)
        ctx.disagreement(
            f"{ad.name}: mask differs ({what})",
            {"inst": inst, "actions": actions, "step": k, "real": masks[k] if k >= 0 else masks,
             "model": m_model[k] if k >= 0 else m_model},
        )
    if d_model != done:
        ctx.disagreement(f"{ad.name}: done differs ({what})",
                         {"inst": inst, "actions": actions, "real": done, "model": d_model})
    if f.get("adm") != "1":
        ctx.disagreement(f"{ad.name}: model mask does not admit an action the real mask offered ({what})",
                         {"inst": inst, "actions": actions})
    # an environment REGENERATED from the source (harness/rowtrans.py) is run by the driver next to the model:
    # its trace is compared with the real one too (checks the translator independently of the hand-written model)
    if "genmasks" in f:
        ctx.count(f"{ad.name}.regenerated-env-traces-compared")
        g_masks = f["genmasks"].split(",")
        g_done = [int(c) for c in f.get("gendone", "")]
        if g_masks != masks or g_done != done or f.get("genadm") != "1":
            k = next((k for k in range(min(len(masks), len(g_masks))) if masks[k] != g_masks[k]), -1)
            ctx.disagreement(f"{ad.name}: regenerated env (rowtrans) differs from the real env ({what})",
                             {"inst": inst, "actions": actions, "step": k, "real": masks[k] if k >= 0 else [masks, done],
                              "regenerated": g_masks[k] if k >= 0 else [g_masks, g_done, f.get("genadm")]})
    return f


class EpisodeFailed(Exception):
    pass


def run_batch(ctx, ad: Adapter, env, insts: List[dict], extra_pad: int = 0, forced=None, nonterm_is_violation=False,
              strict_forced=True):
    """Drive the real env; an episode that does not finish within a generous cap raises
    `EpisodeFailed` (callers skip the case); it is a violation only for the termination property."""
    td0 = ad.to_td(insts)
    try:
        ep = run_episode(env, td0, uniform_chooser(ctx.rng), extra_pad=extra_pad, forced=forced, strict_forced=strict_forced,
                         max_steps=20 * (max(ad.n_of(i) for i in insts) + 2) + 50)
    except RuntimeError as e:
        if nonterm_is_violation:
            ctx.violation(f"{ad.name}:no-termination", f"real env: {e}", {"insts": insts, "forced": forced})
        else:
            ctx.count(f"{ad.name}.nonterminating-episode-skipped")
        raise EpisodeFailed(str(e))
    return td0, ep


# ------------------------------------------------------------------------------------------------
# C01 + the model tie: episodes through the real mask, model trace compared, Spec judged
# ------------------------------------------------------------------------------------------------
def check_feasibility(ctx, ad: Adapter, episodes_quick: int = 150, episodes_thorough: int = 3000):
    total = ctx.budget(episodes_quick, episodes_thorough)
    done_eps = 0
    while done_eps < total:
        env, var = pick_env(ctx, ad)
        n = ctx.rng.choice(ad.sizes(ctx.tier))
        B = ctx.rng.choice([1, 2, 4, 6])
        insts = make_batch(ad, ctx, n, B, var)
        try:
            td0, ep = run_batch(ctx, ad, env, insts, forced=steer(ad, ctx, insts), strict_forced=False)
        except EpisodeFailed:
            done_eps += B
            continue
        if ep.empty_mask_rows:
            ctx.violation(f"{ad.name}:dead-end", "all-False mask row while the batch is running",
                          {"inst": insts[ep.empty_mask_rows[0][0]], "actions": ep.actions[ep.empty_mask_rows[0][0]]})
        lines = [ad.line("episode", insts[r], ep.actions[r]) for r in range(B)]
        replies = ctx.driver.ask_many(lines)
        for r in range(B):
            f = compare_trace(ctx, ad, insts[r], ep.actions[r], ep.masks[r], ep.done[r], replies[r], "C01 stream")
            ctx.case((ad.name, repr(insts[r]), tuple(ep.actions[r])), nontrivial=len(ep.actions[r]) > 1)
            ctx.count(f"{ad.name}.n={n}")
            ctx.count(f"{ad.name}.kind={insts[r].get('kind')}")
            if f.get("feas") == "0" and not ep.empty_mask_rows:
                ctx.violation(f"{ad.name}:infeasible-episode",
                              "mask-confined episode of the real env is infeasible by the Lean Spec",
                              {"inst": insts[r], "actions": ep.actions[r], "lean_line": lines[r]})
            ctx.sample({"env": ad.name, "inst": insts[r], "actions": ep.actions[r], "spec_feasible": f.get("feas")})
        done_eps += B


# ------------------------------------------------------------------------------------------------
# C02: no dead ends, done is stable, step bound
# ------------------------------------------------------------------------------------------------
def check_termination(ctx, ad: Adapter, episodes_quick: int = 150, episodes_thorough: int = 3000):
    total = ctx.budget(episodes_quick, episodes_thorough)
    done_eps = 0
    while done_eps < total:
        env, var = pick_env(ctx, ad)
        n = ctx.rng.choice(ad.sizes(ctx.tier))
        B = ctx.rng.choice([1, 2, 3, 5, 8])
        insts = make_batch(ad, ctx, n, B, var)
        pad = ctx.rng.choice([0, 0, 1, 3])
        try:
            td0, ep = run_batch(ctx, ad, env, insts, extra_pad=pad, nonterm_is_violation=True)
        except EpisodeFailed:
            done_eps += B
            continue
        lines = [ad.line("episode", insts[r], ep.actions[r]) for r in range(B)]
        replies = ctx.driver.ask_many(lines)
        for r in range(B):
            f = compare_trace(ctx, ad, insts[r], ep.actions[r], ep.masks[r], ep.done[r], replies[r], "C02 stream")
            d = ep.done[r]
            ctx.case((ad.name, repr(insts[r]), tuple(ep.actions[r])))
            ctx.count(f"{ad.name}.n={n}")
            if any(d[k] == 1 and d[k + 1] == 0 for k in range(len(d) - 1)):
                ctx.violation(f"{ad.name}:done-unstable", "a finished row became unfinished again",
                              {"inst": insts[r], "actions": ep.actions[r], "done": d})
            first_done = d.index(1) if 1 in d else None
            bound = ad.step_bound(insts[r])
            if first_done is None:
                ctx.violation(f"{ad.name}:not-finished", "row not finished at the end of the batch episode",
                              {"inst": insts[r], "actions": ep.actions[r]})
            elif bound is not None and first_done > bound:
                ctx.violation(f"{ad.name}:step-bound", f"row needed {first_done} steps, bound is {bound}",
                              {"inst": insts[r], "actions": ep.actions[r]})
            if "bound" in f and bound is not None and int(f["bound"]) != bound:
                ctx.disagreement(f"{ad.name}: bound differs", {"model": f["bound"], "harness": bound})
            if first_done is not None and first_done < len(d) - 1:
                ctx.count(f"{ad.name}.padded-rows")
        for (r, t) in ep.empty_mask_rows:
            ctx.violation(f"{ad.name}:dead-end",
                          "a row is offered no action while the batch is still running",
                          {"inst": insts[r], "actions": ep.actions[r], "step": t,
                           "row_done": ep.done[r][t] if t < len(ep.done[r]) else None})
        ctx.sample({"env": ad.name, "n": n, "B": B, "steps": ep.steps,
                    "first_done": [d.index(1) if 1 in d else None for d in ep.done]})
        done_eps += B


# ------------------------------------------------------------------------------------------------
# C03: reward equals the objective
# ------------------------------------------------------------------------------------------------
def check_reward(ctx, ad: Adapter, episodes_quick: int = 150, episodes_thorough: int = 3000):
    total = ctx.budget(episodes_quick, episodes_thorough)
    done_eps = 0
    while done_eps < total:
        env, var = pick_env(ctx, ad)
        n = ctx.rng.choice(ad.sizes(ctx.tier))
        B = ctx.rng.choice([1, 2, 4])
        insts = make_batch(ad, ctx, n, B, var)
        try:
            td0, ep = run_batch(ctx, ad, env, insts)
        except EpisodeFailed:
            done_eps += B
            continue
        acts = rl.actions_tensor(ep)
        inexact = False
        try:
            real = ad.real_reward_ticks(env, ep.td, acts)
        except ValueError as e:
            # the real reward of an exact-stream instance is off the 2^-20 grid: judge it against the Spec
            # objective with a float tolerance instead of skipping it (a precision-losing rewrite of the
            # reward lands here)
            inexact = True
            ctx.count("inexact-reward-batches")
            real = [float(v) * rl.SCALE for v in env._get_reward(ep.td, acts).flatten().tolist()]
        # "from the original instance data and the executed action sequence alone": the same solution scored against a
        # FRESHLY RESET state of the instance (what search methods, dataset evaluation and baselines do) must get the
        # same reward as against the final state of the episode that produced it
        if not inexact:
            try:
                real_reset = ad.real_reward_ticks(env, env.reset(ad.to_td(insts)), acts)
            except Exception:  # noqa: BLE001  (envs whose reward needs the episode's own bookkeeping)
                real_reset = None
            if real_reset is not None and list(real_reset) != list(real):
                if getattr(ad, "reward_state_free", True):
                    r_bad = next(r for r in range(B) if real_reset[r] != real[r])
                    ctx.violation(f"{ad.name}:reward-depends-on-episode-state",
                                  "get_reward(reset state, actions) differs from get_reward(final state, actions): the reward is not a "
                                  "function of the instance data and the action sequence alone",
                                  {"inst": insts[r_bad], "actions": ep.actions[r_bad], "reward_final_state_ticks": real[r_bad],
                                   "reward_reset_state_ticks": real_reset[r_bad]})
                else:
                    ctx.count(f"{ad.name}.reward-differs-on-reset-state")
            elif real_reset is not None:
                ctx.count(f"{ad.name}.reward-same-on-reset-state")
        lines = [ad.line("episode", insts[r], ep.actions[r]) for r in range(B)]
        replies = ctx.driver.ask_many(lines)
        for r in range(B):
            f = compare_trace(ctx, ad, insts[r], ep.actions[r], ep.masks[r], ep.done[r], replies[r], "C03 stream", trace=False)
            ctx.case((ad.name, repr(insts[r]), tuple(ep.actions[r])), nontrivial=real[r] != 0)
            ctx.count(f"{ad.name}.n={n}")
            if inexact:
                ref = ad.reward_sign * int(f["obj"]) if "obj" in f else (int(f["reward"]) if "reward" in f else None)
                tol = max(4.0, abs(ref) * 2.0 ** -18) if ref is not None else None
                if ref is not None and abs(real[r] - ref) > tol:
                    ctx.violation(f"{ad.name}:reward-ne-objective",
                                  "reward of the real env (not exactly representable) differs from the Spec objective beyond float tolerance",
                                  {"inst": insts[r], "actions": ep.actions[r], "real_reward": real[r] / rl.SCALE,
                                   "spec_objective": int(f["obj"]) / rl.SCALE if "obj" in f else None, "lean_line": lines[r]})
                else:
                    ctx.count(f"{ad.name}.reward-inexact-but-within-tolerance")
                continue
            if "reward" in f and int(f["reward"]) != real[r]:
                ctx.disagreement(f"{ad.name}: reward differs",
                                 {"inst": insts[r], "actions": ep.actions[r], "real": real[r], "model": f["reward"]})
            if "obj" in f and ad.reward_sign * int(f["obj"]) != real[r]:
                ctx.violation(f"{ad.name}:reward-ne-objective",
                              "reward of the real env differs from the Spec objective",
                              {"inst": insts[r], "actions": ep.actions[r], "real_reward_ticks": real[r],
                               "spec_objective_ticks": int(f["obj"]), "lean_line": lines[r]})
            ctx.sample({"env": ad.name, "inst": insts[r], "actions": ep.actions[r], "reward_ticks": real[r],
                        "spec_obj": f.get("obj")})
        done_eps += B


# ------------------------------------------------------------------------------------------------
# C04: independence of batch-mates and of padding
# ------------------------------------------------------------------------------------------------
def check_batch_independence(ctx, ad: Adapter, groups_quick: int = 40, groups_thorough: int = 800):
    total = ctx.budget(groups_quick, groups_thorough)
    for g in range(total):
        env, var = pick_env(ctx, ad)
        n = ctx.rng.choice(ad.sizes(ctx.tier))
        B = ctx.rng.choice([2, 3, 5, 8])
        insts = make_batch(ad, ctx, n, B, var)
        if ctx.rng.random() < 0.4:  # copies of itself among the batch-mates
            insts[ctx.rng.randrange(B)] = insts[0]
        pad = ctx.rng.choice([0, 1, 2, 4])
        try:
            td0, ep = run_batch(ctx, ad, env, insts, extra_pad=pad)
        except EpisodeFailed:
            continue
        acts = rl.actions_tensor(ep)
        try:
            rew_b = ad.real_reward_ticks(env, ep.td, acts)
        except ValueError:
            rew_b = None
        # the model is per-instance: batched rows must equal the solo model run
        lines = [ad.line("episode", insts[r], ep.actions[r]) for r in range(B)]
        replies = ctx.driver.ask_many(lines)
        for r in range(B):
            compare_trace(ctx, ad, insts[r], ep.actions[r], ep.masks[r], ep.done[r], replies[r], "C04 batched row vs solo model")
        # real solo re-run of some rows with the same actions, stopping when the row itself finishes
        rows = list(range(B)) if ctx.tier == "thorough" else ctx.rng.sample(range(B), min(B, 3))
        for r in rows:
            d = ep.done[r]
            fin = d.index(1) if 1 in d else len(ep.actions[r])
            solo_actions = ep.actions[r][:fin]
            try:
                td1, ep1 = run_batch(ctx, ad, env, [insts[r]], forced=[solo_actions])
            except EpisodeFailed:
                continue
            ctx.case((ad.name, repr(insts[r]), tuple(ep.actions[r]), B, r), nontrivial=B > 1)
            ctx.count(f"{ad.name}.B={B}")
            if fin < len(ep.actions[r]):
                ctx.count(f"{ad.name}.rows-with-padding")
            if ep1.actions[0] != solo_actions:
                ctx.violation(f"{ad.name}:batch-dependence:finish-step",
                              "solo run does not finish at the same step as inside the batch",
                              {"inst": insts[r], "batched_actions": ep.actions[r], "solo_actions": ep1.actions[0],
                               "batch": insts, "row": r})
                continue
            if ep1.masks[0] != ep.masks[r][: fin + 1]:
                ctx.violation(f"{ad.name}:batch-dependence:mask", "masks differ between solo and batched run",
                              {"inst": insts[r], "actions": solo_actions, "solo": ep1.masks[0],
                               "batched": ep.masks[r][: fin + 1], "batch": insts, "row": r})
            if rew_b is not None:
                try:
                    rew_s = ad.real_reward_ticks(env, ep1.td, rl.actions_tensor(ep1))[0]
                except ValueError:
                    rew_s = None
                if rew_s is not None and rew_s != rew_b[r]:
                    ctx.violation(f"{ad.name}:batch-dependence:reward",
                                  "reward differs between the solo run and the batched (padded) run",
                                  {"inst": insts[r], "batched_actions": ep.actions[r], "solo_actions": solo_actions,
                                   "solo_reward_ticks": rew_s, "batched_reward_ticks": rew_b[r], "row": r, "B": B})
        ctx.sample({"env": ad.name, "n": n, "B": B, "pad": pad, "steps": ep.steps})


# ------------------------------------------------------------------------------------------------
# C05: the mask hides no feasible solution (tiny instances, exhaustive)
# ------------------------------------------------------------------------------------------------
def check_completeness(ctx, ad: Adapter, insts_quick: int = 20, insts_thorough: int = 200, nmax_quick=4, nmax_thorough=5):
    total = ctx.budget(insts_quick, insts_thorough)
    nmax = ctx.budget(nmax_quick, nmax_thorough)
    for g in range(total):
        env, var = pick_env(ctx, ad)
        n = ctx.rng.randint(1, nmax)
        inst = ad.gen_instance(ctx.rng, n, ctx.rng.choice(ad.kinds()), **var)
        cands = list(ad.enumerate_solutions(inst))
        lines = [ad.line("episode", inst, c) for c in cands]
        replies = ctx.driver.ask_many(lines)
        feas = []
        for c, rep in zip(cands, replies):
            f = parse_fields(rep)
            if f.get("feas") == "1":
                feas.append((c, f))
        ctx.count(f"{ad.name}.candidates", len(cands))
        ctx.count(f"{ad.name}.feasible", len(feas))
        if not feas:
            ctx.count(f"{ad.name}.no-feasible-solution")
            continue
        # every Spec-feasible canonical solution must be admitted step by step by the REAL mask
        best_obj = None
        CH = 64
        for k in range(0, len(feas), CH):
            chunk = feas[k : k + CH]
            L = max(len(c) for c, _ in chunk)
            td0 = ad.to_td([inst] * len(chunk))
            td = env.reset(td0)
            alive = [True] * len(chunk)
            for t in range(L):
                mask = td["action_mask"]
                acts = []
                for r, (c, f) in enumerate(chunk):
                    if t < len(c):
                        a = c[t]
                        if alive[r] and not bool(mask[r, a]):
                            alive[r] = False
                            ctx.violation(f"{ad.name}:mask-hides-feasible",
                                          "a feasible solution (Lean Spec) is not offered by the real mask",
                                          {"inst": inst, "solution": c, "blocked_at_step": t, "mask": rl.mask_str(mask[r])})
                            if f.get("adm") == "1":
                                ctx.disagreement(f"{ad.name}: model admits, real mask blocks", {"inst": inst, "solution": c, "step": t})
                        acts.append(a if bool(mask[r, a]) else [j for j, b in enumerate(mask[r].tolist()) if b][0])
                    else:
                        acts.append([j for j, b in enumerate(mask[r].tolist()) if b][0])
                td.set("action", torch.tensor(acts, dtype=torch.long))
                td = env.step(td)["next"]
            done = td["done"].reshape(len(chunk)).tolist()
            for r, (c, f) in enumerate(chunk):
                ctx.case((ad.name, repr(inst), tuple(c)))
                if alive[r] and not done[r]:
                    ctx.violation(f"{ad.name}:feasible-not-done", "feasible complete solution not recognised as finished",
                                  {"inst": inst, "solution": c})
                if alive[r] and f.get("adm") != "1":
                    ctx.disagreement(f"{ad.name}: real mask admits a feasible solution, model does not",
                                     {"inst": inst, "solution": c})
                o = int(f["obj"])
                best_obj = o if best_obj is None else (min(best_obj, o) if ad.reward_sign < 0 else max(best_obj, o))
        ctx.sample({"env": ad.name, "inst": inst, "n_candidates": len(cands), "n_feasible": len(feas),
                    "best_objective_ticks": best_obj, "example": feas[0][0]})


# ------------------------------------------------------------------------------------------------
# C06: the checker agrees with the definition
# ------------------------------------------------------------------------------------------------
def corruptions(ad: Adapter, rng, inst: dict, sol: List[int]) -> List[tuple]:
    """single-fault corruptions of a feasible solution: (label, actions)"""
    out = []
    n = ad.n_of(inst)
    custs = [k for k, a in enumerate(sol) if a != 0]
    if custs:
        k = rng.choice(custs)
        out.append(("drop", sol[:k] + sol[k + 1 :] + [0]))  # same length, a customer missing
        k2 = rng.choice(custs)
        dup = list(sol)
        dup[k2] = sol[rng.choice(custs)]
        out.append(("dup", dup))
        out.append(("dup-extra", sol + [sol[k]]))
    zeros = [k for k, a in enumerate(sol) if a == 0 and 0 < k < len(sol) - 1]
    if zeros:
        k = rng.choice(zeros)
        out.append(("merge-routes", sol[:k] + sol[k + 1 :] + [0]))
    if len(custs) >= 2:
        a, b = rng.sample(custs, 2)
        sw = list(sol)
        sw[a], sw[b] = sw[b], sw[a]
        out.append(("swap", sw))
    out.append(("out-of-range", sol[:-1] + [n + 1]) if sol else ("empty", []))
    return out


def check_checker(ctx, ad: Adapter, episodes_quick: int = 100, episodes_thorough: int = 2000):
    total = ctx.budget(episodes_quick, episodes_thorough)
    done_eps = 0
    while done_eps < total:
        env, var = pick_env(ctx, ad)
        n = ctx.rng.choice(ad.sizes(ctx.tier))
        B = ctx.rng.choice([1, 2, 4])
        insts = make_batch(ad, ctx, n, B, var)
        try:
            td0, ep = run_batch(ctx, ad, env, insts, extra_pad=ctx.rng.choice([0, 0, 2]))
        except EpisodeFailed:
            done_eps += B
            continue
        cases = []  # (inst, label, actions)
        for r in range(B):
            cases.append((insts[r], "mask-generated", ep.actions[r]))
            for lab, sol in ad.handbuilt(ctx.rng, insts[r]):
                cases.append((insts[r], lab, sol))
            for lab, sol in corruptions(ad, ctx.rng, insts[r], ep.actions[r]):
                cases.append((insts[r], lab, sol))
        lines = [ad.line("check", i, s) for (i, lab, s) in cases]
        replies = ctx.driver.ask_many(lines)
        solo_verdicts = []
        for (inst, lab, sol), rep in zip(cases, replies):
            f = parse_fields(rep)
            td1 = env.reset(ad.to_td([inst]))
            try:
                acc = rl.checker_accepts(env, td1, torch.tensor([sol], dtype=torch.long))
            except Exception as e:  # pragma: no cover
                acc = False
            ctx.case((ad.name, repr(inst), lab, tuple(sol)), nontrivial=True)
            ctx.count(f"{ad.name}.{lab}.{'feasible' if f.get('feas') == '1' else 'infeasible'}")
            if f.get("check") is not None and (f["check"] == "1") != acc:
                ctx.disagreement(f"{ad.name}: checker model differs from real checker",
                                 {"inst": inst, "label": lab, "actions": sol, "real_accepts": acc, "model": f["check"]})
            margin_ok = f.get("near", "0") == "0"  # `near=1`: infeasible only within the rounding tolerance
            if f.get("feas") == "1" and not acc:
                ctx.violation(f"{ad.name}:checker-rejects-feasible",
                              "the real checker raises for a solution that is feasible by the Lean Spec",
                              {"inst": inst, "label": lab, "actions": sol})
            if f.get("feas") == "0" and acc and margin_ok:
                ctx.violation(f"{ad.name}:checker-accepts-infeasible",
                              "the real checker accepts a solution that is infeasible by the Lean Spec",
                              {"inst": inst, "label": lab, "actions": sol})
            ctx.sample({"env": ad.name, "label": lab, "inst": inst, "actions": sol,
                        "real_checker_accepts": acc, "spec_feasible": f.get("feas")}, cap=4)
            solo_verdicts.append(acc)
        # the checker is called on whole batches by `get_reward`: a batch must be accepted iff every one of
        # its rows is accepted on its own (a batch-global shortcut inside the checker breaks this)
        by_len: Dict[int, List[int]] = {}
        for k, (inst, lab, sol) in enumerate(cases):
            by_len.setdefault(len(sol), []).append(k)
        for L, idx in by_len.items():
            if len(idx) < 2 or L == 0:
                continue
            for _ in range(2):
                grp = ctx.rng.sample(idx, min(len(idx), ctx.rng.choice([2, 3, 4])))
                # prefer compositions with at most one rejected row (the informative ones)
                rej = [k for k in grp if not solo_verdicts[k]]
                if len(rej) > 1:
                    grp = [k for k in grp if solo_verdicts[k]] + rej[:1]
                    if len(grp) < 2:
                        continue
                ctx.rng.shuffle(grp)
                tdb = env.reset(ad.to_td([cases[k][0] for k in grp]))
                accb = rl.checker_accepts(env, tdb, torch.tensor([cases[k][2] for k in grp], dtype=torch.long))
                expect = all(solo_verdicts[k] for k in grp)
                ctx.count(f"{ad.name}.checker-batch.{'all-accepted' if expect else 'one-rejected'}")
                if accb != expect:
                    ctx.violation(f"{ad.name}:checker-batch-differs-from-rows",
                                  "the checker's verdict on a batch is not the conjunction of its verdicts on the rows",
                                  {"rows": [{"inst": cases[k][0], "label": cases[k][1], "actions": cases[k][2],
                                             "solo_accepts": solo_verdicts[k]} for k in grp], "batch_accepts": accb})
        done_eps += B
