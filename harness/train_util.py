"""Helpers of the training family (units/train.py): exact rational encoding of tensors for the `train.*`
driver ops, directional derivatives through autograd, tiny real policies."""
from __future__ import annotations

from fractions import Fraction
from typing import List, Optional, Sequence

import rl  # noqa: F401  (sets up sys.path / torch threads)
from rl import torch


# ---- exact rationals ---------------------------------------------------------------------------
def fr(x) -> Fraction:
    """Exact value of a float / 0-dim tensor (every IEEE float is a dyadic rational)."""
    if isinstance(x, Fraction):
        return x
    if isinstance(x, int):
        return Fraction(x)
    return Fraction(float(x))


def fs(q) -> str:
    q = fr(q)
    return str(q.numerator) if q.denominator == 1 else f"{q.numerator}/{q.denominator}"


def pf(s: str) -> Fraction:
    return Fraction(s)


def pdual(s: str):
    v, d = s.split(";")
    return Fraction(v), Fraction(d)


def plist(s: str) -> List[Fraction]:
    return [Fraction(t) for t in s.split(",") if t != ""]


def pten(s: str):
    """`[n,k]:v,..:d,..` → (shape list, values, derivs)"""
    parts = s.split(":")
    shape = [int(t) for t in parts[0].strip("[]").split(",") if t != ""]
    vals = plist(parts[1]) if len(parts) > 1 else []
    ds = plist(parts[2]) if len(parts) > 2 else []
    return shape, vals, ds


def ten_tokens(vals, dvals: Optional[Sequence] = None, dual: bool = True) -> str:
    """Token string of a tensor of rank ≤ 2 (or a Python number) for the driver; `dvals` are the
    directional derivatives of the entries in flat order (default 0)."""
    if not torch.is_tensor(vals):
        vals = torch.tensor(float(vals), dtype=torch.float64)
    shape = list(vals.shape)
    flat = [fr(v) for v in vals.detach().reshape(-1).tolist()]
    if dvals is None:
        dvals = [0] * len(flat)
    dflat = [fr(d) for d in dvals]
    assert len(dflat) == len(flat)
    if dual:
        ent = " ".join(f"{fs(v)} {fs(d)}" for v, d in zip(flat, dflat))
    else:
        ent = " ".join(fs(v) for v in flat)
    if len(shape) == 0:
        return f"s {ent}"
    if len(shape) == 1:
        return f"v {shape[0]} {ent}"
    if len(shape) == 2:
        return f"m {shape[0]} {shape[1]} {ent}"
    raise ValueError(f"rank {len(shape)} tensor not representable: {shape}")


def close(a, b, rtol: float, atol: float = 0.0) -> bool:
    a, b = float(a), float(b)
    if a != a or b != b:
        return False
    return abs(a - b) <= atol + rtol * max(abs(a), abs(b), 1.0)


# ---- autograd: directional derivative θ·grad along a fixed random direction ------------------------
class Direction:
    """A fixed random direction `v` in the space of the given parameters; `dd(x)` is Σ ∂x/∂θ · v computed
    by reverse-mode autograd (never by finite differences)."""

    def __init__(self, params, gen: torch.Generator):
        self.params = [p for p in params if p.requires_grad]
        self.v = [torch.randn(p.shape, generator=gen, dtype=torch.float64) for p in self.params]

    def dd(self, scalar) -> float:
        if not torch.is_tensor(scalar) or not scalar.requires_grad:
            return 0.0
        g = torch.autograd.grad(scalar, self.params, retain_graph=True, allow_unused=True)
        tot = 0.0
        for gi, vi in zip(g, self.v):
            if gi is not None:
                tot += float((gi.double() * vi).sum())
        return tot

    def dd_each(self, tensor) -> List[float]:
        if not torch.is_tensor(tensor):
            return [0.0]
        flat = tensor.reshape(-1)
        if not tensor.requires_grad:
            return [0.0] * flat.numel()
        return [self.dd(flat[i]) for i in range(flat.numel())]

    def sgd_step(self, loss, lr: float) -> None:
        """θ ← θ − lr·∇loss (plain SGD so that successive steps see a changed policy)."""
        g = torch.autograd.grad(loss, self.params, retain_graph=False, allow_unused=True)
        with torch.no_grad():
            for p, gi in zip(self.params, g):
                if gi is not None:
                    p -= lr * gi


class Capture:
    """Records (args, kwargs, output) of every call of `module.forward` (the real forward runs)."""

    def __init__(self, module):
        self.module = module
        self.calls = []
        self._orig = module.forward

        def fwd(*a, **k):
            out = self._orig(*a, **k)
            self.calls.append((a, k, out))
            return out

        module.forward = fwd

    def clear(self):
        self.calls = []

    def remove(self):
        try:
            del self.module.forward
        except AttributeError:
            pass


# ---- tiny real policies ----------------------------------------------------------------------------
def tiny_policy(kind: str = "am", env_name: str = "tsp", double: bool = True):
    kw = dict(env_name=env_name, embed_dim=16, num_encoder_layers=1, num_heads=2, feedforward_hidden=16)
    if kind == "symnco":
        from rl4co.models.zoo.symnco import SymNCOPolicy

        p = SymNCOPolicy(**kw)
    else:
        from rl4co.models.zoo.am import AttentionModelPolicy

        p = AttentionModelPolicy(**kw)
    return p.double() if double else p


def gen_batch(env, B: int, double: bool = True):
    td = env.generator(batch_size=[B])
    if double:
        for k in list(td.keys()):
            if td[k].dtype == torch.float32:
                td[k] = td[k].double()
    return td
