"""Exact-stream geometry: point sets on the 2^-10 grid whose pairwise Euclidean distances are all
integral multiples of 2^-10, so that float32 `norm`/`cdist` results are exact and the Lean model
(integers in 2^-20 ticks) can be compared bit-for-bit with the real code, and constraints can be met
with *equality*.

Families:
  line   collinear points on a horizontal or vertical line (any integer abscissae, duplicates allowed)
  cross  subsets of {(±5,0),(±9,0),(±16,0),(±35,0),(0,±12)}·c  (Pythagorean legs 5-12-13, 9-12-15,
         16-12-20, 35-12-37), translated into the unit square, duplicates allowed
"""
from __future__ import annotations

import math
from typing import List, Tuple

GRID_BITS = 10
GRID = 1 << GRID_BITS
TICKS_PER_GRID = 1 << (20 - GRID_BITS)

CROSS = [(5, 0), (-5, 0), (9, 0), (-9, 0), (16, 0), (-16, 0), (35, 0), (-35, 0), (0, 12), (0, -12), (0, 0)]


def isqrt_exact(v: int) -> int:
    r = math.isqrt(v)
    if r * r != v:
        raise ValueError("non-integral distance")
    return r


def dist_matrix(pts: List[Tuple[int, int]]) -> List[List[int]]:
    """Exact integer distance matrix in grid units (raises if some distance is not integral)."""
    n = len(pts)
    return [
        [isqrt_exact((pts[a][0] - pts[b][0]) ** 2 + (pts[a][1] - pts[b][1]) ** 2) for b in range(n)]
        for a in range(n)
    ]


def gen_points(rng, m: int, family: str = None) -> List[Tuple[int, int]]:
    """m points on the 2^-10 grid inside [0,1]^2 with integral pairwise distances."""
    fam = family or rng.choice(["line", "cross", "cross", "line"])
    if fam == "line":
        horiz = rng.random() < 0.5
        fixed = rng.randrange(0, GRID + 1)
        span = rng.choice([16, 64, 256, GRID])
        lo = rng.randrange(0, GRID - span + 1)
        xs = [rng.randrange(lo, lo + span + 1) for _ in range(m)]
        if rng.random() < 0.3 and m >= 2:  # duplicate a point
            xs[rng.randrange(m)] = xs[rng.randrange(m)]
        return [(x, fixed) if horiz else (fixed, x) for x in xs]
    else:
        c = rng.choice([1, 2, 3, 5, 8, 12])
        cx = rng.randrange(35 * c, GRID - 35 * c + 1)
        cy = rng.randrange(12 * c, GRID - 12 * c + 1)
        base = [(cx + c * x, cy + c * y) for (x, y) in CROSS]
        if m <= len(base) and rng.random() < 0.7:
            return rng.sample(base, m)
        return [rng.choice(base) for _ in range(m)]


def to_unit(pts: List[Tuple[int, int]]) -> List[List[float]]:
    return [[x / GRID, y / GRID] for (x, y) in pts]


def D_ticks(pts: List[Tuple[int, int]]) -> List[List[int]]:
    """distance matrix in 2^-20 ticks"""
    return [[d * TICKS_PER_GRID for d in row] for row in dist_matrix(pts)]
