"""Draw injection for the generator correspondence (C18): while a `Tape` is active, torch's random sources
used by rl4co's generators (`torch.rand`, `torch.rand_like`, `torch.randint`, `Tensor.uniform_`,
`torch.multinomial`, `torch.normal`, `Tensor.normal_`) are served with values chosen by the harness' own PRNG and logged, so that the Lean
model of the generator's post-processing can be evaluated on exactly the same raw draws.

Uniform draws are dyadic `k / 2^bits` (few bits → every float32 product the generators form with them is
exact); integer draws favour the interval ends.  Nothing outside the `with` block is touched."""
from __future__ import annotations

import math
from typing import List, Optional

from rl import torch


def _shape_of(args, kwargs):
    if "size" in kwargs:
        s = kwargs["size"]
    elif len(args) == 1 and isinstance(args[0], (tuple, list, torch.Size)):
        s = args[0]
    else:
        s = args
    return tuple(int(x) for x in s)


class Tape:
    def __init__(self, rng, bits: int = 6, boundary: float = 0.25, distinct_rows: bool = False):
        self.rng = rng
        self.bits = bits
        self.q = 1 << bits
        self.boundary = boundary
        self.distinct_rows = distinct_rows  # make the last dimension of every `rand`/`rand_like` duplicate-free (argsort)
        self.log: List[dict] = []
        self._saved = {}
        self.int_plan: Optional[dict] = None  # optional overrides: index of randint call → callable(lo, hi, n) → values
        # standard-normal draws (`torch.normal`, `Tensor.normal_`): steered into the tails — a fraction `tail` of the draws is
        # ±6, ±12 or ±40 standard deviations, the rest a coarse grid in [−3, 3]
        self.tail = 0.2

    # ---- value sources ---------------------------------------------------------------------------
    def _unif_ints(self, n: int, last: int = 1) -> List[int]:
        q = self.q
        out = []
        if self.distinct_rows and last > 1:
            assert last <= q, "not enough dyadic values for a duplicate-free row"
            for _ in range(n // last):
                out += self.rng.sample(range(q), last)
            return out
        for _ in range(n):
            r = self.rng.random()
            if r < self.boundary / 2:
                out.append(0)
            elif r < self.boundary:
                out.append(q - 1)
            else:
                out.append(self.rng.randrange(q))
        return out

    def _rand(self, shape, dtype=torch.float32, kind="rand"):
        n = int(math.prod(shape)) if len(shape) else 1
        ks = self._unif_ints(n, shape[-1] if len(shape) else 1)
        self.log.append({"kind": kind, "shape": tuple(shape), "k": ks, "q": self.q})
        t = torch.tensor(ks, dtype=torch.float64).reshape(shape) / self.q
        return t.to(dtype if dtype is not None else torch.float32)

    # ---- patched functions -----------------------------------------------------------------------
    def _fake_rand(self, *args, **kwargs):
        shape = _shape_of(args, {k: v for k, v in kwargs.items() if k == "size"})
        return self._rand(shape, kwargs.get("dtype", torch.float32))

    def _fake_rand_like(self, t, **kwargs):
        return self._rand(tuple(t.shape), t.dtype if t.dtype.is_floating_point else torch.float32, kind="rand_like")

    def _fake_uniform_(self, t, a=0.0, b=1.0, **kwargs):
        u = self._rand(tuple(t.shape), torch.float32, kind="uniform_")
        self.log[-1]["lo"], self.log[-1]["hi"] = a, b
        val = a + u * (b - a)
        t.resize_(val.shape) if t.shape != val.shape else None
        t.copy_(val)
        return t

    def _fake_randint(self, *args, **kwargs):
        args = list(args)
        low = kwargs.pop("low", None)
        high = kwargs.pop("high", None)
        size = kwargs.pop("size", None)
        nums = []
        while args and isinstance(args[0], int) and not isinstance(args[0], bool):
            nums.append(args.pop(0))
        if size is None:
            size = args.pop(0)
        if low is None and high is None:
            if len(nums) == 1:
                low, high = 0, nums[0]
            else:
                low, high = nums[0], nums[1]
        elif high is None:
            high = nums[0] if nums else None
        elif low is None:
            low = nums[0] if nums else 0
        shape = tuple(int(x) for x in size)
        n = int(math.prod(shape)) if len(shape) else 1
        if high <= low:
            raise RuntimeError(f"random_ expects 'from' to be less than 'to', but got from={low} >= to={high}")
        idx = sum(1 for e in self.log if e["kind"] == "randint")
        if self.int_plan and idx in self.int_plan:
            vals = list(self.int_plan[idx](low, high, n))
        elif high - low > (1 << 40):
            # raw 63-bit draws (FJSP): small values, float32-exact large ones
            pool = [0, 1, 2, 3, 5, 7, 11, 2**20 + 3, 2**24 - 1, 2**24, 2**30, 2**40, 2**62]
            vals = [self.rng.choice(pool) if self.rng.random() < 0.3 else self.rng.randrange(0, 1 << 16) for _ in range(n)]
        else:
            vals = []
            for _ in range(n):
                r = self.rng.random()
                if r < self.boundary / 2:
                    vals.append(low)
                elif r < self.boundary:
                    vals.append(high - 1)
                else:
                    vals.append(self.rng.randrange(low, high))
        self.log.append({"kind": "randint", "shape": shape, "v": vals, "lo": low, "hi": high})
        return torch.tensor(vals, dtype=kwargs.get("dtype", torch.int64)).reshape(shape)

    def _z(self, shape):
        n = int(math.prod(shape)) if len(shape) else 1
        zs = []
        for _ in range(n):
            if self.rng.random() < self.tail:
                zs.append(self.rng.choice([-40.0, -12.0, -6.0, 6.0, 12.0, 40.0]))
            else:
                zs.append(self.rng.randrange(-12, 13) / 4.0)
        self.log.append({"kind": "normal", "shape": tuple(shape), "z": zs})
        return torch.tensor(zs, dtype=torch.float32).reshape(shape)

    def _fake_normal(self, mean, std=1.0, *args, **kwargs):
        if not torch.is_tensor(mean) and not torch.is_tensor(std):
            size = kwargs.get("size", args[0] if args else ())
            return float(mean) + float(std) * self._z(tuple(size))
        shape = torch.broadcast_shapes(tuple(mean.shape) if torch.is_tensor(mean) else (), tuple(std.shape) if torch.is_tensor(std) else ())
        return mean + std * self._z(tuple(shape))

    def _fake_normal_(self, t, mean=0.0, std=1.0, **kwargs):
        t.copy_(mean + std * self._z(tuple(t.shape)))
        return t

    def _fake_multinomial(self, input=None, num_samples=1, replacement=False, **kwargs):
        probs = input
        rows = probs.reshape(-1, probs.shape[-1])
        out = []
        for r in rows.tolist():
            supp = [k for k, w in enumerate(r) if w > 0]
            out.append([self.rng.choice(supp) for _ in range(num_samples)])
        self.log.append({"kind": "multinomial", "shape": tuple(probs.shape), "v": [x for o in out for x in o],
                         "probs": rows.tolist()})
        t = torch.tensor(out, dtype=torch.int64)
        return t.reshape(*probs.shape[:-1], num_samples)

    def __enter__(self):
        self._saved = {"rand": torch.rand, "rand_like": torch.rand_like, "randint": torch.randint,
                       "uniform_": torch.Tensor.uniform_, "multinomial": torch.multinomial,
                       "normal": torch.normal, "normal_": torch.Tensor.normal_}
        torch.normal = self._fake_normal
        torch.Tensor.normal_ = lambda t, mean=0.0, std=1.0, **kw: self._fake_normal_(t, mean, std, **kw)
        torch.rand = self._fake_rand
        torch.rand_like = self._fake_rand_like
        torch.randint = self._fake_randint
        torch.Tensor.uniform_ = lambda t, a=0.0, b=1.0, **kw: self._fake_uniform_(t, a, b, **kw)
        torch.multinomial = self._fake_multinomial
        return self

    def __exit__(self, *a):
        torch.rand = self._saved["rand"]
        torch.rand_like = self._saved["rand_like"]
        torch.randint = self._saved["randint"]
        torch.Tensor.uniform_ = self._saved["uniform_"]
        torch.multinomial = self._saved["multinomial"]
        torch.normal = self._saved["normal"]
        torch.Tensor.normal_ = self._saved["normal_"]
        return False

    # ---- reading the log -------------------------------------------------------------------------
    def take(self, kind: str, pos: int = 0) -> dict:
        """the pos-th logged call of `kind` (in call order)"""
        es = [e for e in self.log if e["kind"] == kind]
        return es[pos]

    def seq(self) -> List[str]:
        return [e["kind"] for e in self.log]
