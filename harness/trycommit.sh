#!/bin/bash
# Coordinator helper: commit /verif only when the whole lake project builds and every registered
# check passes on the unchanged tree.   usage: harness/trycommit.sh "message" [--skip-checks]
cd "$(dirname "$0")/.." || exit 2
MSG="${1:-wip}"
( cd lean && flock .build.lock lake build 2>&1 | grep -E "^✖|error:" | head -20 ) > /tmp/coord/build.err
if [ -s /tmp/coord/build.err ]; then echo "BUILD BROKEN:"; cat /tmp/coord/build.err; exit 1; fi
/venv/bin/python harness/mkmanifest.py || exit 1
python3-vt - <<'EOF' || exit 1
import json, jsonschema
jsonschema.validate(json.load(open('MANIFEST.json')), json.load(open('/root/.vp/MANIFEST.schema.json')))
EOF
if [ "$2" != "--skip-checks" ]; then
  FAIL=0
  for p in $(python3 -c "import json; print(' '.join(c['property_id'] for c in json.load(open('MANIFEST.json'))['checks']))"); do
    OUT=$(./check "$p" quick 2>&1); RC=$?
    echo "$OUT" | tail -1
    if [ $RC -ne 0 ]; then FAIL=1; echo "$OUT" | grep -E "VIOLATION|broken tie|TIMEOUT" | head -5; fi
  done
  if [ $FAIL -ne 0 ]; then echo "CHECKS FAILING - not committing"; exit 1; fi
  python3-vt - <<'EOF' || exit 1
import json, jsonschema, glob
S = json.load(open('/root/.vp/EVIDENCE.schema.json'))
for c in json.load(open('MANIFEST.json'))['checks']:
    jsonschema.validate(json.load(open(c['evidence_file'])), S)
print("evidence ok")
EOF
fi
git add -A && git commit -qm "$MSG" && echo "COMMITTED: $MSG"
