#!/venv/bin/python
"""vcheck — decide one property of rl4co on /repo's current working tree.

  vcheck.py <Cxx> [--tier quick|thorough] [--seed N] [--replay PATH] [--only unit[,unit]]

Procedure (DESIGN §4.1):
  1. regenerate lean/Rl4co/Generated/Params.lean from the current sources (extract.py)
  2. lake build the property's Lean modules + the model driver
  3. hygiene grep (no sorry/admit/axiom/native_decide/…) and `#print axioms` audit of every theorem
  4. run every unit of the property: correspondence model↔real code + Lean Spec oracle on real outcomes
  5. known findings are replayed and reported as KNOWN-FINDING lines
  6. if a tie (build, audit, correspondence) is broken: search the real code for a failing input;
     VIOLATION with the witness, or VIOLATION … no-failing-input-found
Exit 0: property held on everything explored; 1: violation; 2: infrastructure problem / timeout.
"""
from __future__ import annotations

import argparse
import importlib
import json
import multiprocessing as mp
import os
import sys
import time
import traceback

HERE = os.path.dirname(os.path.abspath(__file__))
sys.path.insert(0, HERE)

import common  # noqa: E402
import extract  # noqa: E402
import leanio  # noqa: E402
from common import Ctx, Unit  # noqa: E402

TRUSTED_BASE = [
    "Lean 4.33 kernel; axioms limited to propext, Classical.choice, Quot.sound (audited per theorem each run)",
    "hand-written Lean models (lean/Rl4co/Env, Decode, Train) and independent specs (lean/Rl4co/Spec)",
    "harness/extract.py (AST → Generated/Params.lean) and the correspondence harness with its generators",
    "float32 rounding, torch/tensordict tensor semantics and coordinate→distance arithmetic are modelled-not-verified glue",
]


def load_units():
    udir = os.path.join(HERE, "units")
    for fn in sorted(os.listdir(udir)):
        if fn.endswith(".py") and not fn.startswith("_"):
            importlib.import_module(f"units.{fn[:-3]}")
    return common.all_units()


def _run_unit(args):
    prop, name, tier, seed, searching = args
    units = [u for u in common.all_units() if u.prop == prop and u.name == name]
    u = units[0]
    ctx = Ctx(prop, name, tier, seed, searching=searching)
    try:
        fn = u.search if (searching and u.search is not None) else u.run
        fn(ctx)
        res = ctx.result()
        res["error"] = None
    except Exception as e:
        res = ctx.result()
        res["error"] = "".join(traceback.format_exception(type(e), e, e.__traceback__))[-4000:]
    finally:
        ctx.close()
    return res


def run_units(units, tier, seed, searching=False, deadline=None):
    jobs = [(u.prop, u.name, tier, seed, searching) for u in units]
    if not jobs:
        return []
    nproc = max(1, min(len(jobs), int(os.environ.get("VERIF_JOBS", "8"))))
    if os.environ.get("VERIF_INLINE"):
        return [_run_unit(j) for j in jobs]
    ctxmp = mp.get_context("fork")
    with ctxmp.Pool(nproc) as pool:
        asyncs = [pool.apply_async(_run_unit, (j,)) for j in jobs]
        out = []
        for j, a in zip(jobs, asyncs):
            left = None if deadline is None else max(1.0, deadline - time.time())
            try:
                out.append(a.get(timeout=left))
            except mp.TimeoutError:
                out.append({"unit": j[1], "prop": j[0], "error": "TIMEOUT", "counts": {}, "samples": [],
                            "disagreements": [], "violations": [], "notes": [], "evaluations": 0, "distinct": 0,
                            "wall_s": 0, "timeout": True})
        return out


def match_known(v: dict, findings) -> dict | None:
    for f in findings:
        if f.get("status", "known") != "known":
            continue
        m = f.get("match", {})
        if m.get("unit") == v["unit"] and v["key"].startswith(m.get("key", "\0")):
            return f
    return None


SCRATCH = {"on": False}


def write_replay(prop: str, tag: str, payload: dict) -> str:
    # scratch runs (--only / RL4CO_REPO / VERIF_SCRATCH) must not clobber the replays of registered runs
    rdir = os.path.join("/tmp", f"verif-scratch-replays-{os.getuid()}-{os.getpid()}") if SCRATCH["on"] else common.REPLAY_DIR
    os.makedirs(rdir, exist_ok=True)
    path = os.path.join(rdir, f"{prop}_{tag}.json")
    common.jdump(payload, path)
    return os.path.relpath(path, common.VERIF) if not SCRATCH["on"] else path


def main(argv=None) -> int:
    ap = argparse.ArgumentParser()
    ap.add_argument("prop")
    ap.add_argument("--tier", default=os.environ.get("VERIF_TIER", "quick"))
    ap.add_argument("--seed", type=int, default=int(os.environ.get("VERIF_SEED", "0")))
    ap.add_argument("--replay", default=None)
    ap.add_argument("--only", default=None)
    a = ap.parse_args(argv)
    prop, tier, seed = a.prop, a.tier, a.seed
    SCRATCH["on"] = bool(a.only) or bool(os.environ.get("RL4CO_REPO")) or bool(os.environ.get("VERIF_SCRATCH"))
    if SCRATCH["on"]:
        os.environ["VERIF_SCRATCH_RUN"] = "1"
    t0 = time.time()
    budget_s = float(os.environ.get("VERIF_TIMEOUT_S", "1500" if tier == "quick" else "10000"))
    deadline = t0 + budget_s

    units = [u for u in load_units() if u.prop == prop]
    if a.only:
        keep = set(a.only.split(","))
        units = [u for u in units if u.name in keep]
    if not units:
        print(f"no units registered for {prop}")
        return 2

    if a.replay:
        return do_replay(prop, a.replay, units, tier, seed)

    broken = []  # broken ties: {kind, name, detail}

    # 1. translator
    try:
        with leanio._Lock():  # Params.lean is shared with concurrent builds/audits
            ext = extract.generate(write=not os.environ.get("VERIF_NO_EXTRACT"))
    except Exception as e:
        ext = {"_error": str(e)}
    changed = {k: v for k, v in ext.items() if isinstance(v, dict) and v.get("changed")}
    misses = [k for k, v in ext.items() if isinstance(v, dict) and v.get("status") == "pattern-miss"]

    # 2. build
    modules = sorted({m for u in units for m in u.lean_modules})
    drivers = sorted({d for u in units for d in u.drivers})
    bres = leanio.build_each(modules + drivers)
    built = {m for m, (ok, _) in bres.items() if ok}
    for m, (ok, out) in bres.items():
        if not ok:
            broken.append({"kind": "lean-build", "name": m, "detail": out[-3000:],
                           "extracted_params_changed": changed})
    driver_ok = all(d in built for d in drivers)

    # 3. hygiene + axioms
    hyg = leanio.hygiene()
    for h in hyg:
        broken.append({"kind": "hygiene", "name": h, "detail": "forbidden token outside comments"})
    thms = []
    for u in units:
        if all(m in built for m in u.lean_modules):
            thms += [(u, t) for t in u.theorems]
    audit = leanio.audit_axioms([m for m in modules if m in built], [t.name for _, t in thms], f"{prop}") if thms else {}
    if any("environment already contains" in (r.get("error") or "") for r in audit.values()):
        # two families' modules define the same name and cannot be imported into ONE audit file: audit unit by unit
        # (each unit's own import closure is consistent, it was built as such)
        audit = {}
        for u in units:
            if u.theorems and all(m in built for m in u.lean_modules):
                audit.update(leanio.audit_axioms(list(u.lean_modules), [t.name for t in u.theorems], f"{prop}_{u.name}"))
    obligations = sum(len(u.theorems) for u in units)
    discharged = 0
    thm_report = []
    for u, t in thms:
        r = audit.get(t.name, {"ok": False, "error": "not audited"})
        if r.get("ok"):
            discharged += 1
        else:
            broken.append({"kind": "axiom-audit", "name": t.name, "detail": r})
        thm_report.append({"theorem": t.name, "unit": u.name, "status": t.status, "note": t.note,
                           "axioms": r.get("axioms"), "ok": r.get("ok")})
    for u in units:
        if not all(m in built for m in u.lean_modules):
            for t in u.theorems:
                thm_report.append({"theorem": t.name, "unit": u.name, "status": t.status, "note": t.note,
                                   "axioms": None, "ok": False})

    lc = None
    if tier == "thorough":
        okm = [m for m in modules if m in built]
        try:
            lc_ok, lc_out = leanio.leanchecker(okm)
        except Exception as e:
            lc_ok, lc_out = False, str(e)
        lc = {"ok": lc_ok, "modules": len(okm)}
        if not lc_ok:
            broken.append({"kind": "leanchecker", "name": "leanchecker " + " ".join(okm), "detail": lc_out})

    # 4. units
    results = run_units(units, tier, seed, deadline=deadline) if driver_ok else []
    timeouts = [r for r in results if r.get("timeout")]
    for r in results:
        if r.get("error") and not r.get("timeout"):
            broken.append({"kind": "unit-error", "name": r["unit"], "detail": r["error"]})
        for d in r.get("disagreements", []):
            broken.append({"kind": "correspondence", "name": f"{r['unit']}: {d['what']}", "detail": d["detail"]})

    # 5. known findings
    findings = [f for f in common.load_known_findings() if f.get("property") == prop]
    violations = [v for r in results for v in r.get("violations", [])]
    fresh, known_hit = [], {}
    for v in violations:
        f = match_known(v, findings)
        if f is None:
            fresh.append(v)
        else:
            known_hit.setdefault(f["id"], []).append(v)

    # 6. tie broken and nothing found yet → deeper search on the real code
    searched = False
    if broken and not fresh and driver_ok and not timeouts:
        searched = True
        sres = run_units(units, "thorough", seed + 1, searching=True, deadline=deadline)
        for r in sres:
            for v in r.get("violations", []):
                if match_known(v, findings) is None:
                    fresh.append(v)

    # ---- report --------------------------------------------------------------------------------
    rc = 0
    for f in findings:
        if f.get("status", "known") == "known":
            hits = known_hit.get(f["id"], [])
            if hits or f.get("always_report", True):
                print(f"KNOWN-FINDING: property={prop} {f['what']}" + (f" [reproduced {len(hits)}x this run]" if hits else ""))
    if fresh:
        v = fresh[0]
        path = write_replay(prop, f"{v['unit']}_{seed}", {"property": prop, "kind": "failing-input", "unit": v["unit"],
                                                           "key": v["key"], "what": v["what"], "witness": v["witness"],
                                                           "broken_ties": broken[:5], "all_violations": fresh[:10],
                                                           "seed": seed, "tier": tier})
        print(f"VIOLATION property={prop} replay={path}")
        rc = 1
    elif broken:
        b = broken[0]
        path = write_replay(prop, f"tie_{seed}", {"property": prop, "kind": "broken-tie", "no_failing_input_found": True,
                                                  "broken": broken[:10], "searched": searched, "seed": seed, "tier": tier,
                                                  "theorem_or_correspondence": b["name"]})
        print(f"broken tie: {b['kind']} {b['name']}")
        print(f"VIOLATION property={prop} replay={path} no-failing-input-found")
        rc = 1
    if timeouts and rc == 0:
        print(f"TIMEOUT in units: {[r['unit'] for r in timeouts]}")
        rc = 2

    # ---- evidence ------------------------------------------------------------------------------
    evaluations = sum(r.get("evaluations", 0) for r in results)
    distinct = sum(r.get("distinct", 0) for r in results)
    samples = []
    for r in results:
        samples += r.get("samples", [])[:2]
    samples = samples[:12] or [{"theorem": t["theorem"], "note": t["note"]} for t in thm_report[:3]]
    counts = {}
    for r in results:
        for k, v in r.get("counts", {}).items():
            counts[k] = counts.get(k, 0) + v
    ev = {
        "property_id": prop,
        "tier": tier if tier in ("quick", "thorough") else "quick",
        "seed": seed,
        "level": "proof",
        "coverage": {
            "obligations": max(obligations, 1),
            "discharged": discharged,
            "checker_cmd": f"cd lean && lake build {' '.join(modules)} && lake env lean .lake/audit/Audit_{prop}.lean  # #print axioms",
            "trusted_base": TRUSTED_BASE,
            "theorems": thm_report,
            "extracted_params": {"changed": changed, "pattern_miss": misses, "n": len(ext)},
            "evaluations": evaluations,
            "distinct_nontrivial": distinct,
            "rule": "correspondence cases: (instance, action list / operation sequence) pairs driven through the real code and "
                    "the Lean model; distinct by (family, instance, actions); non-trivial = more than one step / non-zero outcome",
            "samples": samples,
            "input_distribution": counts,
            "units": [{"unit": r["unit"], "evaluations": r.get("evaluations"), "distinct": r.get("distinct"),
                       "wall_s": r.get("wall_s"), "notes": r.get("notes", [])[:5]} for r in results],
            "broken_ties": [{"kind": b["kind"], "name": b["name"]} for b in broken],
            "known_findings_reported": [f["id"] for f in findings if f.get("status", "known") == "known"],
            "failing_input_search_ran": searched,
            "leanchecker": lc,
        },
        "assumptions": sorted({s for u in units for s in u.assumptions}),
        "wall_s": round(time.time() - t0, 2),
        "violations": len(fresh) + (1 if (broken and not fresh) else 0),
    }
    partial = bool(a.only) or bool(os.environ.get("RL4CO_REPO")) or bool(os.environ.get("VERIF_SCRATCH"))
    evdir = os.path.join("/tmp", f"verif-scratch-evidence-{os.getuid()}-{os.getpid()}") if partial else common.EVIDENCE_DIR
    if partial:
        print(f"(scratch run: evidence written to {evdir}/{prop}.json)")
    common.jdump(ev, os.path.join(evdir, f"{prop}.json"))
    print(f"{prop} {tier} seed={seed}: theorems {discharged}/{obligations} audited, {evaluations} correspondence cases "
          f"({distinct} distinct), broken ties {len(broken)}, violations {len(fresh)}, {ev['wall_s']}s -> exit {rc}")
    return rc


def do_replay(prop, path, units, tier, seed) -> int:
    """Replay a recorded violation against /repo's CURRENT tree.
    * unit-specific `replay(ctx, witness)` when the unit has one (drives exactly the recorded input);
    * otherwise the recorded unit is re-run with the recorded seed and tier (every random choice derives
      from (seed, property, unit), so the same cases are generated) and the recorded failure key is looked for;
    * a broken-tie replay (no failing input was found) re-runs the whole check."""
    p = path if os.path.isabs(path) else os.path.join(common.VERIF, path)
    rep = json.load(open(p))
    print(json.dumps({k: rep[k] for k in rep if k not in ("all_violations", "broken_ties")}, indent=1, default=str)[:4000])
    kind = rep.get("kind")
    if kind == "broken-tie":
        print("replay of a broken tie: re-running the whole check")
        return main([prop, "--tier", rep.get("tier", tier), "--seed", str(rep.get("seed", seed))])
    u = [u for u in units if u.name == rep.get("unit")]
    if not u:
        print(f"unit {rep.get('unit')!r} not registered any more")
        return 2
    if u[0].replay is not None:
        ctx = Ctx(prop, u[0].name, tier, seed)
        try:
            u[0].replay(ctx, rep["witness"])
        finally:
            ctx.close()
        hit = bool(ctx.violations)
    else:
        rtier, rseed = rep.get("tier", tier), int(rep.get("seed", seed))
        res = run_units(u, rtier, rseed)
        vs = [v for r in res for v in r.get("violations", [])]
        hit = any(v["key"] == rep.get("key") for v in vs)
        print(f"re-ran unit {u[0].name} with seed={rseed} tier={rtier}: {len(vs)} violation record(s), "
              f"recorded key {'reproduced' if hit else 'NOT reproduced'}")
    if hit:
        print(f"VIOLATION property={prop} replay={path}")
        return 1
    print("replay: no violation reproduced on the current tree")
    return 0


if __name__ == "__main__":
    sys.exit(main())
