#!/venv/bin/python
"""Run every installed seed (seeded/<id>/) against its property (and the properties listed in
meta.also_breaks), write seeded/RESULTS.json: {seed: {prop: verdict}}.
usage: seedmatrix.py [--out FILE] [seed ...]      (--out: write to FILE instead, for parallel shards;
       seedmatrix.py --merge FILE...               merges shard files into seeded/RESULTS.json)"""
import json, os, subprocess, sys

VERIF = os.path.dirname(os.path.dirname(os.path.abspath(__file__)))
SD = os.path.join(VERIF, "seeded")


def main():
    args = sys.argv[1:]
    if args and args[0] == "--merge":
        rp = os.path.join(SD, "RESULTS.json")
        res = json.load(open(rp)) if os.path.exists(rp) else {}
        for f in args[1:]:
            res.update(json.load(open(f)))
        json.dump(res, open(rp, "w"), indent=1, sort_keys=True)
        print("merged", len(res), "seeds")
        return
    out_path = None
    if args and args[0] == "--out":
        out_path, args = args[1], args[2:]
    sys.argv[1:] = args
    seeds = sys.argv[1:] or sorted(d for d in os.listdir(SD) if os.path.isdir(os.path.join(SD, d)))
    rp = out_path or os.path.join(SD, "RESULTS.json")
    res = json.load(open(rp)) if os.path.exists(rp) else {}
    for s in seeds:
        d = os.path.join(SD, s)
        m = json.load(open(os.path.join(d, "meta.json")))
        props = [m.get("property")] + [p for p in (m.get("also_breaks") or []) if isinstance(p, str)]
        props = list(dict.fromkeys(p for p in props if p and p.startswith("C")))
        out = subprocess.run([sys.executable, os.path.join(VERIF, "harness", "seedrun.py"), d, "--props", ",".join(props)],
                             stdout=subprocess.PIPE, stderr=subprocess.STDOUT, text=True).stdout
        r = {}
        for line in out.splitlines():
            if "/patch.diff " in line and ":" in line:
                head = line.split("|")[0]
                prop = head.split()[1].rstrip(":")
                verdict = head.split(":", 1)[1].strip()
                r[prop] = verdict
        res[os.path.basename(s.rstrip('/'))] = r
        print(s, r, flush=True)
        json.dump(res, open(rp, "w"), indent=1, sort_keys=True)


if __name__ == "__main__":
    main()
