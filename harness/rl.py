"""Real-code side: imports rl4co from /repo's working tree and drives environments with the harness'
own loop and PRNG (no repo helper such as `rollout`/`random_policy` is used, they are under test)."""
from __future__ import annotations

import os
import sys
import warnings
from typing import Callable, List, Optional

from common import REPO

warnings.filterwarnings("ignore")
os.environ.setdefault("OMP_NUM_THREADS", "1")
os.environ.setdefault("MKL_NUM_THREADS", "1")
if REPO not in sys.path:
    sys.path.insert(0, REPO)

import torch  # noqa: E402

torch.set_num_threads(1)
torch.use_deterministic_algorithms(False)

import logging  # noqa: E402

logging.disable(logging.WARNING)

from tensordict import TensorDict  # noqa: E402

SCALE_BITS = 20
SCALE = 1 << SCALE_BITS


def ticks(x) -> int:
    """Exact conversion of a float (python float / 0-dim tensor) on the 2^-20 grid to integer ticks.
    Raises if the value is not on the grid (then the instance does not belong to the exact stream)."""
    v = float(x) * SCALE
    r = int(round(v))
    if r != v:
        raise ValueError(f"value {float(x)!r} is not on the 2^-{SCALE_BITS} grid")
    return r


def ticks_list(t) -> List[int]:
    return [ticks(v) for v in t.flatten().tolist()]


def tol_ticks(base: float, tol: float = 1e-5) -> int:
    """Tick value of a float32 tolerance added to `base` (as the code computes `base + tol` in float32):
    the largest k such that base + k ticks <= float32(base + tol)."""
    s = (torch.tensor(base, dtype=torch.float32) + tol).item()
    import math

    return math.floor((s - base) * SCALE)


def mask_str(row) -> str:
    return "".join("1" if b else "0" for b in row.tolist())


class Episode:
    """Result of driving a batch through an environment: per row the action list, the mask before
    each action (and after the last one) and the done flag after 0..T actions."""

    def __init__(self, B: int):
        self.actions: List[List[int]] = [[] for _ in range(B)]
        self.masks: List[List[str]] = [[] for _ in range(B)]
        self.done: List[List[int]] = [[] for _ in range(B)]
        self.td = None
        self.steps = 0
        self.empty_mask_rows: List[tuple] = []  # (row, step) where an all-False mask row was seen while the batch ran


def run_episode(
    env,
    td0: TensorDict,
    choose: Callable[[int, int, List[int]], int],
    max_steps: int = 10_000,
    extra_pad: int = 0,
    forced: Optional[List[List[int]]] = None,
    strict_forced: bool = True,
) -> Episode:
    """Drive `env` from `env.reset(td0)` until all rows are done (plus `extra_pad` further steps).
    `choose(row, step, feasible_actions)` picks the action; `forced[row]` (optional) prescribes a
    prefix of actions for that row; with `strict_forced=False` a prescribed action is only taken when the
    real mask offers it (otherwise `choose` decides), so the run stays mask-confined."""
    td = env.reset(td0.clone())
    B = td.batch_size[0]
    ep = Episode(B)
    pad_left = extra_pad
    t = 0
    while True:
        mask = td["action_mask"]
        done = td["done"].reshape(B) if "done" in td.keys() else torch.zeros(B, dtype=torch.bool)
        for r in range(B):
            ep.masks[r].append(mask_str(mask[r]))
            ep.done[r].append(int(done[r]))
        all_done = bool(done.all())
        if all_done:
            if pad_left <= 0:
                break
            pad_left -= 1
        if t >= max_steps:
            ep.steps = t
            ep.td = td
            raise RuntimeError(f"episode exceeded {max_steps} steps")
        acts = []
        stop = False
        for r in range(B):
            feas = [j for j, b in enumerate(mask[r].tolist()) if b]
            if not feas:
                ep.empty_mask_rows.append((r, t))
                stop = True
                acts.append(0)
                continue
            if forced is not None and forced[r] is not None and t < len(forced[r]) and (strict_forced or forced[r][t] in feas):
                a = forced[r][t]
            else:
                a = choose(r, t, feas)
            acts.append(a)
        if stop:
            break
        for r in range(B):
            ep.actions[r].append(acts[r])
        td.set("action", torch.tensor(acts, dtype=torch.long))
        td = env.step(td)["next"]
        t += 1
    ep.steps = t
    ep.td = td
    return ep


def actions_tensor(ep: Episode) -> torch.Tensor:
    return torch.tensor(ep.actions, dtype=torch.long)


def checker_accepts(env, td, actions: torch.Tensor) -> Optional[bool]:
    """True if `check_solution_validity` returns, False if it raises AssertionError; any other
    exception (index error on malformed input, shape error) is reported as a rejection too, with
    the exception type recorded by the caller if needed."""
    try:
        env.check_solution_validity(td, actions)
        return True
    except AssertionError:
        return False
    except Exception:
        return False
