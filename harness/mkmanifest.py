#!/venv/bin/python
"""Regenerate /verif/MANIFEST.json from the unit registry (run after adding units)."""
from __future__ import annotations

import json
import os
import sys

HERE = os.path.dirname(os.path.abspath(__file__))
sys.path.insert(0, HERE)
import common  # noqa: E402
import vcheck  # noqa: E402

TEXT = {
    "C01": ("Lean theorems `E.feasible_of_run`: for every instance and every mask-admitted action list of any length, a finished "
            "episode of the model is feasible by an independent Spec; the model is tied to the real env by lock-step correspondence "
            "(masks, done, admitted) on exact-arithmetic instances incl. constraint-equality cases, and the Spec judges the real action lists.", "§6 C01"),
    "C02": ("Lean theorems per family: mask never empty, done absorbing, strictly decreasing measure ⇒ step bound; correspondence on "
            "mixed-progress batches with post-finish padding.", "§6 C02"),
    "C03": ("Lean theorems `E.reward_eq_objective` (roll/gather idiom = independent objective) for all action lists; real rewards compared "
            "bit-exactly with model and Spec objective on integral-distance instances.", "§6 C03"),
    "C04": ("Per-instance Lean model vs batched real code row by row (any position, copies, unrelated mates, padding) plus padding-noop theorems.", "§6 C04"),
    "C05": ("Lean theorems `E.run_of_feasible` (converse of C01 for canonical solutions); exhaustive enumeration of Spec-feasible solutions of "
            "tiny instances replayed through the real mask.", "§6 C05"),
    "C06": ("Lean theorems `E.check_complete` / `E.check_sound` about the model of each checker; real checker vs model vs Spec on mask-generated, "
            "hand-built and single-fault-corrupted solutions.", "§6 C06"),
    "C07": ("Lean schedule-validity theorems for the scheduling models; final schedules of the real envs compared entry-wise and judged by the Spec.", "§6 C07"),
    "C08": ("Lean quota / distinctness / bookkeeping-refinement theorems for selection envs; per-step bookkeeping of the real envs compared.", "§6 C08"),
    "C09": ("Lean best-so-far invariants (parametric in the move operator) and tour-preservation theorems; real local operators compared exhaustively on small tours.", "§6 C09"),
    "C10": ("Lean theorems about the logit-processing pipeline over an abstract exp-like weight; real `process_logits` compared on dyadic logits.", "§6 C10"),
    "C11": ("Lean theorems on log-likelihood gathering and evaluate round trip over an oracle policy; recorded real traces replayed.", "§6 C11"),
    "C12": ("Lean index laws for batchify/unbatchify/gather and best-selection for all B, k and nestings; real tensors tagged and compared.", "§6 C12"),
    "C13": ("Lean theorems on beam bookkeeping/backtracking over oracle scores; recorded real beam searches replayed.", "§6 C13"),
    "C14": ("Lean theorem: batched greedy loop = map of solo loops given a row-wise oracle; RowWise itself is sampled on the real networks.", "§6 C14"),
    "C15": ("Lean isometry theorems for the dihedral and rotation augmentations and best-of-k selection laws; real transforms compared on dyadic coordinates.", "§6 C15"),
    "C16": ("Lean dual-number theorems on loss value and gradient for REINFORCE/A2C/PPO surrogates; real autograd compared along random directions.", "§6 C16"),
    "C17": ("Lean theorems on chunking/zip/permutation of datasets; real datasets and loaders compared exhaustively for small sizes.", "§6 C17"),
    "C18": ("Lean range/well-formedness theorems on generator post-processing as a function of raw draws; real generators compared and WF sampled.", "§6 C18"),
    "C19": ("Lean round-trip theorems for the text formats and normalisation; real save/load/pickle round trips compared.", "§6 C19"),
    "C20": ("Lean theorems: batched Welford = exact mean/M2 for any batch sequence, EMA recurrence, warm-up weight; real classes compared on dyadic data.", "§6 C20"),
}

NOTE = ("Trusted: Lean kernel + axioms propext/Classical.choice/Quot.sound; the hand-written model and Spec; extract.py and the correspondence "
        "harness (differential testing on the inputs it ran); float32 rounding and torch tensor semantics are outside the model.")


def main():
    units = vcheck.load_units()
    props = [json.loads(l)["id"] for l in open(os.path.join(common.VERIF, "properties.jsonl"))]
    by = {}
    for u in units:
        by.setdefault(u.prop, []).append(u)
    na_path = os.path.join(common.VERIF, "harness", "not_applicable.json")
    na_reasons = json.load(open(na_path)) if os.path.exists(na_path) else {}
    checks, na = [], []
    for p in props:
        if p in by:
            fams = sorted({u.name for u in by[p]})
            nth = sum(len(u.theorems) for u in by[p])
            txt, ref = TEXT[p]
            checks.append({
                "property_id": p,
                "quick_cmd": f"./check {p} quick",
                "thorough_cmd": f"./check {p} thorough",
                "evidence_file": f"evidence/{p}.json",
                "replay_cmd_template": f"./check {p} --replay {{path}}",
                "engine": "lean4-proof+correspondence",
                "level_claimed": {"category": "proof", "text": txt + f" Families covered now: {', '.join(fams)} ({nth} theorems).",
                                  "design_ref": ref},
                "level_note": NOTE,
                "technique": "Lean 4 machine-checked proof about a formal model + model/code correspondence check",
            })
        else:
            na.append({"property_id": p, "reason": na_reasons.get(p, "no check registered yet (work in progress; see DESIGN.md §7 staging)")})
    man = {
        "version": 1,
        "setup_cmd": "cd lean && lake build",
        "hooks": {"guard": "RL4CO_VERIF", "enable": "no hooks are needed: every observation point is public API; checks import rl4co from /repo's working tree",
                  "baseline_off_cmd": "cd /repo && /venv/bin/python -m pytest -ra -q -p no:cacheprovider --timeout=900 --continue-on-collection-errors",
                  "source_commits": [], "add_only": True},
        "engines": [{"name": "lean4-proof+correspondence", "path": "lean/ + harness/",
                     "serves_properties": [c["property_id"] for c in checks],
                     "kind_free_text": "Lean 4 models/specs/theorems (lake project lean/), native model driver, Python correspondence harness driving the real rl4co code"}],
        "checks": checks,
        "not_applicable": na,
        "notes": "See DESIGN.md. Every check regenerates Generated/*.lean (extracted tokens and translated statements) from /repo's current sources, rebuilds the Lean modules of its property, audits axioms, and runs the correspondence and the Spec oracle on the real code.",
    }
    common.jdump(man, os.path.join(common.VERIF, "MANIFEST.json"))
    print(f"{len(checks)} checks, {len(na)} not_applicable")


if __name__ == "__main__":
    main()
