"""AST probes of the `aug` family (C15): the sign / permutation tables of the coordinate
augmentations in rl4co/data/transforms.py.

  augDihedralTable   the eight `(±x|±y, ±y|±x)` pairs of `dihedral_8_augmentation`, in the order in which
                     `aug_xy = torch.cat((z0, …, z7), dim=0)` concatenates them.  One output coordinate
                     is encoded `(useY, hasOne, neg)`:  x ↦ (F,F,F)   1 - x ↦ (F,T,T)   1 + x ↦ (F,T,F)
                     -x ↦ (F,F,T)   (same with useY = T for y).
  augRotTable        the rotation of `symmetric_transform`: rows x', y', each a sum of two terms
                     `(useSin, useY, neg)` = ± (cos|sin)(phi) * (x|y).
  augOffsetSigns     ((x pre-shift is `- offset`, y pre-shift is `- offset`), final shift is `- offset`)
  augReflectCmp      operator of `phi > 2 * math.pi`
  augPhiMul, augReflectMul   the integer factors of pi in `torch.rand(..) * 4 * math.pi` and `2 * math.pi`

Anything the patterns do not recognise is a pattern-miss (committed default + correspondence only).
"""
from __future__ import annotations

import ast

REL = "rl4co/data/transforms.py"


def _b(v: bool) -> str:
    return "true" if v else "false"


def _trip(t) -> str:
    return "(" + ", ".join(_b(v) for v in t) + ")"


def _assigns(fn):
    out = {}
    for n in ast.walk(fn):
        if isinstance(n, ast.Assign) and len(n.targets) == 1 and isinstance(n.targets[0], ast.Name):
            out[n.targets[0].id] = n.value
    return out


def _is_one(n) -> bool:
    return isinstance(n, ast.Constant) and type(n.value) in (int, float) and n.value == 1


def _coord(e, xname, yname):
    """(useY, hasOne, neg) of an output-coordinate expression, or None."""

    def var(n):
        if isinstance(n, ast.Name) and n.id in (xname, yname):
            return n.id == yname
        return None

    u = var(e)
    if u is not None:
        return (u, False, False)
    if isinstance(e, ast.UnaryOp) and isinstance(e.op, ast.USub) and var(e.operand) is not None:
        return (var(e.operand), False, True)
    if isinstance(e, ast.BinOp):
        if isinstance(e.op, ast.Sub) and _is_one(e.left) and var(e.right) is not None:
            return (var(e.right), True, True)
        if isinstance(e.op, ast.Add) and _is_one(e.left) and var(e.right) is not None:
            return (var(e.right), True, False)
        if isinstance(e.op, ast.Add) and _is_one(e.right) and var(e.left) is not None:
            return (var(e.left), True, False)
    return None


def _cat_args(call):
    """elements of `torch.cat((a, b, ...), dim=..)`"""
    if not (isinstance(call, ast.Call) and isinstance(call.func, ast.Attribute) and call.func.attr == "cat"):
        return None
    if not call.args or not isinstance(call.args[0], (ast.Tuple, ast.List)):
        return None
    return list(call.args[0].elts)


def dihedral_table(ex):
    def run():
        tree = ex.parse(REL)
        fn = ex.find_function(tree, "dihedral_8_augmentation") if tree else None
        if fn is None:
            return None
        # x, y = xy.split(1, dim=2)
        names = None
        for n in ast.walk(fn):
            if (isinstance(n, ast.Assign) and isinstance(n.targets[0], ast.Tuple) and len(n.targets[0].elts) == 2
                    and isinstance(n.value, ast.Call) and isinstance(n.value.func, ast.Attribute)
                    and n.value.func.attr == "split"):
                a, b = n.targets[0].elts
                if isinstance(a, ast.Name) and isinstance(b, ast.Name):
                    names = (a.id, b.id)
        if names is None:
            return None
        asg = _assigns(fn)
        ret = [n for n in ast.walk(fn) if isinstance(n, ast.Return)]
        if len(ret) != 1:
            return None
        top = ret[0].value
        if isinstance(top, ast.Name):
            top = asg.get(top.id)
        order = _cat_args(top)
        if order is None:
            return None
        rows = []
        for z in order:
            e = asg.get(z.id) if isinstance(z, ast.Name) else z
            pair = _cat_args(e)
            if pair is None or len(pair) != 2:
                return None
            cx, cy = _coord(pair[0], *names), _coord(pair[1], *names)
            if cx is None or cy is None:
                return None
            rows.append(f"({_trip(cx)}, {_trip(cy)})")
        return "[" + ", ".join(rows) + "]"

    return run


def _trig_term(e, xname, yname):
    """± (cos|sin)(phi) * (x|y)  →  (useSin, useY, neg)"""
    neg = False
    if isinstance(e, ast.UnaryOp) and isinstance(e.op, ast.USub):
        neg, e = True, e.operand
    if not (isinstance(e, ast.BinOp) and isinstance(e.op, ast.Mult)):
        return None
    a, b = e.left, e.right
    if isinstance(a, ast.Name):
        a, b = b, a
    if not (isinstance(a, ast.Call) and isinstance(a.func, ast.Attribute) and a.func.attr in ("cos", "sin")):
        return None
    if not (isinstance(b, ast.Name) and b.id in (xname, yname)):
        return None
    return (a.func.attr == "sin", b.id == yname, neg)


def _row(e, xname, yname):
    if not (isinstance(e, ast.BinOp) and isinstance(e.op, (ast.Add, ast.Sub))):
        return None
    t1, t2 = _trig_term(e.left, xname, yname), _trig_term(e.right, xname, yname)
    if t1 is None or t2 is None:
        return None
    if isinstance(e.op, ast.Sub):
        t2 = (t2[0], t2[1], not t2[2])
    return f"({_trip(t1)}, {_trip(t2)})"


def _sym_fn(ex):
    tree = ex.parse(REL)
    return ex.find_function(tree, "symmetric_transform") if tree else None


def rot_table(ex):
    def run():
        fn = _sym_fn(ex)
        if fn is None:
            return None
        asg = _assigns(fn)
        # xy = torch.cat((x_prime, y_prime), dim=-1): which names are the rows, in which order
        pair = None
        for n in ast.walk(fn):
            if not isinstance(n, ast.Assign):
                continue
            els = _cat_args(n.value)
            if els is not None and len(els) == 2 and all(isinstance(t, ast.Name) for t in els):
                pair = (els[0].id, els[1].id)
        if pair is None or pair[0] not in asg or pair[1] not in asg:
            return None
        args = [a.arg for a in fn.args.args]
        if len(args) < 2:
            return None
        r1, r2 = _row(asg[pair[0]], args[0], args[1]), _row(asg[pair[1]], args[0], args[1])
        if r1 is None or r2 is None:
            return None
        return f"({r1}, {r2})"

    return run


def offset_signs(ex):
    def run():
        fn = _sym_fn(ex)
        if fn is None:
            return None
        args = [a.arg for a in fn.args.args]
        pre = None
        for n in ast.walk(fn):
            # x, y = x - offset, y - offset
            if (isinstance(n, ast.Assign) and isinstance(n.targets[0], ast.Tuple) and isinstance(n.value, ast.Tuple)
                    and len(n.value.elts) == 2):
                sg = []
                for t, v, nm in zip(n.targets[0].elts, n.value.elts, args[:2]):
                    if not (isinstance(t, ast.Name) and t.id == nm and isinstance(v, ast.BinOp)
                            and isinstance(v.op, (ast.Add, ast.Sub)) and isinstance(v.left, ast.Name) and v.left.id == nm
                            and isinstance(v.right, ast.Name) and v.right.id == "offset"):
                        return None
                    sg.append(isinstance(v.op, ast.Sub))
                pre = sg
        ret = [n for n in ast.walk(fn) if isinstance(n, ast.Return)]
        if pre is None or len(ret) != 1:
            return None
        r = ret[0].value
        if not (isinstance(r, ast.BinOp) and isinstance(r.op, (ast.Add, ast.Sub)) and isinstance(r.right, ast.Name)
                and r.right.id == "offset"):
            return None
        return f"(({_b(pre[0])}, {_b(pre[1])}), {_b(isinstance(r.op, ast.Sub))})"

    return run


def pi_factor(ex, func, pick):
    """integer k of the (single) product `… * k * math.pi` / `k * math.pi` selected by `pick(node)`"""

    def is_pi(n):
        return isinstance(n, ast.Attribute) and n.attr == "pi"

    def run():
        tree = ex.parse(REL)
        fn = ex.find_function(tree, func) if tree else None
        if fn is None:
            return None
        hits = []
        for n in ast.walk(fn):
            if isinstance(n, ast.BinOp) and isinstance(n.op, ast.Mult) and is_pi(n.right):
                l = n.left
                k = None
                if isinstance(l, ast.Constant) and isinstance(l.value, int):
                    k, rest = l.value, None
                elif (isinstance(l, ast.BinOp) and isinstance(l.op, ast.Mult) and isinstance(l.right, ast.Constant)
                      and isinstance(l.right.value, int)):
                    k, rest = l.right.value, l.left
                if k is not None and k >= 0 and pick(rest):
                    hits.append(k)
        return str(hits[0]) if len(hits) == 1 else None

    return run


def register(ex):
    ex.probe("augDihedralTable", "List ((Bool × Bool × Bool) × (Bool × Bool × Bool))",
             "[((false, false, false), (true, false, false)), ((false, true, true), (true, false, false)), "
             "((false, false, false), (true, true, true)), ((false, true, true), (true, true, true)), "
             "((true, false, false), (false, false, false)), ((true, true, true), (false, false, false)), "
             "((true, false, false), (false, true, true)), ((true, true, true), (false, true, true))]",
             "data/transforms.py:dihedral_8_augmentation  z0..z7 as (useY, hasOne, neg) per output coordinate",
             dihedral_table(ex))
    ex.probe("augRotTable", "((Bool × Bool × Bool) × (Bool × Bool × Bool)) × ((Bool × Bool × Bool) × (Bool × Bool × Bool))",
             "(((false, false, false), (true, true, true)), ((true, false, false), (false, true, false)))",
             "data/transforms.py:symmetric_transform  x' = cos*x - sin*y ; y' = sin*x + cos*y as (useSin, useY, neg) terms",
             rot_table(ex))
    ex.probe("augOffsetSigns", "(Bool × Bool) × Bool", "((true, true), false)",
             "data/transforms.py:symmetric_transform  `x, y = x - offset, y - offset` … `return xy + offset` (true = minus)",
             offset_signs(ex))
    ex.probe("augReflectCmp", "Cmp", ".gt", "data/transforms.py:symmetric_transform  `mask = phi > 2 * math.pi`",
             ex.cmp_probe(REL, "symmetric_transform", "phi", "2 * math.pi"))
    ex.probe("augReflectMul", "Nat", "2", "data/transforms.py:symmetric_transform  the 2 of `2 * math.pi`",
             pi_factor(ex, "symmetric_transform", lambda rest: rest is None))
    ex.probe("augPhiMul", "Nat", "4", "data/transforms.py:symmetric_augmentation  the 4 of `torch.rand(..) * 4 * math.pi`",
             pi_factor(ex, "symmetric_augmentation", lambda rest: rest is not None))


# ---- growth round: index expressions / call shapes the C15 and C14 proofs depend on ---------------------

def first_zero_bound(ex):
    """`phi[: <bound>] = 0.0` in symmetric_augmentation: 1 = `xy.shape[0] // num_augment`, 2 = `num_augment`,
    3 = `xy.shape[0]`"""

    def run():
        tree = ex.parse(REL)
        fn = ex.find_function(tree, "symmetric_augmentation") if tree else None
        if fn is None:
            return None
        args = [a.arg for a in fn.args.args]
        if len(args) < 2:
            return None
        xy, na = args[0], args[1]
        rows = f"{xy}.shape[0]"
        hits = []
        for n in ast.walk(fn):
            if (isinstance(n, ast.Assign) and len(n.targets) == 1 and isinstance(n.targets[0], ast.Subscript)
                    and isinstance(n.targets[0].value, ast.Name) and n.targets[0].value.id == "phi"
                    and isinstance(n.targets[0].slice, ast.Slice) and n.targets[0].slice.lower is None
                    and n.targets[0].slice.upper is not None and isinstance(n.value, ast.Constant) and n.value.value == 0):
                up = ex.norm(n.targets[0].slice.upper)
                if up == f"{rows}//{na}":
                    hits.append("1")
                elif up == na:
                    hits.append("2")
                elif up == rows:
                    hits.append("3")
                else:
                    return None
        return hits[0] if len(hits) == 1 else None

    return run


def forwards_num_augment(ex):
    """does StateAugmentation.__call__ hand `self.num_augment` to the augmentation function?"""

    def run():
        tree = ex.parse(REL)
        fn = ex.find_function(tree, "StateAugmentation.__call__") if tree else None
        if fn is None:
            return None
        calls = [n for n in ast.walk(fn) if isinstance(n, ast.Call) and ex.norm(n.func) == "self.augmentation"]
        if len(calls) != 1:
            return None
        c = calls[0]
        pos = len(c.args) >= 2 and ex.norm(c.args[1]) == "self.num_augment"
        kw = any(k.arg == "num_augment" and ex.norm(k.value) == "self.num_augment" for k in c.keywords)
        return _b(pos or kw)

    return run


def sym_default_num_augment(ex):
    def run():
        tree = ex.parse(REL)
        fn = ex.find_function(tree, "symmetric_augmentation") if tree else None
        if fn is None:
            return None
        args = fn.args.args
        defaults = fn.args.defaults
        off = len(args) - len(defaults)
        if len(args) >= 2 and 1 - off >= 0 and isinstance(defaults[1 - off], ast.Constant) and isinstance(defaults[1 - off].value, int):
            return str(defaults[1 - off].value)
        return None

    return run


def cache_start_major(ex):
    """PrecomputedCache.batchify: tensors are expanded with ops.batchify (start-major) — true; with repeat_interleave
    (instance-major) — false"""

    def run():
        tree = ex.parse("rl4co/models/zoo/am/decoder.py")
        fn = ex.find_function(tree, "PrecomputedCache.batchify") if tree else None
        if fn is None:
            return None
        calls = [n for n in ast.walk(fn) if isinstance(n, ast.Call)]
        if any(isinstance(c.func, ast.Attribute) and c.func.attr in ("repeat_interleave", "repeat") for c in calls):
            return "false"
        if any(isinstance(c.func, ast.Name) and c.func.id == "batchify" and len(c.args) == 2 and ex.norm(c.args[1]) == "num_starts"
               for c in calls):
            return "true"
        return None

    return run


def select_best_gathers_td(ex):
    """DecodingStrategy._select_best: `td = unbatchify_and_gather(td, max_idxs, self.num_starts)` (true) vs a slice of td (false)"""

    def run():
        tree = ex.parse("rl4co/utils/decoding.py")
        fn = ex.find_function(tree, "DecodingStrategy._select_best") if tree else None
        if fn is None:
            return None
        res = []
        for n in ast.walk(fn):
            if isinstance(n, ast.Assign) and len(n.targets) == 1 and isinstance(n.targets[0], ast.Name) and n.targets[0].id == "td":
                v = n.value
                if (isinstance(v, ast.Call) and isinstance(v.func, ast.Name) and v.func.id == "unbatchify_and_gather"
                        and len(v.args) == 3 and ex.norm(v.args[0]) == "td" and ex.norm(v.args[1]) == "max_idxs"):
                    res.append("true")
                elif isinstance(v, ast.Subscript) and ex.norm(v.value) == "td":
                    res.append("false")
                else:
                    return None
        return res[0] if len(res) == 1 else None

    return run


OPS = "rl4co/models/nn/ops.py"


def norm_kinds(ex):
    """classes behind Normalization's `normalizer_class` dict, in source order: BatchNorm1d → 0, InstanceNorm1d → 1"""

    def run():
        tree = ex.parse(OPS)
        fn = ex.find_function(tree, "Normalization.__init__") if tree else None
        if fn is None:
            return None
        for n in ast.walk(fn):
            if isinstance(n, ast.Dict) and n.keys and all(isinstance(k, ast.Constant) for k in n.keys):
                codes = []
                for v in n.values:
                    nm = ex.norm(v)
                    if nm.endswith("BatchNorm1d"):
                        codes.append("0")
                    elif nm.endswith("InstanceNorm1d"):
                        codes.append("1")
                    elif nm.endswith("LayerNorm"):
                        codes.append("2")
                    else:
                        return None
                return "[" + ", ".join(codes) + "]"
        return None

    return run


def norm_tracks_running(ex):
    """no `track_running_stats=False` on the normalizer construction (BatchNorm1d then uses running statistics in eval mode)"""

    def run():
        tree = ex.parse(OPS)
        fn = ex.find_function(tree, "Normalization.__init__") if tree else None
        if fn is None:
            return None
        calls = [n for n in ast.walk(fn) if isinstance(n, ast.Call) and ex.norm(n.func) == "normalizer_class"]
        if len(calls) != 1:
            return None
        for k in calls[0].keywords:
            if k.arg == "track_running_stats":
                if isinstance(k.value, ast.Constant):
                    return _b(bool(k.value.value))
                return None
        return "true"

    return run


def layer_norm_dims(ex):
    """dims of `x.mean((1, 2))` in Normalization.forward's 'layer' branch (must not contain the batch dim 0)"""

    def run():
        tree = ex.parse(OPS)
        fn = ex.find_function(tree, "Normalization.forward") if tree else None
        if fn is None:
            return None
        dims = set()
        found = False
        for n in ast.walk(fn):
            if (isinstance(n, ast.Call) and isinstance(n.func, ast.Attribute) and n.func.attr in ("mean", "var")
                    and ex.norm(n.func.value) == "x" and len(n.args) == 1):
                a = n.args[0]
                if isinstance(a, ast.Tuple) and all(isinstance(e, ast.Constant) and isinstance(e.value, int) for e in a.elts):
                    found = True
                    dims |= {e.value for e in a.elts}
                elif isinstance(a, ast.Constant) and isinstance(a.value, int):
                    found = True
                    dims.add(a.value)
                else:
                    return None
        if not found or any(d < 0 for d in dims):
            return None
        return "[" + ", ".join(str(d) for d in sorted(dims)) + "]"

    return run


_register_round0 = register


def register(ex):  # noqa: F811
    _register_round0(ex)
    ex.probe("augFirstZeroBound", "Nat", "1",
             "data/transforms.py:symmetric_augmentation  bound of `phi[: xy.shape[0] // num_augment] = 0.0` (1 = rows // num_augment, 2 = num_augment, 3 = rows)",
             first_zero_bound(ex))
    ex.probe("augForwardsNumAugment", "Bool", "true",
             "data/transforms.py:StateAugmentation.__call__  `self.augmentation(td_aug[feat], self.num_augment)` forwards num_augment",
             forwards_num_augment(ex))
    ex.probe("augSymDefaultNumAugment", "Nat", "8", "data/transforms.py:symmetric_augmentation  default of `num_augment`",
             sym_default_num_augment(ex))
    ex.probe("augCacheStartMajor", "Bool", "true",
             "models/zoo/am/decoder.py:PrecomputedCache.batchify  tensors expanded with ops.batchify(emb, num_starts) (start-major)",
             cache_start_major(ex))
    ex.probe("augSelectBestGathersTd", "Bool", "true",
             "utils/decoding.py:DecodingStrategy._select_best  `td = unbatchify_and_gather(td, max_idxs, self.num_starts)`",
             select_best_gathers_td(ex))
    ex.probe("augNormKinds", "List Nat", "[0, 1]",
             "models/nn/ops.py:Normalization.__init__  classes of the normalizer dict (0 BatchNorm1d, 1 InstanceNorm1d, 2 LayerNorm)",
             norm_kinds(ex))
    ex.probe("augNormTracksRunning", "Bool", "true",
             "models/nn/ops.py:Normalization.__init__  normalizer built without `track_running_stats=False`", norm_tracks_running(ex))
    ex.probe("augLayerNormDims", "List Nat", "[1, 2]",
             "models/nn/ops.py:Normalization.forward  dims of the 'layer' branch's `x.mean((1, 2))` / `x.var((1, 2))`", layer_norm_dims(ex))


# ---- growth round 2 ---------------------------------------------------------------------------------------

def eval_lists_local(ex):
    """EvalBase: `rewards_list` / `actions_list` are fresh locals of `__call__` (true) or attributes of the evaluator
    object (false: results of earlier calls would be carried over)"""

    def run():
        tree = ex.parse("rl4co/tasks/eval.py")
        cls = ex.find_function(tree, "EvalBase") if tree else None
        call = ex.find_function(tree, "EvalBase.__call__") if tree else None
        if cls is None or call is None:
            return None
        names = ("rewards_list", "actions_list")
        attr = [n for n in ast.walk(cls) if isinstance(n, ast.Attribute) and n.attr in names
                and isinstance(n.value, ast.Name) and n.value.id == "self"]
        local = set()
        for n in ast.walk(call):
            if isinstance(n, ast.Assign) and len(n.targets) == 1 and isinstance(n.targets[0], ast.Name) \
                    and n.targets[0].id in names and isinstance(n.value, ast.List) and not n.value.elts:
                local.add(n.targets[0].id)
        if attr:
            return "false"
        if local == set(names):
            return "true"
        return None

    return run


NN_FILES = ["rl4co/models/nn/attention.py", "rl4co/models/nn/ops.py", "rl4co/models/nn/mlp.py",
            "rl4co/models/nn/graph/attnnet.py", "rl4co/models/nn/env_embeddings/init.py",
            "rl4co/models/nn/env_embeddings/context.py", "rl4co/models/nn/env_embeddings/dynamic.py",
            "rl4co/models/zoo/am/encoder.py", "rl4co/models/zoo/am/decoder.py", "rl4co/models/zoo/am/policy.py",
            "rl4co/models/zoo/symnco/policy.py", "rl4co/models/zoo/ham/encoder.py", "rl4co/models/zoo/ham/attention.py",
            "rl4co/models/zoo/polynet/policy.py", "rl4co/models/zoo/polynet/decoder.py",
            "rl4co/models/zoo/ptrnet/encoder.py", "rl4co/models/zoo/ptrnet/decoder.py", "rl4co/models/zoo/ptrnet/policy.py",
            "rl4co/models/zoo/mdam/encoder.py", "rl4co/models/zoo/mdam/decoder.py", "rl4co/models/zoo/mdam/mha.py",
            "rl4co/models/zoo/l2d/encoder.py", "rl4co/models/zoo/l2d/decoder.py", "rl4co/models/zoo/l2d/policy.py",
            "rl4co/models/zoo/matnet/encoder.py", "rl4co/models/zoo/matnet/decoder.py",
            "rl4co/models/common/constructive/base.py", "rl4co/models/common/constructive/autoregressive/policy.py"]
GLOBAL_REDUCERS = {"max", "min", "mean", "sum", "std", "var", "amax", "amin", "median", "norm", "prod"}
REDUCERS = {"mean", "sum", "std", "var", "softmax", "log_softmax", "cumsum", "amax", "amin", "prod", "logsumexp", "norm"}


def _walk_funcs(tree):
    """(qualified name, node) of every function, class-qualified"""
    out = []

    def rec(node, prefix):
        for ch in ast.iter_child_nodes(node):
            if isinstance(ch, ast.ClassDef):
                rec(ch, prefix + [ch.name])
            elif isinstance(ch, (ast.FunctionDef, ast.AsyncFunctionDef)):
                out.append((".".join(prefix + [ch.name]), ch))
                rec(ch, prefix + [ch.name])

    rec(tree, [])
    return out


def batch_dim_reductions(ex):
    """reductions over the BATCH dimension (dim 0 / a tuple containing 0) in the nn modules the bundled constructive
    policies are built from: `x.mean(0)`, `x.sum(dim=0)`, `torch.softmax(x, dim=0)`, `x.mean(dim=0, keepdim=True)`, …
    Each hit is reported as `file:function:method`."""

    def dim_of(call, is_method):
        for k in call.keywords:
            if k.arg in ("dim", "axis"):
                return k.value
        args = call.args if is_method else call.args[1:]
        return args[0] if args else None

    def has_zero(d):
        if isinstance(d, ast.Constant) and isinstance(d.value, int) and not isinstance(d.value, bool):
            return d.value == 0
        if isinstance(d, (ast.Tuple, ast.List)):
            return any(has_zero(e) for e in d.elts)
        return False

    def run():
        hits = []
        seen_any = False
        for rel in NN_FILES:
            tree = ex.parse(rel)
            if tree is None:
                continue
            seen_any = True
            short = rel.split("rl4co/models/")[-1]
            for qn, fn in _walk_funcs(tree):
                for n in ast.walk(fn):
                    if isinstance(n, ast.Call) and isinstance(n.func, ast.Attribute) and n.func.attr in REDUCERS:
                        is_method = not (isinstance(n.func.value, ast.Name) and n.func.value.id in ("torch", "F"))
                        d = dim_of(n, is_method)
                        if d is not None and has_zero(d):
                            hits.append(f"{short}:{qn}:{n.func.attr}")
                    # a reduction over ALL dims (no dim argument) of a td field: `td["num_agents"].max()` mixes the batch
                    if isinstance(n, ast.Call) and isinstance(n.func, ast.Attribute) and n.func.attr in GLOBAL_REDUCERS \
                            and not n.args and not any(k.arg in ("dim", "axis") for k in n.keywords) \
                            and "td[" in ex.norm(n.func.value):
                        hits.append(f"{short}:{qn}:global-{n.func.attr}")
        if not seen_any:
            return None
        hits = sorted(set(hits))
        return "[" + ", ".join('"' + h + '"' for h in hits) + "]"

    return run


def forced_train_mode(ex):
    """places in those modules that make a layer behave as in training regardless of `module.training`:
    `F.dropout(...)` / `F.batch_norm(...)` with `training=True` or without a `training=` argument tied to
    `self.training`, `nn.BatchNorm*(…, track_running_stats=False)`, calls of `.train()`"""

    def run():
        hits = []
        seen_any = False
        for rel in NN_FILES:
            tree = ex.parse(rel)
            if tree is None:
                continue
            seen_any = True
            short = rel.split("rl4co/models/")[-1]
            for qn, fn in _walk_funcs(tree):
                for n in ast.walk(fn):
                    if not isinstance(n, ast.Call):
                        continue
                    f = ex.norm(n.func)
                    if f in ("F.dropout", "F.batch_norm", "torch.nn.functional.dropout", "torch.nn.functional.batch_norm"):
                        tr = [k for k in n.keywords if k.arg == "training"]
                        if not tr or not ex.norm(tr[0].value).endswith("self.training"):
                            hits.append(f"{short}:{qn}:{f.split('.')[-1]}")
                    if f.split(".")[-1].startswith("BatchNorm") or f.split(".")[-1].startswith("InstanceNorm"):
                        for k in n.keywords:
                            if k.arg == "track_running_stats" and isinstance(k.value, ast.Constant) and k.value.value is False \
                                    and f.split(".")[-1].startswith("BatchNorm"):
                                hits.append(f"{short}:{qn}:BatchNorm(track_running_stats=False)")
                    if isinstance(n.func, ast.Attribute) and n.func.attr == "train" and not n.args and not n.keywords:
                        hits.append(f"{short}:{qn}:train()")
        if not seen_any:
            return None
        hits = sorted(set(hits))
        return "[" + ", ".join('"' + h + '"' for h in hits) + "]"

    return run


_register_round1 = register


def register(ex):  # noqa: F811
    _register_round1(ex)
    ex.probe("augEvalListsLocal", "Bool", "true",
             "tasks/eval.py:EvalBase.__call__  `rewards_list = []` / `actions_list = []` are locals of __call__, not attributes",
             eval_lists_local(ex))
    ex.probe("augBatchDimReductions", "List String", '["nn/attention.py:PointerAttnMoE._project_out:mean"]',
             "reductions over the batch dim (dim 0) in the nn modules of the bundled constructive policies (file:function:method)",
             batch_dim_reductions(ex))
    ex.probe("augForcedTrainMode", "List String", '["nn/attention.py:scaled_dot_product_attention_simple:dropout", "zoo/matnet/encoder.py:MixedScoresSDPA.forward:dropout", "zoo/ptrnet/policy.py:PointerNetworkPolicy.forward:train()"]',
             "dropout / batch-norm forced into training behaviour, BatchNorm(track_running_stats=False), .train() calls in those modules",
             forced_train_mode(ex))


# ---- round 5: caches in the decoding path ---------------------------------------------------------------------

NAR_DEC = "rl4co/models/common/constructive/nonautoregressive/decoder.py"
CACHE_FILES = [NAR_DEC, "rl4co/models/common/constructive/autoregressive/decoder.py", "rl4co/models/common/constructive/base.py",
               "rl4co/models/common/constructive/autoregressive/policy.py", "rl4co/models/common/constructive/nonautoregressive/policy.py",
               "rl4co/utils/decoding.py", "rl4co/utils/ops.py", "rl4co/models/zoo/am/decoder.py", "rl4co/models/zoo/am/encoder.py"]


def _is_lru(dec):
    f = dec.func if isinstance(dec, ast.Call) else dec
    nm = f.attr if isinstance(f, ast.Attribute) else (f.id if isinstance(f, ast.Name) else "")
    return nm in ("lru_cache", "cache")


def nar_index_key_has_both(ex):
    """the cache key of `_multistart_batched_index` contains BOTH batch_size and num_starts as separate components:
    `@lru_cache` on the function whose parameters include both (true); a hand-written cache whose `key = (...)` tuple has both
    names as stand-alone elements (true) / lacks one of them, e.g. only their product (false); no cache at all (true)"""

    def run():
        tree = ex.parse(NAR_DEC)
        fn = ex.find_function(tree, "_multistart_batched_index") if tree else None
        if fn is None:
            return None
        params = [a.arg for a in fn.args.args]
        if "batch_size" not in params or "num_starts" not in params:
            return None
        if any(_is_lru(d) for d in fn.decorator_list):
            return "true"
        keys = [n.value for n in ast.walk(fn) if isinstance(n, ast.Assign) and len(n.targets) == 1
                and isinstance(n.targets[0], ast.Name) and n.targets[0].id in ("key", "cache_key", "k")]
        subs = [n for n in ast.walk(fn) if isinstance(n, ast.Subscript) and isinstance(n.value, ast.Name)
                and n.value.id.isupper()]
        if not keys and not subs:
            return "true"  # no cache: a function of its arguments
        if len(keys) != 1 or not isinstance(keys[0], ast.Tuple):
            return None
        alone = {e.id for e in keys[0].elts if isinstance(e, ast.Name)}
        return _b({"batch_size", "num_starts"} <= alone)

    return run


def nar_index_start_major(ex):
    """the index itself: `batchify(arr, num_starts)` over `arange(batch_size)` (start-major) — true; repeat_interleave — false"""

    def run():
        tree = ex.parse(NAR_DEC)
        fn = ex.find_function(tree, "_multistart_batched_index") if tree else None
        if fn is None:
            return None
        calls = [n for n in ast.walk(fn) if isinstance(n, ast.Call)]
        if any(isinstance(c.func, ast.Attribute) and c.func.attr in ("repeat_interleave", "repeat") for c in calls):
            return "false"
        if any(isinstance(c.func, ast.Name) and c.func.id == "batchify" and len(c.args) == 2 and ex.norm(c.args[1]) == "num_starts"
               for c in calls) and any(ex.norm(c.func).endswith("arange") for c in calls):
            return "true"
        return None

    return run


def decode_caches(ex):
    """memoisation in the decoding path: `@lru_cache` / `@cache` functions and module-level `NAME = {}` dicts, as
    `file:name:kind`"""

    def run():
        hits, seen = [], False
        for rel in CACHE_FILES:
            tree = ex.parse(rel)
            if tree is None:
                continue
            seen = True
            short = rel.split("rl4co/")[-1]
            for n in ast.walk(tree):
                if isinstance(n, (ast.FunctionDef, ast.AsyncFunctionDef)) and any(_is_lru(d) for d in n.decorator_list):
                    hits.append(f"{short}:{n.name}:lru_cache")
            for n in tree.body:
                if isinstance(n, ast.Assign) and len(n.targets) == 1 and isinstance(n.targets[0], ast.Name) \
                        and ((isinstance(n.value, ast.Dict) and not n.value.keys)
                             or (isinstance(n.value, ast.Call) and ex.norm(n.value.func) in ("dict", "OrderedDict", "collections.OrderedDict"))):
                    hits.append(f"{short}:{n.targets[0].id}:module-dict")
        if not seen:
            return None
        return "[" + ", ".join('"' + h + '"' for h in sorted(set(hits))) + "]"

    return run


_register_round2 = register


def register(ex):  # noqa: F811
    _register_round2(ex)
    ex.probe("augNarIndexKeyHasBoth", "Bool", "true",
             "nonautoregressive/decoder.py:_multistart_batched_index  the memoisation key has batch_size AND num_starts as components",
             nar_index_key_has_both(ex))
    ex.probe("augNarIndexStartMajor", "Bool", "true",
             "nonautoregressive/decoder.py:_multistart_batched_index  index = batchify(arange(batch_size), num_starts) (start-major)",
             nar_index_start_major(ex))
    ex.probe("augDecodeCaches", "List String",
             '["models/common/constructive/nonautoregressive/decoder.py:_multistart_batched_index:lru_cache", "utils/ops.py:get_full_graph_edge_index:lru_cache"]',
             "memoised functions / module-level dict caches in the decoding path (file:name:kind)", decode_caches(ex))


# ---- round 6: masking before the softmax (HetGNN), "reset, then augment the reset td" (POMO / SymNCO), coordinate keys ----------

def hgnn_masks_before_softmax(ex):
    """HetGNNLayer.forward: non-neighbour logits are set to -inf BEFORE `F.softmax` (true).  The recognised negative case:
    no -inf fill before the softmax and the softmax output multiplied by the adjacency / mask afterwards (false)."""

    def is_neg_inf(n):
        s = ex.norm(n)
        return s in ("-torch.inf", "-math.inf", "-np.inf", "float('-inf')", "-float('inf')", "-inf")

    def run():
        tree = ex.parse("rl4co/models/nn/graph/hgnn.py")
        fn = ex.find_function(tree, "HetGNNLayer.forward") if tree else None
        if fn is None:
            return None
        soft = [n for n in ast.walk(fn) if isinstance(n, ast.Call) and ex.norm(n.func).split(".")[-1] == "softmax"]
        if len(soft) != 1:
            return None
        sl = soft[0].lineno
        fills = []
        for n in ast.walk(fn):
            if isinstance(n, ast.Assign) and len(n.targets) == 1 and isinstance(n.targets[0], ast.Subscript) and is_neg_inf(n.value):
                fills.append(n.lineno)
            if isinstance(n, ast.Call) and isinstance(n.func, ast.Attribute) and n.func.attr in ("masked_fill", "masked_fill_") \
                    and len(n.args) == 2 and is_neg_inf(n.args[1]):
                fills.append(n.lineno)
        if any(l <= sl for l in fills):
            return "true"
        # softmax output (or a slice of it) multiplied by something afterwards
        tgt = None
        for n in ast.walk(fn):
            if isinstance(n, ast.Assign) and n.value is soft[0] and isinstance(n.targets[0], ast.Name):
                tgt = n.targets[0].id
        if tgt is not None:
            for n in ast.walk(fn):
                if isinstance(n, ast.BinOp) and isinstance(n.op, ast.Mult) and n.lineno > sl and tgt in ex.norm(n.left) + ex.norm(n.right):
                    return "false"
        return None

    return run


def augments_reset_td(ex, rel, qual):
    """`td = self.env.reset(batch)` first, then `td = self.augment(td)` on THAT td (true); augmenting `batch` / augmenting before
    the reset (false)"""

    def run():
        tree = ex.parse(rel)
        fn = ex.find_function(tree, qual) if tree else None
        if fn is None:
            return None
        resets = [n for n in ast.walk(fn) if isinstance(n, ast.Assign) and len(n.targets) == 1 and isinstance(n.targets[0], ast.Name)
                  and isinstance(n.value, ast.Call) and ex.norm(n.value.func) == "self.env.reset"]
        augs = [n for n in ast.walk(fn) if isinstance(n, ast.Call) and ex.norm(n.func) == "self.augment" and len(n.args) == 1]
        if len(resets) != 1 or len(augs) != 1:
            return None
        arg = augs[0].args[0]
        if not isinstance(arg, ast.Name):
            return None
        return _b(arg.id == resets[0].targets[0].id and augs[0].lineno > resets[0].lineno)

    return run


def default_feats(ex):
    def run():
        tree = ex.parse(REL)
        fn = ex.find_function(tree, "StateAugmentation.__init__") if tree else None
        if fn is None:
            return None
        for n in ast.walk(fn):
            if isinstance(n, ast.Assign) and ex.norm(n.targets[0]) == "self.feats" and isinstance(n.value, ast.List) \
                    and all(isinstance(e, ast.Constant) and isinstance(e.value, str) for e in n.value.elts):
                return "[" + ", ".join('"' + e.value + '"' for e in n.value.elts) + "]"
        return None

    return run


RESET_ENVS = [("tsp", "rl4co/envs/routing/tsp/env.py", "TSPEnv._reset"), ("cvrp", "rl4co/envs/routing/cvrp/env.py", "CVRPEnv._reset"),
              ("sdvrp", "rl4co/envs/routing/sdvrp/env.py", "SDVRPEnv._reset"), ("op", "rl4co/envs/routing/op/env.py", "OPEnv._reset"),
              ("pctsp", "rl4co/envs/routing/pctsp/env.py", "PCTSPEnv._reset"), ("pdp", "rl4co/envs/routing/pdp/env.py", "PDPEnv._reset"),
              ("mtsp", "rl4co/envs/routing/mtsp/env.py", "MTSPEnv._reset"), ("cvrptw", "rl4co/envs/routing/cvrptw/env.py", "CVRPTWEnv._reset")]
COORD_KEYS = ("locs", "depot", "depots")


def reset_coord_keys(ex):
    """per env: the coordinate-bearing keys of the TensorDict its `_reset` builds (a dict literal with string keys)"""

    def run():
        rows = []
        for name, rel, qual in RESET_ENVS:
            tree = ex.parse(rel)
            fn = ex.find_function(tree, qual) if tree else None
            if fn is None:
                continue
            best = None
            for n in ast.walk(fn):
                if isinstance(n, ast.Dict) and n.keys and all(isinstance(k, ast.Constant) and isinstance(k.value, str) for k in n.keys):
                    ks = [k.value for k in n.keys]
                    if "locs" in ks and (best is None or len(ks) > len(best)):
                        best = ks
            if best is None:
                continue
            coord = [k for k in best if k in COORD_KEYS]
            rows.append('("' + name + '", [' + ", ".join('"' + k + '"' for k in coord) + "])")
        if not rows:
            return None
        return "[" + ", ".join(rows) + "]"

    return run


_register_round5 = register


def register(ex):  # noqa: F811
    _register_round5(ex)
    ex.probe("augHgnnMasksBeforeSoftmax", "Bool", "true",
             "models/nn/graph/hgnn.py:HetGNNLayer.forward  `all_logits[~mask] = -torch.inf` precedes `F.softmax`", hgnn_masks_before_softmax(ex))
    ex.probe("augPomoAugmentsResetTd", "Bool", "true",
             "models/zoo/pomo/model.py:POMO.shared_step  `td = self.env.reset(batch)` … `td = self.augment(td)`",
             augments_reset_td(ex, "rl4co/models/zoo/pomo/model.py", "POMO.shared_step"))
    ex.probe("augSymncoAugmentsResetTd", "Bool", "true",
             "models/zoo/symnco/model.py:SymNCO.shared_step  `td = self.env.reset(batch)` … `td = self.augment(td)`",
             augments_reset_td(ex, "rl4co/models/zoo/symnco/model.py", "SymNCO.shared_step"))
    ex.probe("augDefaultFeats", "List String", '["locs"]', "data/transforms.py:StateAugmentation.__init__  default `self.feats`", default_feats(ex))
    ex.probe("augResetCoordKeys", "List (String × List String)", '[("tsp", ["locs"]), ("cvrp", ["locs"]), ("sdvrp", ["locs"]), ("op", ["locs"]), ("pctsp", ["locs"]), ("pdp", ["locs"]), ("mtsp", ["locs"]), ("cvrptw", ["locs"])]',
             "coordinate-bearing keys of the TensorDict each env's `_reset` builds", reset_coord_keys(ex))
