"""AST probes of the `aug` family (C15): the sign / permutation tables of the coordinate
augmentations in rl4co/data/transforms.py.

  augDihedralTable   the eight `(±x|±y, ±y|±x)` pairs of `dihedral_8_augmentation`, in the order in which
                     `aug_xy = torch.cat((z0, …, z7), dim=0)` concatenates them.  One output coordinate
                     is encoded `(useY, hasOne, neg)`:  x ↦ (F,F,F)   1 - x ↦ (F,T,T)   1 + x ↦ (F,T,F)
                     -x ↦ (F,F,T)   (same with useY = T for y).
  augRotTable        the rotation of `symmetric_transform`: rows x', y', each a sum of two terms
                     `(useSin, useY, neg)` = ± (cos|sin)(phi) * (x|y).
  augOffsetSigns     ((x pre-shift is `- offset`, y pre-shift is `- offset`), final shift is `- offset`)
  augReflectCmp      operator of `phi > 2 * math.pi`
  augPhiMul, augReflectMul   the integer factors of pi in `torch.rand(..) * 4 * math.pi` and `2 * math.pi`

Anything the patterns do not recognise is a pattern-miss (committed default + correspondence only).
"""
from __future__ import annotations

import ast

REL = "rl4co/data/transforms.py"


def _b(v: bool) -> str:
    return "true" if v else "false"


def _trip(t) -> str:
    return "(" + ", ".join(_b(v) for v in t) + ")"


def _assigns(fn):
    out = {}
    for n in ast.walk(fn):
        if isinstance(n, ast.Assign) and len(n.targets) == 1 and isinstance(n.targets[0], ast.Name):
            out[n.targets[0].id] = n.value
    return out


def _is_one(n) -> bool:
    return isinstance(n, ast.Constant) and type(n.value) in (int, float) and n.value == 1


def _coord(e, xname, yname):
    """(useY, hasOne, neg) of an output-coordinate expression, or None."""

    def var(n):
        if isinstance(n, ast.Name) and n.id in (xname, yname):
            return n.id == yname
        return None

    u = var(e)
    if u is not None:
        return (u, False, False)
    if isinstance(e, ast.UnaryOp) and isinstance(e.op, ast.USub) and var(e.operand) is not None:
        return (var(e.operand), False, True)
    if isinstance(e, ast.BinOp):
        if isinstance(e.op, ast.Sub) and _is_one(e.left) and var(e.right) is not None:
            return (var(e.right), True, True)
        if isinstance(e.op, ast.Add) and _is_one(e.left) and var(e.right) is not None:
            return (var(e.right), True, False)
        if isinstance(e.op, ast.Add) and _is_one(e.right) and var(e.left) is not None:
            return (var(e.left), True, False)
    return None


def _cat_args(call):
    """elements of `torch.cat((a, b, ...), dim=..)`"""
    if not (isinstance(call, ast.Call) and isinstance(call.func, ast.Attribute) and call.func.attr == "cat"):
        return None
    if not call.args or not isinstance(call.args[0], (ast.Tuple, ast.List)):
        return None
    return list(call.args[0].elts)


def dihedral_table(ex):
    def run():
        tree = ex.parse(REL)
        fn = ex.find_function(tree, "dihedral_8_augmentation") if tree else None
        if fn is None:
            return None
        # x, y = xy.split(1, dim=2)
        names = None
        for n in ast.walk(fn):
            if (isinstance(n, ast.Assign) and isinstance(n.targets[0], ast.Tuple) and len(n.targets[0].elts) == 2
                    and isinstance(n.value, ast.Call) and isinstance(n.value.func, ast.Attribute)
                    and n.value.func.attr == "split"):
                a, b = n.targets[0].elts
                if isinstance(a, ast.Name) and isinstance(b, ast.Name):
                    names = (a.id, b.id)
        if names is None:
            return None
        asg = _assigns(fn)
        ret = [n for n in ast.walk(fn) if isinstance(n, ast.Return)]
        if len(ret) != 1:
            return None
        top = ret[0].value
        if isinstance(top, ast.Name):
            top = asg.get(top.id)
        order = _cat_args(top)
        if order is None:
            return None
        rows = []
        for z in order:
            e = asg.get(z.id) if isinstance(z, ast.Name) else z
            pair = _cat_args(e)
            if pair is None or len(pair) != 2:
                return None
            cx, cy = _coord(pair[0], *names), _coord(pair[1], *names)
            if cx is None or cy is None:
                return None
            rows.append(f"({_trip(cx)}, {_trip(cy)})")
        return "[" + ", ".join(rows) + "]"

    return run


def _trig_term(e, xname, yname):
    """± (cos|sin)(phi) * (x|y)  →  (useSin, useY, neg)"""
    neg = False
    if isinstance(e, ast.UnaryOp) and isinstance(e.op, ast.USub):
        neg, e = True, e.operand
    if not (isinstance(e, ast.BinOp) and isinstance(e.op, ast.Mult)):
        return None
    a, b = e.left, e.right
    if isinstance(a, ast.Name):
        a, b = b, a
    if not (isinstance(a, ast.Call) and isinstance(a.func, ast.Attribute) and a.func.attr in ("cos", "sin")):
        return None
    if not (isinstance(b, ast.Name) and b.id in (xname, yname)):
        return None
    return (a.func.attr == "sin", b.id == yname, neg)


def _row(e, xname, yname):
    if not (isinstance(e, ast.BinOp) and isinstance(e.op, (ast.Add, ast.Sub))):
        return None
    t1, t2 = _trig_term(e.left, xname, yname), _trig_term(e.right, xname, yname)
    if t1 is None or t2 is None:
        return None
    if isinstance(e.op, ast.Sub):
        t2 = (t2[0], t2[1], not t2[2])
    return f"({_trip(t1)}, {_trip(t2)})"


def _sym_fn(ex):
    tree = ex.parse(REL)
    return ex.find_function(tree, "symmetric_transform") if tree else None


def rot_table(ex):
    def run():
        fn = _sym_fn(ex)
        if fn is None:
            return None
        asg = _assigns(fn)
        # xy = torch.cat((x_prime, y_prime), dim=-1): which names are the rows, in which order
        pair = None
        for n in ast.walk(fn):
            if not isinstance(n, ast.Assign):
                continue
            els = _cat_args(n.value)
            if els is not None and len(els) == 2 and all(isinstance(t, ast.Name) for t in els):
                pair = (els[0].id, els[1].id)
        if pair is None or pair[0] not in asg or pair[1] not in asg:
            return None
        args = [a.arg for a in fn.args.args]
        if len(args) < 2:
            return None
        r1, r2 = _row(asg[pair[0]], args[0], args[1]), _row(asg[pair[1]], args[0], args[1])
        if r1 is None or r2 is None:
            return None
        return f"({r1}, {r2})"

    return run


def offset_signs(ex):
    def run():
        fn = _sym_fn(ex)
        if fn is None:
            return None
        args = [a.arg for a in fn.args.args]
        pre = None
        for n in ast.walk(fn):
            # x, y = x - offset, y - offset
            if (isinstance(n, ast.Assign) and isinstance(n.targets[0], ast.Tuple) and isinstance(n.value, ast.Tuple)
                    and len(n.value.elts) == 2):
                sg = []
                for t, v, nm in zip(n.targets[0].elts, n.value.elts, args[:2]):
                    if not (isinstance(t, ast.Name) and t.id == nm and isinstance(v, ast.BinOp)
                            and isinstance(v.op, (ast.Add, ast.Sub)) and isinstance(v.left, ast.Name) and v.left.id == nm
                            and isinstance(v.right, ast.Name) and v.right.id == "offset"):
                        return None
                    sg.append(isinstance(v.op, ast.Sub))
                pre = sg
        ret = [n for n in ast.walk(fn) if isinstance(n, ast.Return)]
        if pre is None or len(ret) != 1:
            return None
        r = ret[0].value
        if not (isinstance(r, ast.BinOp) and isinstance(r.op, (ast.Add, ast.Sub)) and isinstance(r.right, ast.Name)
                and r.right.id == "offset"):
            return None
        return f"(({_b(pre[0])}, {_b(pre[1])}), {_b(isinstance(r.op, ast.Sub))})"

    return run


def pi_factor(ex, func, pick):
    """integer k of the (single) product `… * k * math.pi` / `k * math.pi` selected by `pick(node)`"""

    def is_pi(n):
        return isinstance(n, ast.Attribute) and n.attr == "pi"

    def run():
        tree = ex.parse(REL)
        fn = ex.find_function(tree, func) if tree else None
        if fn is None:
            return None
        hits = []
        for n in ast.walk(fn):
            if isinstance(n, ast.BinOp) and isinstance(n.op, ast.Mult) and is_pi(n.right):
                l = n.left
                k = None
                if isinstance(l, ast.Constant) and isinstance(l.value, int):
                    k, rest = l.value, None
                elif (isinstance(l, ast.BinOp) and isinstance(l.op, ast.Mult) and isinstance(l.right, ast.Constant)
                      and isinstance(l.right.value, int)):
                    k, rest = l.right.value, l.left
                if k is not None and k >= 0 and pick(rest):
                    hits.append(k)
        return str(hits[0]) if len(hits) == 1 else None

    return run


def register(ex):
    ex.probe("augDihedralTable", "List ((Bool × Bool × Bool) × (Bool × Bool × Bool))",
             "[((false, false, false), (true, false, false)), ((false, true, true), (true, false, false)), "
             "((false, false, false), (true, true, true)), ((false, true, true), (true, true, true)), "
             "((true, false, false), (false, false, false)), ((true, true, true), (false, false, false)), "
             "((true, false, false), (false, true, true)), ((true, true, true), (false, true, true))]",
             "data/transforms.py:dihedral_8_augmentation  z0..z7 as (useY, hasOne, neg) per output coordinate",
             dihedral_table(ex))
    ex.probe("augRotTable", "((Bool × Bool × Bool) × (Bool × Bool × Bool)) × ((Bool × Bool × Bool) × (Bool × Bool × Bool))",
             "(((false, false, false), (true, true, true)), ((true, false, false), (false, true, false)))",
             "data/transforms.py:symmetric_transform  x' = cos*x - sin*y ; y' = sin*x + cos*y as (useSin, useY, neg) terms",
             rot_table(ex))
    ex.probe("augOffsetSigns", "(Bool × Bool) × Bool", "((true, true), false)",
             "data/transforms.py:symmetric_transform  `x, y = x - offset, y - offset` … `return xy + offset` (true = minus)",
             offset_signs(ex))
    ex.probe("augReflectCmp", "Cmp", ".gt", "data/transforms.py:symmetric_transform  `mask = phi > 2 * math.pi`",
             ex.cmp_probe(REL, "symmetric_transform", "phi", "2 * math.pi"))
    ex.probe("augReflectMul", "Nat", "2", "data/transforms.py:symmetric_transform  the 2 of `2 * math.pi`",
             pi_factor(ex, "symmetric_transform", lambda rest: rest is None))
    ex.probe("augPhiMul", "Nat", "4", "data/transforms.py:symmetric_augmentation  the 4 of `torch.rand(..) * 4 * math.pi`",
             pi_factor(ex, "symmetric_augmentation", lambda rest: rest is not None))
