"""AST probes of the prize-collecting routing family (OP, PCTSP/SPCTSP): decision-critical comparison
operators and the `depot forced open` statement, regenerated into `Rl4co/Generated/Params.lean`."""
OP = "rl4co/envs/routing/op/env.py"
PC = "rl4co/envs/routing/pctsp/env.py"


def register(ex):
    ast = ex.ast

    def depot_forced_open():
        tree = ex.parse(OP)
        fn = ex.find_function(tree, "OPEnv.get_action_mask") if tree else None
        if fn is None:
            return None
        for n in ast.walk(fn):
            if isinstance(n, ast.Assign) and len(n.targets) == 1 and ex.norm(n.targets[0]) == "action_mask[...,0]":
                if isinstance(n.value, ast.Constant) and n.value.value in (1, True):
                    return "true"
        return None  # statement not recognised: pattern-miss (the correspondence carries the tie)

    ex.probe("opMaskLenCmp", "Cmp", ".gt",
             "op/env.py:get_action_mask  `tour_length + dist(current, j) > max_length[j]`",
             ex.cmp_probe(OP, "OPEnv.get_action_mask",
                          "td['tour_length'][..., None] + (td['locs'] - current_loc).norm(p=2, dim=-1)",
                          "td['max_length']"))
    ex.probe("opDepotForcedOpen", "Bool", "true",
             "op/env.py:get_action_mask  `action_mask[..., 0] = 1`", depot_forced_open)
    ex.probe("opDoneCmp", "Cmp", ".gt", "op/env.py:_step  `(current_node == 0) & (td['i'] > 0)`",
             ex.cmp_probe(OP, "OPEnv._step", "td['i']", "0"))
    ex.probe("opCheckLenCmp", "Cmp", ".le",
             "op/env.py:check_solution_validity  `length[..., None] <= max_length + 1e-5`",
             ex.cmp_probe(OP, "OPEnv.check_solution_validity", "length[..., None]", "max_length + 1e-05"))
    ex.probe("pctspMaskPrizeCmp", "Cmp", ".lt", "pctsp/env.py:get_action_mask  `cur_total_prize < 1.0`",
             ex.cmp_probe(PC, "PCTSPEnv.get_action_mask", "td['cur_total_prize']", "1.0"))
    ex.probe("pctspMaskCountCmp", "Cmp", ".lt",
             "pctsp/env.py:get_action_mask  `visited[..., 1:].int().sum(-1) < visited[..., 1:].size(-1)`",
             ex.cmp_probe(PC, "PCTSPEnv.get_action_mask", "td['visited'][..., 1:].int().sum(-1)",
                          "td['visited'][..., 1:].size(-1)"))
    ex.probe("pctspDoneCmp", "Cmp", ".gt", "pctsp/env.py:_step  `(td['i'] > 0) & (current_node == 0)`",
             ex.cmp_probe(PC, "PCTSPEnv._step", "td['i']", "0"))
    ex.probe("pctspCheckPrizeCmp", "Cmp", ".ge",
             "pctsp/env.py:check_solution_validity  `p.sum(-1) >= 1 - 1e-5`",
             ex.cmp_probe(PC, "PCTSPEnv.check_solution_validity", "p.sum(-1)", "1 - 1e-05"))

    # ---- constants and index expressions -----------------------------------------------------------------
    from fractions import Fraction

    def frac(v):
        fr = Fraction(str(v))
        return f"({fr.numerator}, {fr.denominator})"

    def func(rel, qual):
        tree = ex.parse(rel)
        return ex.find_function(tree, qual) if tree else None

    def special_case(rel, qual, what):
        """`if actions.size(-1) == 1:` at the top of `_get_reward`: comparison operator / constant"""
        def run():
            fn = func(rel, qual)
            if fn is None:
                return None
            for n in ast.walk(fn):
                if (isinstance(n, ast.If) and isinstance(n.test, ast.Compare) and len(n.test.ops) == 1
                        and ex.norm(n.test.left) == "actions.size(-1)" and isinstance(n.test.comparators[0], ast.Constant)
                        and isinstance(n.test.comparators[0].value, int) and type(n.test.ops[0]) in ex.CMP):
                    return "." + ex.CMP[type(n.test.ops[0])] if what == "cmp" else str(n.test.comparators[0].value)
            return None
        return run

    def compare_const(rel, qual, left):
        """numeric literal `c` of the comparison `left <op> c`"""
        L = left.replace(" ", "").replace('"', "'")
        def run():
            fn = func(rel, qual)
            if fn is None:
                return None
            hits = [n for n in ast.walk(fn) if isinstance(n, ast.Compare) and len(n.ops) == 1 and ex.norm(n.left) == L
                    and isinstance(n.comparators[0], ast.Constant) and isinstance(n.comparators[0].value, (int, float))]
            return frac(hits[0].comparators[0].value) if len(hits) == 1 else None
        return run

    def compare_binop_consts(rel, qual, left, which):
        """`left <op> a - b` (or `x + b`): the literal a (which=0) or b (which=1, signed by the operator)"""
        L = left.replace(" ", "").replace('"', "'")
        def run():
            fn = func(rel, qual)
            if fn is None:
                return None
            for n in ast.walk(fn):
                if isinstance(n, ast.Compare) and len(n.ops) == 1 and ex.norm(n.left) == L and isinstance(n.comparators[0], ast.BinOp):
                    b = n.comparators[0]
                    if not isinstance(b.op, (ast.Add, ast.Sub)) or not isinstance(b.right, ast.Constant):
                        return None
                    if which == 0:
                        return frac(b.left.value) if isinstance(b.left, ast.Constant) else None
                    fr = Fraction(str(b.right.value)) * (-1 if isinstance(b.op, ast.Sub) else 1)
                    return f"({fr.numerator}, {fr.denominator})"
            return None
        return run

    def reset_margin():
        """`td["max_length"][..., None] - <dist>.norm(...) - 1e-6` in `_reset`: the signed constant added to
        `max_length − dist` (the distance term must be subtracted, otherwise pattern-miss)"""
        fn = func(OP, "OPEnv._reset")
        if fn is None:
            return None
        for n in ast.walk(fn):
            if (isinstance(n, ast.BinOp) and isinstance(n.op, (ast.Add, ast.Sub)) and isinstance(n.right, ast.Constant)
                    and isinstance(n.left, ast.BinOp) and isinstance(n.left.op, ast.Sub)
                    and ex.norm(n.left.left) == "td['max_length'][...,None]" and "norm(" in ex.norm(n.left.right)):
                fr = Fraction(str(n.right.value)) * (-1 if isinstance(n.op, ast.Sub) else 1)
                return f"({fr.numerator}, {fr.denominator})"
        return None

    def penalty_slice():
        """`td["penalty"][..., lo:hi].sum(-1)` in `_get_reward`: (lo, number of trailing entries cut off)"""
        fn = func(PC, "PCTSPEnv._get_reward")
        if fn is None:
            return None
        hits = []
        for n in ast.walk(fn):
            if (isinstance(n, ast.Subscript) and ex.norm(n.value) == "td['penalty']" and isinstance(n.slice, ast.Tuple)
                    and len(n.slice.elts) == 2 and isinstance(n.slice.elts[1], ast.Slice)):
                sl = n.slice.elts[1]
                lo = 0 if sl.lower is None else (sl.lower.value if isinstance(sl.lower, ast.Constant) else None)
                if sl.upper is None:
                    cut = 0
                elif isinstance(sl.upper, ast.UnaryOp) and isinstance(sl.upper.op, ast.USub) and isinstance(sl.upper.operand, ast.Constant):
                    cut = sl.upper.operand.value
                else:
                    cut = None
                if isinstance(lo, int) and lo >= 0 and isinstance(cut, int) and sl.step is None:
                    hits.append((lo, cut))
        return f"({hits[0][0]}, {hits[0][1]})" if len(hits) == 1 else None

    ex.probe("opRewardSpecialCmp", "Cmp", ".eq", "op/env.py:_get_reward  `if actions.size(-1) == 1:` (operator)",
             special_case(OP, "OPEnv._get_reward", "cmp"))
    ex.probe("opRewardSpecialWidth", "Nat", "1", "op/env.py:_get_reward  `if actions.size(-1) == 1:` (constant)",
             special_case(OP, "OPEnv._get_reward", "const"))
    ex.probe("opResetMargin", "Int × Int", "(-1, 1000000)",
             "op/env.py:_reset  `max_length[..., None] - dist_to_depot - 1e-6` (signed constant, num/den)", reset_margin)
    ex.probe("opCheckTol", "Int × Int", "(1, 100000)",
             "op/env.py:check_solution_validity  `length[..., None] <= max_length + 1e-5` (tolerance, num/den)",
             compare_binop_consts(OP, "OPEnv.check_solution_validity", "length[..., None]", 1))
    ex.probe("pctspRewardSpecialCmp", "Cmp", ".eq", "pctsp/env.py:_get_reward  `if actions.size(-1) == 1:` (operator)",
             special_case(PC, "PCTSPEnv._get_reward", "cmp"))
    ex.probe("pctspRewardSpecialWidth", "Nat", "1", "pctsp/env.py:_get_reward  `if actions.size(-1) == 1:` (constant)",
             special_case(PC, "PCTSPEnv._get_reward", "const"))
    ex.probe("pctspMaskPrizeConst", "Int × Int", "(1, 1)",
             "pctsp/env.py:get_action_mask  `cur_total_prize < 1.0` (constant, num/den)",
             compare_const(PC, "PCTSPEnv.get_action_mask", "td['cur_total_prize']"))
    ex.probe("pctspPenaltySlice", "Nat × Nat", "(1, 0)",
             "pctsp/env.py:_get_reward  `td['penalty'][..., 1:].sum(-1)` (first index, trailing entries cut off)", penalty_slice)
    ex.probe("pctspCheckPrizeBase", "Int × Int", "(1, 1)",
             "pctsp/env.py:check_solution_validity  `p.sum(-1) >= 1 - 1e-5` (required prize, num/den)",
             compare_binop_consts(PC, "PCTSPEnv.check_solution_validity", "p.sum(-1)", 0))
    ex.probe("pctspCheckTol", "Int × Int", "(-1, 100000)",
             "pctsp/env.py:check_solution_validity  `p.sum(-1) >= 1 - 1e-5` (signed tolerance, num/den)",
             compare_binop_consts(PC, "PCTSPEnv.check_solution_validity", "p.sum(-1)", 1))

    # ---- which prize row is used where (PCTSP / SPCTSP bookkeeping) -----------------------------------------
    SPC = "rl4co/envs/routing/spctsp/env.py"

    def real_prize_selection(which):
        """`real_prize = td["stochastic_prize"] if self.stochastic else td["deterministic_prize"]` in `_reset`:
        which=0 → the stochastic branch reads 'stochastic_prize'; which=1 → the other branch reads 'deterministic_prize'"""
        def run():
            fn = func(PC, "PCTSPEnv._reset")
            if fn is None:
                return None
            for n in ast.walk(fn):
                if (isinstance(n, ast.Assign) and len(n.targets) == 1 and ex.norm(n.targets[0]) == "real_prize"
                        and isinstance(n.value, ast.IfExp) and ex.norm(n.value.test) == "self.stochastic"):
                    key = {"td['stochastic_prize']": "sto", "td['deterministic_prize']": "det"}
                    b, o = key.get(ex.norm(n.value.body)), key.get(ex.norm(n.value.orelse))
                    if b is None or o is None:
                        return None
                    return ("true" if b == "sto" else "false") if which == 0 else ("true" if o == "det" else "false")
            return None
        return run

    def gathers_real_prize(qual, target):
        """the statement assigning `target` reads td['real_prize'] (true) / another prize row (false)"""
        def run():
            fn = func(PC, qual)
            if fn is None:
                return None
            for n in ast.walk(fn):
                if isinstance(n, ast.Assign) and len(n.targets) == 1 and ex.norm(n.targets[0]) == target:
                    txt = ex.norm(n.value)
                    if "td['real_prize']" in txt:
                        return "true"
                    if "prize']" in txt:
                        return "false"
            return None
        return run

    def class_flag(rel, cls):
        def run():
            tree = ex.parse(rel)
            c = ex.find_function(tree, cls) if tree else None
            if c is None:
                return None
            for n in c.body:
                if (isinstance(n, ast.Assign) and len(n.targets) == 1 and ex.norm(n.targets[0]) == "_stochastic"
                        and isinstance(n.value, ast.Constant) and isinstance(n.value.value, bool)):
                    return "true" if n.value.value else "false"
            return None
        return run

    ex.probe("pctspStoBranchReadsSto", "Bool", "true",
             "pctsp/env.py:_reset  `real_prize = td['stochastic_prize'] if self.stochastic else …` (stochastic branch)",
             real_prize_selection(0))
    ex.probe("pctspDetBranchReadsDet", "Bool", "true",
             "pctsp/env.py:_reset  `real_prize = … if self.stochastic else td['deterministic_prize']` (other branch)",
             real_prize_selection(1))
    ex.probe("pctspStepGathersReal", "Bool", "true",
             "pctsp/env.py:_step  `cur_total_prize = … + gather_by_index(td['real_prize'], current_node)`",
             gathers_real_prize("PCTSPEnv._step", "cur_total_prize"))
    ex.probe("pctspCheckGathersReal", "Bool", "true",
             "pctsp/env.py:check_solution_validity  `prize = td['real_prize'][..., 1:]`",
             gathers_real_prize("PCTSPEnv.check_solution_validity", "prize"))
    ex.probe("pctspClassStochastic", "Bool", "false", "pctsp/env.py:PCTSPEnv  `_stochastic = False`", class_flag(PC, "PCTSPEnv"))
    ex.probe("spctspClassStochastic", "Bool", "true", "spctsp/env.py:SPCTSPEnv  `_stochastic = True`", class_flag(SPC, "SPCTSPEnv"))

    # ---- expression-level translation of the straight-line arithmetic --------------------------------------
    # A selected Python expression is translated into a Lean lambda over named leaves (operators, operand order and
    # parenthesisation preserved).  Anything outside the small language (+ − * unary − | & ~, listed leaves, integer
    # literals, float literals bound to a leaf) makes the probe a pattern-miss (committed default kept, no alarm).
    class Untranslatable(Exception):
        pass

    def tr(node, leaves):
        txt = ex.norm(node)
        for pat, name in leaves:
            if (pat(txt, node) if callable(pat) else txt == pat.replace(" ", "").replace('"', "'")):
                return name
        if isinstance(node, ast.BinOp):
            op = {ast.Add: "+", ast.Sub: "-", ast.Mult: "*", ast.BitOr: "||", ast.BitAnd: "&&"}.get(type(node.op))
            if op is None:
                raise Untranslatable(txt)
            return f"({tr(node.left, leaves)} {op} {tr(node.right, leaves)})"
        if isinstance(node, ast.UnaryOp) and isinstance(node.op, ast.USub):
            return f"(-{tr(node.operand, leaves)})"
        if isinstance(node, ast.UnaryOp) and isinstance(node.op, ast.Invert):
            return f"(!{tr(node.operand, leaves)})"
        if isinstance(node, ast.Constant) and isinstance(node.value, int) and not isinstance(node.value, bool):
            return str(node.value)
        raise Untranslatable(txt)

    def expr_probe(rel, qual, select, leaves, params):
        def run():
            fn = func(rel, qual)
            if fn is None:
                return None
            try:
                node = select(fn)
                if node is None:
                    return None
                body = tr(node, leaves)
            except Untranslatable:
                return None
            if body.startswith("(") and body.endswith(")"):
                body = body[1:-1]
            return f"fun {' '.join(params)} => {body}"
        return run

    def assigned(target):
        def sel(fn):
            hits = [n.value for n in ast.walk(fn) if isinstance(n, ast.Assign) and len(n.targets) == 1
                    and ex.norm(n.targets[0]) == target]
            return hits[0] if len(hits) == 1 else None
        return sel

    def returned_last(fn):
        rets = [n for n in fn.body if isinstance(n, ast.Return)]
        return rets[-1].value if rets else None

    def dict_value(key):
        def sel(fn):
            for n in ast.walk(fn):
                if isinstance(n, ast.Dict):
                    for k, v in zip(n.keys, n.values):
                        if isinstance(k, ast.Constant) and k.value == key:
                            return v
            return None
        return sel

    def compare_side(left_prefix, side):
        def sel(fn):
            for n in ast.walk(fn):
                if isinstance(n, ast.Compare) and len(n.ops) == 1 and ex.norm(n.left).startswith(left_prefix):
                    return n.left if side == 0 else n.comparators[0]
            return None
        return sel

    isnorm = lambda t, n: isinstance(n, ast.Call) and isinstance(n.func, ast.Attribute) and n.func.attr == "norm"
    isgather = lambda key: (lambda t, n: isinstance(n, ast.Call) and t.startswith("gather_by_index(td['" + key + "']"))
    isfloat = lambda t, n: isinstance(n, ast.Constant) and isinstance(n.value, float)
    I3, I2, I1 = "Int → Int → Int → Int", "Int → Int → Int", "Int → Int"

    ex.probe("opStepLenExpr", I2, "fun len d => len + d",
             "op/env.py:_step  `tour_length = td['tour_length'] + (current_loc - previus_loc).norm(p=2, dim=-1)`",
             expr_probe(OP, "OPEnv._step", assigned("tour_length"), [("td['tour_length']", "len"), (isnorm, "d")], ["len", "d"]))
    ex.probe("opStepPrizeExpr", I2, "fun tot p => tot + p",
             "op/env.py:_step  `current_total_prize = td['current_total_prize'] + gather_by_index(td['prize'], current_node, dim=-1)`",
             expr_probe(OP, "OPEnv._step", assigned("current_total_prize"),
                        [("td['current_total_prize']", "tot"), (isgather("prize"), "p")], ["tot", "p"]))
    ex.probe("opStepCounterExpr", "Nat → Nat", "fun k => k + 1", "op/env.py:_step  `'i': td['i'] + 1`",
             expr_probe(OP, "OPEnv._step", dict_value("i"), [("td['i']", "k")], ["k"]))
    ex.probe("opMaskLenExpr", I2, "fun len d => len + d",
             "op/env.py:get_action_mask  left side of `tour_length[..., None] + ‖locs − current_loc‖ > max_length`",
             expr_probe(OP, "OPEnv.get_action_mask", compare_side("td['tour_length']", 0),
                        [("td['tour_length'][...,None]", "len"), (isnorm, "d")], ["len", "d"]))
    ex.probe("opMaskOrExpr", "Bool → Bool → Bool → Bool", "fun v v0 e => (v || v0) || e",
             "op/env.py:get_action_mask  `mask = td['visited'] | td['visited'][..., 0:1] | exceeds_length`",
             expr_probe(OP, "OPEnv.get_action_mask", assigned("mask"),
                        [("td['visited']", "v"), ("td['visited'][...,0:1]", "v0"), ("exceeds_length", "e")], ["v", "v0", "e"]))
    ex.probe("opResetBudgetExpr", I3, "fun L d eps => (L - d) - eps",
             "op/env.py:_reset  `'max_length': td['max_length'][..., None] - ‖depot − locs‖ - 1e-6` (literal bound to eps)",
             expr_probe(OP, "OPEnv._reset", dict_value("max_length"),
                        [("td['max_length'][...,None]", "L"), (isnorm, "d"), (isfloat, "eps")], ["L", "d", "eps"]))
    ex.probe("pctspStepPrizeExpr", I2, "fun tot p => tot + p",
             "pctsp/env.py:_step  `cur_total_prize = td['cur_total_prize'] + gather_by_index(td['real_prize'], current_node)`",
             expr_probe(PC, "PCTSPEnv._step", assigned("cur_total_prize"),
                        [("td['cur_total_prize']", "tot"), (lambda t, n: isinstance(n, ast.Call) and t.startswith("gather_by_index(td['"), "p")], ["tot", "p"]))
    ex.probe("pctspStepPenaltyExpr", I2, "fun tot p => tot + p",
             "pctsp/env.py:_step  `cur_total_penalty = td['cur_total_penalty'] + gather_by_index(td['penalty'], current_node)`",
             expr_probe(PC, "PCTSPEnv._step", assigned("cur_total_penalty"),
                        [("td['cur_total_penalty']", "tot"), (isgather("penalty"), "p")], ["tot", "p"]))
    ex.probe("pctspStepCounterExpr", "Nat → Nat", "fun k => k + 1", "pctsp/env.py:_step  `'i': td['i'] + 1`",
             expr_probe(PC, "PCTSPEnv._step", dict_value("i"), [("td['i']", "k")], ["k"]))
    ex.probe("pctspMaskOrExpr", "Bool → Bool → Bool", "fun v v0 => v || v0",
             "pctsp/env.py:get_action_mask  `mask = td['visited'] | td['visited'][..., 0:1]`",
             expr_probe(PC, "PCTSPEnv.get_action_mask", assigned("mask"),
                        [("td['visited']", "v"), ("td['visited'][...,0:1]", "v0")], ["v", "v0"]))
    ex.probe("pctspRewardExpr", I3, "fun saved length total => saved - (length + total)",
             "pctsp/env.py:_get_reward  `return saved_penalty.sum(-1) - (length + td['penalty'][..., 1:].sum(-1))`",
             expr_probe(PC, "PCTSPEnv._get_reward", returned_last,
                        [("saved_penalty.sum(-1)", "saved"), ("length", "length"),
                         (lambda t, n: isinstance(n, ast.Call) and t.startswith("td['penalty'][") and t.endswith(".sum(-1)"), "total")], ["saved", "length", "total"]))
