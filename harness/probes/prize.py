"""AST probes of the prize-collecting routing family (OP, PCTSP/SPCTSP): decision-critical comparison
operators and the `depot forced open` statement, regenerated into `Rl4co/Generated/Params.lean`."""
OP = "rl4co/envs/routing/op/env.py"
PC = "rl4co/envs/routing/pctsp/env.py"


def register(ex):
    ast = ex.ast

    def depot_forced_open():
        tree = ex.parse(OP)
        fn = ex.find_function(tree, "OPEnv.get_action_mask") if tree else None
        if fn is None:
            return None
        for n in ast.walk(fn):
            if isinstance(n, ast.Assign) and len(n.targets) == 1 and ex.norm(n.targets[0]) == "action_mask[...,0]":
                if isinstance(n.value, ast.Constant) and n.value.value in (1, True):
                    return "true"
        return None  # statement not recognised: pattern-miss (the correspondence carries the tie)

    ex.probe("opMaskLenCmp", "Cmp", ".gt",
             "op/env.py:get_action_mask  `tour_length + dist(current, j) > max_length[j]`",
             ex.cmp_probe(OP, "OPEnv.get_action_mask",
                          "td['tour_length'][..., None] + (td['locs'] - current_loc).norm(p=2, dim=-1)",
                          "td['max_length']"))
    ex.probe("opDepotForcedOpen", "Bool", "true",
             "op/env.py:get_action_mask  `action_mask[..., 0] = 1`", depot_forced_open)
    ex.probe("opDoneCmp", "Cmp", ".gt", "op/env.py:_step  `(current_node == 0) & (td['i'] > 0)`",
             ex.cmp_probe(OP, "OPEnv._step", "td['i']", "0"))
    ex.probe("opCheckLenCmp", "Cmp", ".le",
             "op/env.py:check_solution_validity  `length[..., None] <= max_length + 1e-5`",
             ex.cmp_probe(OP, "OPEnv.check_solution_validity", "length[..., None]", "max_length + 1e-05"))
    ex.probe("pctspMaskPrizeCmp", "Cmp", ".lt", "pctsp/env.py:get_action_mask  `cur_total_prize < 1.0`",
             ex.cmp_probe(PC, "PCTSPEnv.get_action_mask", "td['cur_total_prize']", "1.0"))
    ex.probe("pctspMaskCountCmp", "Cmp", ".lt",
             "pctsp/env.py:get_action_mask  `visited[..., 1:].int().sum(-1) < visited[..., 1:].size(-1)`",
             ex.cmp_probe(PC, "PCTSPEnv.get_action_mask", "td['visited'][..., 1:].int().sum(-1)",
                          "td['visited'][..., 1:].size(-1)"))
    ex.probe("pctspDoneCmp", "Cmp", ".gt", "pctsp/env.py:_step  `(td['i'] > 0) & (current_node == 0)`",
             ex.cmp_probe(PC, "PCTSPEnv._step", "td['i']", "0"))
    ex.probe("pctspCheckPrizeCmp", "Cmp", ".ge",
             "pctsp/env.py:check_solution_validity  `p.sum(-1) >= 1 - 1e-5`",
             ex.cmp_probe(PC, "PCTSPEnv.check_solution_validity", "p.sum(-1)", "1 - 1e-05"))
