"""AST probes of the multi-agent routing family (mTSP, MDCPDP): the comparisons that decide whether the
depot may be revisited (mTSP: an agent is left) and whether a further pickup fits / the vehicle may return
(MDCPDP).  The Lean models take the operators as parameters (`Rl4co/Env/Mtsp.lean`, `Rl4co/Env/Mdcpdp.lean`);
the lemmas `Rl4co.Mtsp.agentLeft_eq`, `Rl4co.Mdcpdp.capFlag_eq`, `Rl4co.Mdcpdp.carryFlag_eq` state the
operator the theorems need and stop compiling when it changes."""


def register(ex):
    M = "rl4co/envs/routing/mtsp/env.py"
    D = "rl4co/envs/routing/mdcpdp/env.py"
    ex.probe("mtspAgentCmp", "Cmp", ".lt", "mtsp/env.py:MTSPEnv._step  `td['agent_idx'] < td['num_agents'] - 1`",
             ex.cmp_probe(M, "MTSPEnv._step", "td['agent_idx']", "td['num_agents'] - 1"))
    ex.probe("mdcpdpCapCmp", "Cmp", ".ge", "mdcpdp/env.py:MDCPDPEnv._step  `current_carry >= current_capacity`",
             ex.cmp_probe(D, "MDCPDPEnv._step", "current_carry", "current_capacity"))
    ex.probe("mdcpdpCarryCmp", "Cmp", ".gt", "mdcpdp/env.py:MDCPDPEnv._step  `current_carry > 0`",
             ex.cmp_probe(D, "MDCPDPEnv._step", "current_carry", "0"))
