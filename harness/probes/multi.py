"""AST probes of the multi-agent routing family (mTSP, MDCPDP): the comparison operators and index expressions that
decide the mask, the termination test and the length bookkeeping of the two `_step` functions, and the shape of the
capacity tensor the MDCPDP generator emits.  The Lean models (`Rl4co/Env/Mtsp.lean`, `Rl4co/Env/Mdcpdp.lean`) take them
as parameters; the lemmas named `…_eq` in `Rl4co/Proofs/Mtsp.lean` / `Rl4co/Proofs/Mdcpdp.lean` state the value the
theorems need and stop compiling when the source changes it.  A statement that is not found (harmless rewrite) gives
`pattern-miss` and the committed default."""
import ast


def register(ex):
    M = "rl4co/envs/routing/mtsp/env.py"
    D = "rl4co/envs/routing/mdcpdp/env.py"
    G = "rl4co/envs/routing/mdcpdp/generator.py"

    def func(rel, qual):
        tree = ex.parse(rel)
        return ex.find_function(tree, qual) if tree else None

    def compares(node):
        """single-operator comparisons below `node`, in source order"""
        hits = [n for n in ast.walk(node) if isinstance(n, ast.Compare) and len(n.ops) == 1 and type(n.ops[0]) in ex.CMP]
        return sorted(hits, key=lambda n: (n.lineno, n.col_offset))

    def nth_cmp(rel, qual, left, right, nth, of):
        """operator of the nth (source order) of exactly `of` comparisons `left <op> right` inside the function"""
        L, R = left.replace(" ", ""), right.replace(" ", "")

        def run():
            fn = func(rel, qual)
            if fn is None:
                return None
            hits = [c for c in compares(fn) if ex.norm(c.left) == L and ex.norm(c.comparators[0]) == R]
            return "." + ex.CMP[type(hits[nth].ops[0])] if len(hits) == of else None
        return run

    def assign_cmp(rel, qual, target, nth, of):
        """operator of the nth of exactly `of` comparisons in the value assigned to the name `target`"""
        def run():
            fn = func(rel, qual)
            if fn is None:
                return None
            vals = [n.value for n in ast.walk(fn) if isinstance(n, ast.Assign) and len(n.targets) == 1
                    and isinstance(n.targets[0], ast.Name) and n.targets[0].id == target]
            if len(vals) != 1:
                return None
            hits = compares(vals[0])
            return "." + ex.CMP[type(hits[nth].ops[0])] if len(hits) == of else None
        return run

    def open_block_cmp(nth):
        """operator of the nth of the two comparisons inside `if self.problem_mode == "open":` of MDCPDPEnv._step"""
        def run():
            fn = func(D, "MDCPDPEnv._step")
            if fn is None:
                return None
            blocks = [n for n in ast.walk(fn) if isinstance(n, ast.If) and "problem_mode" in ex.norm(n.test)]
            if len(blocks) != 1:
                return None
            hits = [c for st in blocks[0].body for c in compares(st)]
            return "." + ex.CMP[type(hits[nth].ops[0])] if len(hits) == 2 else None
        return run

    def pair_div():
        """k in `new_to_deliver = (current_node + num_loc // k) % (num_loc + num_depot)`"""
        fn = func(D, "MDCPDPEnv._step")
        if fn is None:
            return None
        for n in ast.walk(fn):
            if (isinstance(n, ast.Assign) and len(n.targets) == 1 and isinstance(n.targets[0], ast.Name)
                    and n.targets[0].id == "new_to_deliver"):
                v = n.value
                if (isinstance(v, ast.BinOp) and isinstance(v.op, ast.Mod) and ex.norm(v.right) == "num_loc+num_depot"
                        and isinstance(v.left, ast.BinOp) and isinstance(v.left.op, ast.Add)
                        and ex.norm(v.left.left) == "current_node"):
                    off = v.left.right
                    if (isinstance(off, ast.BinOp) and isinstance(off.op, ast.FloorDiv) and ex.norm(off.left) == "num_loc"
                            and isinstance(off.right, ast.Constant) and isinstance(off.right.value, int)):
                        return str(off.right.value)
        return None

    def gen_cap_per_depot():
        """last entry of `size=(*batch_size, X)` of the `torch.randint` that samples the capacity: `1` or `self.num_depot`"""
        fn = func(G, "MDCPDPGenerator._generate")
        if fn is None:
            return None
        for n in ast.walk(fn):
            if (isinstance(n, ast.Assign) and len(n.targets) == 1 and isinstance(n.targets[0], ast.Name)
                    and n.targets[0].id == "capacity" and isinstance(n.value, ast.Call)):
                for kw in n.value.keywords:
                    if kw.arg == "size" and isinstance(kw.value, ast.Tuple) and kw.value.elts:
                        last = ex.norm(kw.value.elts[-1])
                        if last == "1":
                            return "false"
                        if last == "self.num_depot":
                            return "true"
        return None

    def depot_on_visit():
        """`current_depot = torch.where(COND, current_node, current_depot)`: COND is `back_flag` (as coded: false) or the
        comparison `current_node < num_depot` (intended semantics: true)"""
        fn = func(D, "MDCPDPEnv._step")
        if fn is None:
            return None
        hits = []
        for n in ast.walk(fn):
            if (isinstance(n, ast.Assign) and len(n.targets) == 1 and isinstance(n.targets[0], ast.Name)
                    and n.targets[0].id == "current_depot" and isinstance(n.value, ast.Call)
                    and ex.norm(n.value.func) == "torch.where" and len(n.value.args) == 3
                    and ex.norm(n.value.args[1]) == "current_node" and ex.norm(n.value.args[2]) == "current_depot"):
                hits.append(ex.norm(n.value.args[0]))
        if len(hits) != 1:
            return None
        return {"back_flag": "false", "current_node<num_depot": "true", "(current_node<num_depot)": "true"}.get(hits[0])

    def pd_div():
        """k in `pd_split_idx = num_loc // k + num_depot`"""
        fn = func(D, "MDCPDPEnv._step")
        if fn is None:
            return None
        for n in ast.walk(fn):
            if (isinstance(n, ast.Assign) and len(n.targets) == 1 and isinstance(n.targets[0], ast.Name)
                    and n.targets[0].id == "pd_split_idx"):
                v = n.value
                if (isinstance(v, ast.BinOp) and isinstance(v.op, ast.Add) and ex.norm(v.right) == "num_depot"
                        and isinstance(v.left, ast.BinOp) and isinstance(v.left.op, ast.FloorDiv)
                        and ex.norm(v.left.left) == "num_loc" and isinstance(v.left.right, ast.Constant)
                        and isinstance(v.left.right.value, int)):
                    return str(v.left.right.value)
        return None

    def carry_cmp(which, nth, of):
        """operators of `current_carry += (...)` (AugAssign Add) / `current_carry -= (...)` (AugAssign Sub)"""
        def run():
            fn = func(D, "MDCPDPEnv._step")
            if fn is None:
                return None
            vals = [n.value for n in ast.walk(fn) if isinstance(n, ast.AugAssign) and isinstance(n.target, ast.Name)
                    and n.target.id == "current_carry" and isinstance(n.op, which)]
            if len(vals) != 1:
                return None
            hits = compares(vals[0])
            return "." + ex.CMP[type(hits[nth].ops[0])] if len(hits) == of else None
        return run

    def depot_leg_cmp(nth):
        """operators of the FIRST `current_step_length = torch.where(A & B, 0, current_step_length)` (the leg between two depots)"""
        def run():
            fn = func(D, "MDCPDPEnv._step")
            if fn is None:
                return None
            vals = [n for n in ast.walk(fn) if isinstance(n, ast.Assign) and len(n.targets) == 1
                    and isinstance(n.targets[0], ast.Name) and n.targets[0].id == "current_step_length"
                    and isinstance(n.value, ast.Call) and ex.norm(n.value.func) == "torch.where"]
            blocks = [b for b in ast.walk(fn) if isinstance(b, ast.If) and "problem_mode" in ex.norm(b.test)]
            inside = {id(x) for b in blocks for st in b.body for x in ast.walk(st)}
            vals = sorted([n for n in vals if id(n) not in inside], key=lambda n: n.lineno)
            if len(vals) != 1:
                return None
            hits = compares(vals[0].value.args[0])
            return "." + ex.CMP[type(hits[nth].ops[0])] if len(hits) == 2 else None
        return run

    ex.probe("mdcpdpPdDiv", "Nat", "2", "mdcpdp/env.py:MDCPDPEnv._step  `pd_split_idx = num_loc // 2 + num_depot`", pd_div)
    ex.probe("mdcpdpPickLtCmp", "Cmp", ".lt", "mdcpdp/env.py:MDCPDPEnv._step  `current_carry += (current_node < pd_split_idx) & …`",
             carry_cmp(ast.Add, 0, 2))
    ex.probe("mdcpdpPickGeCmp", "Cmp", ".ge", "mdcpdp/env.py:MDCPDPEnv._step  `current_carry += … & (current_node >= num_depot)`",
             carry_cmp(ast.Add, 1, 2))
    ex.probe("mdcpdpDelivGeCmp", "Cmp", ".ge", "mdcpdp/env.py:MDCPDPEnv._step  `current_carry -= (current_node >= pd_split_idx)`",
             carry_cmp(ast.Sub, 0, 1))
    ex.probe("mdcpdpLegToCmp", "Cmp", ".lt", "mdcpdp/env.py:MDCPDPEnv._step  leg between two depots: `(current_node < num_depot) & …` → 0",
             depot_leg_cmp(0))
    ex.probe("mdcpdpLegFromCmp", "Cmp", ".lt", "mdcpdp/env.py:MDCPDPEnv._step  leg between two depots: `… & (td['current_node'] < num_depot)` → 0",
             depot_leg_cmp(1))
    ex.probe("mdcpdpDepotOnVisit", "Bool", "false", "mdcpdp/env.py:MDCPDPEnv._step  `current_depot = torch.where(back_flag, …)` (true: `current_node < num_depot`)",
             depot_on_visit)
    ex.probe("mtspAgentCmp", "Cmp", ".lt", "mtsp/env.py:MTSPEnv._step  `td['agent_idx'] < td['num_agents'] - 1`",
             ex.cmp_probe(M, "MTSPEnv._step", "td['agent_idx']", "td['num_agents'] - 1"))
    ex.probe("mtspAgentIncCmp", "Cmp", ".eq", "mtsp/env.py:MTSPEnv._step  `agent_idx + (current_node == 0).long()`",
             nth_cmp(M, "MTSPEnv._step", "current_node", "0", 0, 2))
    ex.probe("mtspDepotNeCmp", "Cmp", ".ne", "mtsp/env.py:MTSPEnv._step  `logical_and(current_node != 0, …)`",
             nth_cmp(M, "MTSPEnv._step", "current_node", "0", 1, 2))
    ex.probe("mtspDoneCmp", "Cmp", ".eq", "mtsp/env.py:MTSPEnv._step  `torch.count_nonzero(available[..., 1:], dim=-1) == 0`",
             ex.cmp_probe(M, "MTSPEnv._step", "torch.count_nonzero(available[..., 1:], dim=-1)", "0"))
    ex.probe("mtspResetCmp", "Cmp", ".eq", "mtsp/env.py:MTSPEnv._step  `current_length *= (cur_agent_idx == td['agent_idx'])`",
             ex.cmp_probe(M, "MTSPEnv._step", "cur_agent_idx", "td['agent_idx']"))
    ex.probe("mdcpdpCapCmp", "Cmp", ".ge", "mdcpdp/env.py:MDCPDPEnv._step  `current_carry >= current_capacity`",
             ex.cmp_probe(D, "MDCPDPEnv._step", "current_carry", "current_capacity"))
    ex.probe("mdcpdpCarryCmp", "Cmp", ".gt", "mdcpdp/env.py:MDCPDPEnv._step  `current_carry > 0`",
             ex.cmp_probe(D, "MDCPDPEnv._step", "current_carry", "0"))
    ex.probe("mdcpdpBackDepotCmp", "Cmp", ".lt", "mdcpdp/env.py:MDCPDPEnv._step  `back_flag = (current_node < num_depot) & …`",
             assign_cmp(D, "MDCPDPEnv._step", "back_flag", 0, 2))
    ex.probe("mdcpdpBackAvailCmp", "Cmp", ".eq", "mdcpdp/env.py:MDCPDPEnv._step  `back_flag = … & (available.gather(-1, current_node) == 0)`",
             assign_cmp(D, "MDCPDPEnv._step", "back_flag", 1, 2))
    ex.probe("mdcpdpLastDepotCmp", "Cmp", ".eq", "mdcpdp/env.py:MDCPDPEnv._step  `last_depot_flag = sum(available[..., :num_depot]) == 0`",
             assign_cmp(D, "MDCPDPEnv._step", "last_depot_flag", 0, 1))
    ex.probe("mdcpdpDoneCmp", "Cmp", ".eq", "mdcpdp/env.py:MDCPDPEnv._step  `done = torch.count_nonzero(available, dim=-1) == 0`",
             assign_cmp(D, "MDCPDPEnv._step", "done", 0, 1))
    ex.probe("mdcpdpOpenToCmp", "Cmp", ".lt", "mdcpdp/env.py:MDCPDPEnv._step  open mode: `(current_node < num_depot) & …` is not charged",
             open_block_cmp(0))
    ex.probe("mdcpdpOpenFromCmp", "Cmp", ".ge", "mdcpdp/env.py:MDCPDPEnv._step  open mode: `… & (td['current_node'] >= num_depot)`",
             open_block_cmp(1))
    ex.probe("mdcpdpPairDiv", "Nat", "2", "mdcpdp/env.py:MDCPDPEnv._step  `new_to_deliver = (current_node + num_loc // 2) % (num_loc + num_depot)`",
             pair_div)
    ex.probe("mdcpdpGenCapPerDepot", "Bool", "false", "mdcpdp/generator.py:_generate  capacity `size=(*batch_size, 1)` (true: `self.num_depot`)",
             gen_cap_per_depot)
