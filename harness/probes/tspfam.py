"""AST probes of the equal-length routing/scheduling family (TSP, ATSP, PDP, SMTWTP).

Every value extracted here is a parameter of the Lean models (`Rl4co/Env/{Tsp,Atsp,Pdp,Smtwtp}.lean`) and is
needed at its committed value by a proof (see `Rl4co/Proofs/TspfamParams.lean`): a one-token edit of the
source changes the generated `Params.lean` and the proof obligation stops compiling.  Patterns are matched by
statement shape inside the named function; a rewrite that no longer matches is a `pattern-miss` (default
used, never an alarm)."""
import ast

T = "rl4co/envs/routing/tsp/env.py"
A = "rl4co/envs/routing/atsp/env.py"
P = "rl4co/envs/routing/pdp/env.py"
S = "rl4co/envs/scheduling/smtwtp/env.py"
O = "rl4co/utils/ops.py"


def _fn(ex, rel, func):
    tree = ex.parse(rel)
    return ex.find_function(tree, func) if tree else None


def _int(node):
    """integer literal, possibly negated"""
    if isinstance(node, ast.Constant) and isinstance(node.value, int) and not isinstance(node.value, bool):
        return node.value
    if isinstance(node, ast.UnaryOp) and isinstance(node.op, ast.USub):
        v = _int(node.operand)
        return None if v is None else -v
    return None


def roll_shift(ex, rel, func, first_arg):
    """the shift `k` of the single call `torch.roll(<first_arg>, k, dims=…)` inside `func`"""
    def run():
        fn = _fn(ex, rel, func)
        if fn is None:
            return None
        hits = []
        for n in ast.walk(fn):
            if isinstance(n, ast.Call) and ex.norm(n.func) == "torch.roll" and len(n.args) >= 2 and ex.norm(n.args[0]) == first_arg:
                k = _int(n.args[1])
                if k is not None:
                    hits.append(k)
        return f"({hits[0]})" if len(hits) == 1 else None
    return run


def roll_has_dims(ex, rel, func, first_arg, dims_ok):
    """`true` iff that roll call names the step dimension (`dims=` one of dims_ok): without it torch rolls the
    flattened tensor, i.e. across batch rows"""
    def run():
        fn = _fn(ex, rel, func)
        if fn is None:
            return None
        for n in ast.walk(fn):
            if isinstance(n, ast.Call) and ex.norm(n.func) == "torch.roll" and len(n.args) >= 2 and ex.norm(n.args[0]) == first_arg:
                d = None
                for kw in n.keywords:
                    if kw.arg == "dims":
                        d = _int(kw.value)
                if len(n.args) >= 3:
                    d = _int(n.args[2])
                return "true" if d in dims_ok else "false"
        return None
    return run


def pdp_pair_offset(ex):
    """`new_to_deliver = (current_node + num_loc // d [+ c]) % (num_loc + m)`  →  (d, c, m)"""
    def run():
        fn = _fn(ex, P, "PDPEnv._step")
        if fn is None:
            return None
        for n in ast.walk(fn):
            if isinstance(n, ast.Assign) and len(n.targets) == 1 and ex.norm(n.targets[0]) == "new_to_deliver":
                v = n.value
                if not (isinstance(v, ast.BinOp) and isinstance(v.op, ast.Mod)):
                    return None
                l, r = v.left, v.right
                if not (isinstance(r, ast.BinOp) and isinstance(r.op, ast.Add) and ex.norm(r.left) == "num_loc"):
                    return None
                m = _int(r.right)
                c = 0
                if isinstance(l, ast.BinOp) and isinstance(l.op, ast.Add) and _int(l.right) is not None \
                        and isinstance(l.left, ast.BinOp) and isinstance(l.left.op, ast.Add):
                    c = _int(l.right)
                    l = l.left
                if not (isinstance(l, ast.BinOp) and isinstance(l.op, ast.Add) and ex.norm(l.left) == "current_node"):
                    return None
                q = l.right
                if not (isinstance(q, ast.BinOp) and isinstance(q.op, ast.FloorDiv) and ex.norm(q.left) == "num_loc"):
                    return None
                d = _int(q.right)
                if d is None or m is None or d <= 0 or m < 0 or c < 0:
                    return None
                return f"({d}, {c}, {m})"
        return None
    return run


def pdp_start_rule(ex):
    """PDPEnv.select_start_nodes: `arange(num_starts).repeat_interleave(B) % num_possible_starts + lo` with
    `num_possible_starts = (locs.shape[-2] - s) // d`  →  (lo, s, d)"""
    def run():
        fn = _fn(ex, P, "PDPEnv.select_start_nodes")
        if fn is None:
            return None
        s = d = lo = None
        for n in ast.walk(fn):
            if isinstance(n, ast.Assign) and len(n.targets) == 1:
                tgt = ex.norm(n.targets[0])
                v = n.value
                if tgt == "num_possible_starts" and isinstance(v, ast.BinOp) and isinstance(v.op, ast.FloorDiv):
                    d = _int(v.right)
                    if isinstance(v.left, ast.BinOp) and isinstance(v.left.op, ast.Sub) and ex.norm(v.left.left) == "td['locs'].shape[-2]":
                        s = _int(v.left.right)
                if tgt == "selected" and isinstance(v, ast.BinOp) and isinstance(v.op, ast.Add):
                    if isinstance(v.left, ast.BinOp) and isinstance(v.left.op, ast.Mod) and ex.norm(v.left.right) == "num_possible_starts" \
                            and "repeat_interleave(td.shape[0])" in ex.norm(v.left.left):
                        lo = _int(v.right)
        if None in (s, d, lo) or d <= 0 or s < 0 or lo < 0:
            return None
        return f"({lo}, {s}, {d})"
    return run


def pdp_reset_ones(ex):
    """number of leading ones of `to_deliver` at reset: `num_loc // d + c`  →  (d, c)"""
    def run():
        fn = _fn(ex, P, "PDPEnv._reset")
        if fn is None:
            return None
        for n in ast.walk(fn):
            if isinstance(n, ast.Call) and ex.norm(n.func) == "torch.ones":
                for a in n.args:
                    if isinstance(a, ast.BinOp) and isinstance(a.op, ast.Add) and isinstance(a.left, ast.BinOp) \
                            and isinstance(a.left.op, ast.FloorDiv) and ex.norm(a.left.left) == "self.generator.num_loc":
                        d, c = _int(a.left.right), _int(a.right)
                        if d and c is not None and c >= 0:
                            return f"({d}, {c})"
        return None
    return run


def smtwtp_clamp(ex):
    """`job_tardiness[job_tardiness <op> c] = v`  →  the comparison operator (c and v must be 0)"""
    def run():
        fn = _fn(ex, S, "SMTWTPEnv._get_reward")
        if fn is None:
            return None
        for n in ast.walk(fn):
            if isinstance(n, ast.Assign) and len(n.targets) == 1 and isinstance(n.targets[0], ast.Subscript) \
                    and ex.norm(n.targets[0].value) == "job_tardiness":
                c = n.targets[0].slice
                if isinstance(c, ast.Compare) and len(c.ops) == 1 and type(c.ops[0]) in ex.CMP \
                        and ex.norm(c.left) == "job_tardiness" and _int(c.comparators[0]) == 0 and _int(n.value) == 0:
                    return "." + ex.CMP[type(c.ops[0])]
        return None
    return run


def smtwtp_shape(ex):
    """(cumsum runs along the job axis `dim=1` of the gathered processing times,
        tardiness is `presum - due` in this order, weighted tardiness is a product, summed over the last axis)"""
    def run():
        fn = _fn(ex, S, "SMTWTPEnv._get_reward")
        if fn is None:
            return None
        cum = sub = None
        for n in ast.walk(fn):
            if isinstance(n, ast.Assign) and len(n.targets) == 1:
                tgt, v = ex.norm(n.targets[0]), n.value
                if tgt == "presum_process_time" and isinstance(v, ast.Call) and ex.norm(v.func) == "torch.cumsum":
                    d = None
                    for kw in v.keywords:
                        if kw.arg == "dim":
                            d = _int(kw.value)
                    if len(v.args) >= 2:
                        d = _int(v.args[1])
                    cum = (len(v.args) >= 1 and ex.norm(v.args[0]) == "ordered_process_time" and d in (1, -1))
                if tgt == "job_tardiness" and isinstance(v, ast.BinOp):
                    sub = isinstance(v.op, ast.Sub) and ex.norm(v.left) == "presum_process_time" and ex.norm(v.right) == "ordered_due_time"
        if cum is None or sub is None:
            return None
        return f"({'true' if cum else 'false'}, {'true' if sub else 'false'})"
    return run


def checker_cmp(ex, rel, func):
    """operator of the `arange(...)…expand_as(actions) <op> actions.data.sort(1)[0]` test"""
    def run():
        fn = _fn(ex, rel, func)
        if fn is None:
            return None
        hits = []
        for n in ast.walk(fn):
            if isinstance(n, ast.Compare) and len(n.ops) == 1 and type(n.ops[0]) in ex.CMP:
                l, r = ex.norm(n.left), ex.norm(n.comparators[0])
                if "torch.arange(actions.size(1)" in l and r == "actions.data.sort(1)[0]":
                    hits.append(ex.CMP[type(n.ops[0])])
        return "." + hits[0] if len(hits) == 1 else None
    return run


def checker_width_src(ex, rel, func):
    """where the checker takes the expected number of nodes from: `torch.arange(actions.size(1), …)` (the WIDTH of
    the action tensor → false) or an expression over the instance `td[...]` (→ true)"""
    def run():
        fn = _fn(ex, rel, func)
        if fn is None:
            return None
        hits = []
        for n in ast.walk(fn):
            if isinstance(n, ast.Call) and ex.norm(n.func) == "torch.arange" and n.args:
                a = ex.norm(n.args[0])
                if a in ("actions.size(1)", "actions.shape[1]", "actions.size(-1)", "actions.shape[-1]"):
                    hits.append("false")
                elif "td[" in a and "actions" not in a:
                    hits.append("true")
        return hits[0] if len(hits) == 1 else None
    return run


def atsp_gather_order(ex):
    """`distance_matrix[batch_idx, X, Y]` with X/Y resolved through `nodes_src = actions`,
    `nodes_tgt = torch.roll(actions, …)`:  (src, tgt) → true, (tgt, src) → false"""
    def run():
        fn = _fn(ex, A, "ATSPEnv._get_reward")
        if fn is None:
            return None
        kind = {}
        for n in ast.walk(fn):
            if isinstance(n, ast.Assign) and len(n.targets) == 1 and isinstance(n.targets[0], ast.Name):
                v = n.value
                if ex.norm(v) == "actions":
                    kind[n.targets[0].id] = "src"
                elif isinstance(v, ast.Call) and ex.norm(v.func) == "torch.roll" and v.args and ex.norm(v.args[0]) == "actions":
                    kind[n.targets[0].id] = "tgt"
        kind.setdefault("actions", "src")
        for n in ast.walk(fn):
            if isinstance(n, ast.Subscript) and ex.norm(n.value) == "distance_matrix" and isinstance(n.slice, ast.Tuple) \
                    and len(n.slice.elts) == 3 and ex.norm(n.slice.elts[0]) == "batch_idx":
                ks = [kind.get(ex.norm(e)) for e in n.slice.elts[1:]]
                if ks == ["src", "tgt"]:
                    return "true"
                if ks == ["tgt", "src"]:
                    return "false"
        return None
    return run


def pdp_check_prepend(ex):
    """`if not self.force_start_at_depot: actions = torch.cat((zeros…, actions), dim=-1)` → true;
    `if self.force_start_at_depot: …` → false"""
    def run():
        fn = _fn(ex, P, "PDPEnv.check_solution_validity")
        if fn is None:
            return None
        for n in ast.walk(fn):
            if isinstance(n, ast.If) and any(isinstance(b, ast.Assign) and ex.norm(b.targets[0]) == "actions" and "torch.cat" in ex.norm(b.value)
                                            and "zeros_like" in ex.norm(b.value) for b in n.body):
                t = ex.norm(n.test)
                if t == "notself.force_start_at_depot":
                    return "true"
                if t == "self.force_start_at_depot":
                    return "false"
        return None
    return run


def reset_numloc_src(ex):
    """TSPEnv._reset: `num_loc = init_locs.shape[-2]` / `.size(-2)` (counted from the END: right for every batch
    shape → true) vs. `.size(1)` / `.shape[1]` (counted from the front: right for flat batches only → false)"""
    def run():
        fn = _fn(ex, T, "TSPEnv._reset")
        if fn is None:
            return None
        for n in ast.walk(fn):
            if isinstance(n, ast.Assign) and len(n.targets) == 1 and ex.norm(n.targets[0]) == "num_loc":
                v = ex.norm(n.value)
                if v in ("init_locs.shape[-2]", "init_locs.size(-2)", "td['locs'].shape[-2]", "td['locs'].size(-2)"):
                    return "true"
                if v in ("init_locs.size(1)", "init_locs.shape[1]", "td['locs'].size(1)", "td['locs'].shape[1]"):
                    return "false"
        return None
    return run


def register(ex):
    # ---- done tests
    ex.probe("tspDoneCmp", "Cmp", ".eq", "tsp/env.py:TSPEnv._step  `torch.sum(available, dim=-1) == 0`",
             ex.cmp_probe(T, "TSPEnv._step", "torch.sum(available, dim=-1)", "0"))
    ex.probe("atspDoneCmp", "Cmp", ".le", "atsp/env.py:ATSPEnv._step  `torch.count_nonzero(available, dim=-1) <= 0`",
             ex.cmp_probe(A, "ATSPEnv._step", "torch.count_nonzero(available, dim=-1)", "0"))
    ex.probe("pdpDoneCmp", "Cmp", ".eq", "pdp/env.py:PDPEnv._step  `torch.count_nonzero(available, dim=-1) == 0`",
             ex.cmp_probe(P, "PDPEnv._step", "torch.count_nonzero(available, dim=-1)", "0"))
    ex.probe("smtwtpDoneCmp", "Cmp", ".le", "smtwtp/env.py:SMTWTPEnv._step  `torch.count_nonzero(available, dim=-1) <= 0`",
             ex.cmp_probe(S, "SMTWTPEnv._step", "torch.count_nonzero(available, dim=-1)", "0"))
    # ---- first-step tests (batch-global reads)
    ex.probe("tspFirstStepCmp", "Cmp", ".eq", "tsp/env.py:TSPEnv._step  `td['i'].all() == 0`",
             ex.cmp_probe(T, "TSPEnv._step", "td['i'].all()", "0"))
    ex.probe("atspFirstStepCmp", "Cmp", ".eq", "atsp/env.py:ATSPEnv._step  `batch_to_scalar(td['i']) == 0`",
             ex.cmp_probe(A, "ATSPEnv._step", "batch_to_scalar(td['i'])", "0"))
    # ---- roll direction of the reward idiom
    ex.probe("tourRollShift", "Int", "(-1)", "utils/ops.py:get_tour_length  the shift of `torch.roll(ordered_locs, -1, dims=-2)`",
             roll_shift(ex, O, "get_tour_length", "ordered_locs"))
    ex.probe("tourRollAlongSteps", "Bool", "true", "utils/ops.py:get_tour_length  that roll names the step dimension (`dims=-2`)",
             roll_has_dims(ex, O, "get_tour_length", "ordered_locs", (-2, 1)))
    ex.probe("atspRollShift", "Int", "(-1)", "atsp/env.py:ATSPEnv._get_reward  the shift of `torch.roll(actions, -1, dims=1)`",
             roll_shift(ex, A, "ATSPEnv._get_reward", "actions"))
    ex.probe("atspRollAlongSteps", "Bool", "true", "atsp/env.py:ATSPEnv._get_reward  that roll names the step dimension (`dims=1`)",
             roll_has_dims(ex, A, "ATSPEnv._get_reward", "actions", (1, -1)))
    # ---- PDP index expressions
    ex.probe("pdpPairOffset", "Nat × Nat × Nat", "(2, 0, 1)",
             "pdp/env.py:PDPEnv._step  `(current_node + num_loc // 2) % (num_loc + 1)`  as (divisor, extra addend, modulus addend)",
             pdp_pair_offset(ex))
    ex.probe("pdpResetOnes", "Nat × Nat", "(2, 1)", "pdp/env.py:PDPEnv._reset  `torch.ones(.., num_loc // 2 + 1)` leading ones of to_deliver",
             pdp_reset_ones(ex))
    ex.probe("pdpStartRule", "Nat × Nat × Nat", "(1, 1, 2)",
             "pdp/env.py:PDPEnv.select_start_nodes  `arange(k).repeat_interleave(B) % ((locs.shape[-2] - 1) // 2) + 1` as (lo, sub, div)",
             pdp_start_rule(ex))
    # ---- checkers
    ex.probe("tspCheckCmp", "Cmp", ".eq", "tsp/env.py:TSPEnv.check_solution_validity  `arange(width) == actions.sort(1)[0]`",
             checker_cmp(ex, T, "TSPEnv.check_solution_validity"))
    ex.probe("atspCheckCmp", "Cmp", ".eq", "atsp/env.py:ATSPEnv.check_solution_validity  `arange(width) == actions.sort(1)[0]`",
             checker_cmp(ex, A, "ATSPEnv.check_solution_validity"))
    ex.probe("pdpCheckPermCmp", "Cmp", ".eq", "pdp/env.py:PDPEnv.check_solution_validity  `arange(width) == actions.sort(1)[0]`",
             checker_cmp(ex, P, "PDPEnv.check_solution_validity"))
    ex.probe("pdpCheckDepotCmp", "Cmp", ".ne", "pdp/env.py:PDPEnv.check_solution_validity  `actions[:, 1:-1] != 0`",
             ex.cmp_probe(P, "PDPEnv.check_solution_validity", "actions[:, 1:-1]", "0"))
    ex.probe("pdpCheckPrecCmp", "Cmp", ".lt",
             "pdp/env.py:PDPEnv.check_solution_validity  `visited_time[:, 1:L//2+1] < visited_time[:, L//2+1:]`",
             ex.cmp_probe(P, "PDPEnv.check_solution_validity", "visited_time[:, 1:actions.size(1) // 2 + 1]",
                          "visited_time[:, actions.size(1) // 2 + 1:]"))
    # ---- SMTWTP reward pipeline
    ex.probe("smtwtpClampCmp", "Cmp", ".lt", "smtwtp/env.py:SMTWTPEnv._get_reward  `job_tardiness[job_tardiness < 0] = 0`",
             smtwtp_clamp(ex))
    ex.probe("smtwtpRewardShape", "Bool × Bool", "(true, true)",
             "smtwtp/env.py:SMTWTPEnv._get_reward  (cumsum of the gathered processing times along the job axis, tardiness = presum - due)",
             smtwtp_shape(ex))
    # ---- where the checkers take the expected width from (the known width-derived finding; a maintainer's fix flips these)
    ex.probe("tspCheckWidthFromInst", "Bool", "false", "tsp/env.py:TSPEnv.check_solution_validity  `torch.arange(actions.size(1))` (false) vs. a size read from td (true)",
             checker_width_src(ex, T, "TSPEnv.check_solution_validity"))
    ex.probe("atspCheckWidthFromInst", "Bool", "false", "atsp/env.py:ATSPEnv.check_solution_validity  `torch.arange(actions.size(1))` (false) vs. a size read from td (true)",
             checker_width_src(ex, A, "ATSPEnv.check_solution_validity"))
    ex.probe("pdpCheckWidthFromInst", "Bool", "false", "pdp/env.py:PDPEnv.check_solution_validity  `torch.arange(actions.size(1))` (false) vs. a size read from td (true)",
             checker_width_src(ex, P, "PDPEnv.check_solution_validity"))
    ex.probe("pdpCheckPrependWhenNotForced", "Bool", "true", "pdp/env.py:PDPEnv.check_solution_validity  `if not self.force_start_at_depot: actions = cat(0, actions)`",
             pdp_check_prepend(ex))
    # ---- ATSP: index order of the cost-matrix gather
    ex.probe("atspGatherSrcFirst", "Bool", "true", "atsp/env.py:ATSPEnv._get_reward  `distance_matrix[batch_idx, nodes_src, nodes_tgt]` (source index first)",
             atsp_gather_order(ex))
    # ---- TSP reset: which dimension of `locs` is the number of cities
    ex.probe("tspResetNumLocFromEnd", "Bool", "true", "tsp/env.py:TSPEnv._reset  `num_loc = init_locs.shape[-2]` (true) vs `init_locs.size(1)` (false)",
             reset_numloc_src(ex))
