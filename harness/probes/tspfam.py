"""AST probes of the equal-length routing/scheduling family (TSP, ATSP, PDP, SMTWTP): the comparison that
decides `done` in each `_step`.  The Lean models take the operator as a parameter; the theorems
`run_length` / `feasible_of_run` need "no node available ⇔ done" and stop compiling otherwise."""


def register(ex):
    T = "rl4co/envs/routing/tsp/env.py"
    A = "rl4co/envs/routing/atsp/env.py"
    P = "rl4co/envs/routing/pdp/env.py"
    S = "rl4co/envs/scheduling/smtwtp/env.py"
    ex.probe("tspDoneCmp", "Cmp", ".eq", "tsp/env.py:TSPEnv._step  `torch.sum(available, dim=-1) == 0`",
             ex.cmp_probe(T, "TSPEnv._step", "torch.sum(available, dim=-1)", "0"))
    ex.probe("atspDoneCmp", "Cmp", ".le", "atsp/env.py:ATSPEnv._step  `torch.count_nonzero(available, dim=-1) <= 0`",
             ex.cmp_probe(A, "ATSPEnv._step", "torch.count_nonzero(available, dim=-1)", "0"))
    ex.probe("pdpDoneCmp", "Cmp", ".eq", "pdp/env.py:PDPEnv._step  `torch.count_nonzero(available, dim=-1) == 0`",
             ex.cmp_probe(P, "PDPEnv._step", "torch.count_nonzero(available, dim=-1)", "0"))
    ex.probe("smtwtpDoneCmp", "Cmp", ".le", "smtwtp/env.py:SMTWTPEnv._step  `torch.count_nonzero(available, dim=-1) <= 0`",
             ex.cmp_probe(S, "SMTWTPEnv._step", "torch.count_nonzero(available, dim=-1)", "0"))
