"""AST probes of the `train` family (C16 / C20): the decision-critical tokens of the training losses, baselines
and running statistics.  Each probe classifies ONE statement of one named function against the few variants
the Lean model knows (`Rl4co/Train/*.lean`, the `…C` "as coded" definitions); tag 0 / `true` / `.lt` is the
shape at the pinned commit.  The proof obligations in `Rl4co/Props/C16/TrainCoded.lean` and
`Rl4co/Props/C20/TrainCoded.lean` unfold the extracted values, so a one-token source edit that changes a tag
stops them from compiling.  A statement that matches no known variant is a pattern-miss (committed default,
the behavioural correspondence alone carries the tie).

  reinforce.py   trainAdvTag  trainLossTag  trainTotalTag
  utils.py       trainWelfordCountFlat  trainWelfordMeanTag  trainWelfordDelta2Tag  trainWelfordM2Tag
                 trainVarDenomTag  trainNormTag
  baselines.py   trainEmaTag  trainEmaInitTag  trainWarmupAlphaTag  trainWarmupCmp  trainWarmupMixTag
                 trainWarmupLossMixTag  trainCriticTag  trainCriticSqueeze  trainSharedKeepdims
  ppo.py         trainPpoSurrTag  trainPpoClampTag  trainPpoValueTag  trainPpoEntropyMinus  trainPpoAdvTag
  pomo / symnco  trainPomoTupleAugStart  trainSymncoTupleStartAug
  a2c.py         trainA2cCriticBaseline
"""
from __future__ import annotations

import ast

RF = "rl4co/models/rl/reinforce/reinforce.py"
BL = "rl4co/models/rl/reinforce/baselines.py"
UT = "rl4co/models/rl/common/utils.py"
PPO = "rl4co/models/rl/ppo/ppo.py"
A2C = "rl4co/models/rl/a2c/a2c.py"
POMO = "rl4co/models/zoo/pomo/model.py"
SYM = "rl4co/models/zoo/symnco/model.py"


def register(ex):
    def fn_of(rel, qual):
        tree = ex.parse(rel)
        return ex.find_function(tree, qual) if tree else None

    def n(node):
        return ex.norm(node).replace("1.0", "1")

    def target_text(t):
        return ex.norm(t)

    def assigns(fn, target):
        """values assigned (Assign / AugAssign) to `target` inside fn, in source order, with their positions"""
        out = []
        for nd in ast.walk(fn):
            if isinstance(nd, ast.Assign) and len(nd.targets) == 1 and target_text(nd.targets[0]) == target:
                out.append((nd.lineno, nd.col_offset, nd.value, "="))
            elif isinstance(nd, ast.AugAssign) and target_text(nd.target) == target:
                out.append((nd.lineno, nd.col_offset, nd.value, type(nd.op).__name__))
        return sorted(out, key=lambda t: (t[0], t[1]))

    def classify(rel, qual, target, table, which=0, aug=None):
        """tag of the `which`-th assignment to `target` in rel:qual whose normalised right-hand side is in `table`"""

        def run():
            fn = fn_of(rel, qual)
            if fn is None:
                return None
            a = assigns(fn, target)
            if aug is not None:
                a = [x for x in a if x[3] == aug]
            if len(a) <= which:
                return None
            return table.get(n(a[which][2]))

        return run

    def tag(v):
        return None if v is None else str(v)

    def nat(run):
        return lambda: tag(run())

    def boolean(run):
        def f():
            v = run()
            return None if v is None else ("true" if v else "false")

        return f

    # ---------------- reinforce.py ----------------
    ex.probe("trainAdvTag", "Nat", "0", "reinforce.py:calculate_loss  `advantage = reward - bl_val` (0) | bl_val - reward (1) | reward + bl_val (2)",
             nat(classify(RF, "REINFORCE.calculate_loss", "advantage",
                          {"reward-bl_val": 0, "bl_val-reward": 1, "reward+bl_val": 2})))
    ex.probe("trainLossTag", "Nat", "0", "reinforce.py  `reinforce_loss = -(advantage * log_likelihood).mean()` (0) | without the minus (1) | .sum() (2)",
             nat(classify(RF, "REINFORCE.calculate_loss", "reinforce_loss",
                          {"-(advantage*log_likelihood).mean()": 0, "-(log_likelihood*advantage).mean()": 0,
                           "(advantage*log_likelihood).mean()": 1, "-(advantage*log_likelihood).sum()": 2})))
    ex.probe("trainTotalTag", "Nat", "0", "reinforce.py  `loss = reinforce_loss + bl_loss` (0) | minus (1) | bl_loss dropped (2)",
             nat(classify(RF, "REINFORCE.calculate_loss", "loss",
                          {"reinforce_loss+bl_loss": 0, "bl_loss+reinforce_loss": 0, "reinforce_loss-bl_loss": 1, "reinforce_loss": 2})))

    # ---------------- utils.py: RewardScaler ----------------
    def count_flat():
        fn = fn_of(UT, "RewardScaler.update")
        if fn is None:
            return None
        resh = [a for a in assigns(fn, "batch") if n(a[2]) in ("batch.reshape(-1)", "batch.flatten()", "batch.view(-1)")]
        cnt = assigns(fn, "self.count")
        if len(cnt) != 1 or cnt[0][3] != "Add":
            return None
        c = n(cnt[0][2])
        if c in ("batch.numel()",):
            return True
        if c != "len(batch)":
            return None
        if not resh:
            return False
        return resh[0][0] < cnt[0][0]

    ex.probe("trainWelfordCountFlat", "Bool", "true", "utils.py:RewardScaler.update  the batch is flattened BEFORE `self.count += len(batch)`",
             boolean(count_flat))
    ex.probe("trainWelfordMeanTag", "Nat", "0", "utils.py  `self.mean += (delta / self.count).sum()` (0) | delta.mean() (1) | floor division (2)",
             nat(classify(UT, "RewardScaler.update", "self.mean",
                          {"(delta/self.count).sum()": 0, "delta.sum()/self.count": 0, "delta.mean()": 1,
                           "(delta//self.count).sum()": 2, "delta.sum()//self.count": 2}, aug="Add")))

    def delta2_tag():
        fn = fn_of(UT, "RewardScaler.update")
        if fn is None:
            return None
        d2 = assigns(fn, "delta2")
        mu = [a for a in assigns(fn, "self.mean") if a[3] == "Add"]
        if len(d2) != 1 or len(mu) != 1 or n(d2[0][2]) != "batch-self.mean":
            return None
        return 0 if d2[0][0] > mu[0][0] else 1

    ex.probe("trainWelfordDelta2Tag", "Nat", "0", "utils.py  `delta2 = batch - self.mean` computed AFTER the mean update (0) | before it (1)",
             nat(delta2_tag))
    ex.probe("trainWelfordM2Tag", "Nat", "0", "utils.py  `self.M2 += (delta * delta2).sum()` (0) | delta*delta (1) | delta2*delta2 (2)",
             nat(classify(UT, "RewardScaler.update", "self.M2",
                          {"(delta*delta2).sum()": 0, "(delta2*delta).sum()": 0, "(delta*delta).sum()": 1, "(delta2*delta2).sum()": 2},
                          aug="Add")))
    ex.probe("trainVarDenomTag", "Nat", "0", "utils.py:__call__  `std = (self.M2 / (self.count - 1)).float().sqrt()` (0) | / self.count (1)",
             nat(classify(UT, "RewardScaler.__call__", "std",
                          {"(self.M2/(self.count-1)).float().sqrt()": 0, "(self.M2/self.count).float().sqrt()": 1})))
    ex.probe("trainNormTag", "Nat", "0", "utils.py:__call__  'norm': `(scores - mean) / factor` (0) | mean not subtracted (1)",
             nat(classify(UT, "RewardScaler.__call__", "scores",
                          {"(scores-self.mean.to(**tensor_to_kwargs))/score_scaling_factor": 0, "scores/score_scaling_factor": 1})))

    # ---------------- baselines.py ----------------
    ema = {}
    for one in ("1",):
        ema[f"self.beta*self.v+({one}-self.beta)*reward.mean()"] = 0
        ema[f"({one}-self.beta)*reward.mean()+self.beta*self.v"] = 0
        ema[f"({one}-self.beta)*self.v+self.beta*reward.mean()"] = 1
        ema[f"self.v+({one}-self.beta)*reward.mean()"] = 2
        ema[f"self.beta*self.v+reward.mean()"] = 3
    ex.probe("trainEmaTag", "Nat", "0", "baselines.py:ExponentialBaseline.eval  `v = beta*v + (1-beta)*mean` (0) | weights swapped (1) | beta dropped on v (2) | (1-beta) dropped (3)",
             nat(classify(BL, "ExponentialBaseline.eval", "v", ema, which=1)))

    def ema_init():
        fn = fn_of(BL, "ExponentialBaseline.eval")
        if fn is None:
            return None
        ifs = [nd for nd in ast.walk(fn) if isinstance(nd, ast.If)]
        if len(ifs) != 1:
            return None
        return {"self.visNone": 0, "notself.v": 1, "self.v==None": 0}.get(n(ifs[0].test))

    ex.probe("trainEmaInitTag", "Nat", "0", "baselines.py  first-evaluation test `if self.v is None` (0) | `if not self.v` (1)", nat(ema_init))
    ex.probe("trainWarmupAlphaTag", "Nat", "0", "baselines.py:WarmupBaseline.epoch_callback  `alpha = (epoch + 1) / float(n_epochs)` (0) | floor division (1) | epoch / n (2)",
             nat(classify(BL, "WarmupBaseline.epoch_callback", "self.alpha",
                          {"(kw['epoch']+1)/float(self.n_epochs)": 0, "(kw['epoch']+1)/self.n_epochs": 0,
                           "(kw['epoch']+1)//float(self.n_epochs)": 1, "(kw['epoch']+1)//self.n_epochs": 1,
                           "kw['epoch']/float(self.n_epochs)": 2})))
    ex.probe("trainWarmupCmp", "Cmp", ".lt", "baselines.py:WarmupBaseline.epoch_callback  `kw['epoch'] < self.n_epochs`",
             ex.cmp_probe(BL, "WarmupBaseline.epoch_callback", "kw['epoch']", "self.n_epochs"))

    def warm_ret(idx, table):
        def run():
            fn = fn_of(BL, "WarmupBaseline.eval")
            if fn is None:
                return None
            rets = [nd for nd in ast.walk(fn) if isinstance(nd, ast.Return) and isinstance(nd.value, ast.Tuple) and len(nd.value.elts) == 2]
            if len(rets) != 1:
                return None
            return table.get(n(rets[0].value.elts[idx]))

        return run

    ex.probe("trainWarmupMixTag", "Nat", "0", "baselines.py:WarmupBaseline.eval  `alpha * v_b + (1 - alpha) * v_wb` (0) | weights swapped (1)",
             nat(warm_ret(0, {"self.alpha*v_b+(1-self.alpha)*v_wb": 0, "(1-self.alpha)*v_wb+self.alpha*v_b": 0,
                              "(1-self.alpha)*v_b+self.alpha*v_wb": 1})))
    ex.probe("trainWarmupLossMixTag", "Nat", "0", "baselines.py:WarmupBaseline.eval  `alpha * l_b + (1 - alpha) * l_wb` (0) | alpha dropped on l_b (1)",
             nat(warm_ret(1, {"self.alpha*l_b+(1-self.alpha)*l_wb": 0, "l_b+(1-self.alpha)*l_wb": 1})))

    def critic_ret():
        fn = fn_of(BL, "CriticBaseline.eval")
        if fn is None:
            return None
        rets = [nd for nd in ast.walk(fn) if isinstance(nd, ast.Return)]
        if len(rets) != 1:
            return None
        return {"(v.detach(),F.mse_loss(v,c.detach()))": 0, "(v,F.mse_loss(v,c.detach()))": 1,
                "(v.detach(),F.mse_loss(v,c))": 2}.get(n(rets[0].value))

    ex.probe("trainCriticTag", "Nat", "0", "baselines.py:CriticBaseline.eval  `return v.detach(), F.mse_loss(v, c.detach())` (0) | value not detached (1) | target not detached (2)",
             nat(critic_ret))
    ex.probe("trainCriticSqueeze", "Bool", "true", "baselines.py:CriticBaseline.eval  `v = self.critic(x).squeeze(-1)`",
             boolean(classify(BL, "CriticBaseline.eval", "v", {"self.critic(x).squeeze(-1)": True, "self.critic(x)": False})))

    def shared_keep():
        fn = fn_of(BL, "SharedBaseline.eval")
        if fn is None:
            return None
        rets = [nd for nd in ast.walk(fn) if isinstance(nd, ast.Return)]
        if len(rets) != 1:
            return None
        return {"(reward.mean(dim=on_dim,keepdims=True),0)": True, "(reward.mean(dim=on_dim,keepdim=True),0)": True,
                "(reward.mean(dim=on_dim),0)": False}.get(n(rets[0].value))

    ex.probe("trainSharedKeepdims", "Bool", "true", "baselines.py:SharedBaseline.eval  `reward.mean(dim=on_dim, keepdims=True)`", boolean(shared_keep))

    def stored(rel, qual, target, expect):
        def run():
            fn = fn_of(rel, qual)
            if fn is None:
                return None
            a = assigns(fn, target)
            if len(a) != 1:
                return None
            return n(a[0][2]) == expect

        return run

    ex.probe("trainEmaBetaStored", "Bool", "true", "baselines.py:ExponentialBaseline.__init__  `self.beta = beta`",
             boolean(stored(BL, "ExponentialBaseline.__init__", "self.beta", "beta")))
    ex.probe("trainWarmupBetaArg", "Bool", "true", "baselines.py:WarmupBaseline.__init__  `self.warmup_baseline = ExponentialBaseline(warmup_exp_beta)` (the configured decay is used)",
             boolean(lambda: (lambda v: None if v is None else v)(
                 (lambda fn: None if fn is None else (lambda a: None if len(a) != 1 else
                  {"ExponentialBaseline(warmup_exp_beta)": True, "ExponentialBaseline(beta=warmup_exp_beta)": True,
                   "ExponentialBaseline(**kw)": False, "ExponentialBaseline()": False}.get(n(a[0][2])))(assigns(fn, "self.warmup_baseline")))(
                     fn_of(BL, "WarmupBaseline.__init__")))))
    ex.probe("trainWarmupNStored", "Bool", "true", "baselines.py:WarmupBaseline.__init__  `self.n_epochs = n_epochs`",
             boolean(stored(BL, "WarmupBaseline.__init__", "self.n_epochs", "n_epochs")))

    def rollout_kw():
        fn = fn_of(BL, "get_reinforce_baseline")
        if fn is None:
            return None
        vals = {}
        for t in ("warmup_epochs", "warmup_exp_beta"):
            a = assigns(fn, t)
            if len(a) != 1:
                return None
            vals[t] = n(a[0][2])
        rets = [n(nd.value) for nd in ast.walk(fn) if isinstance(nd, ast.Return) and "RolloutBaseline(" in n(nd.value)]
        if len(rets) != 1:
            return None
        ok = (vals["warmup_epochs"] == "kw.get('n_epochs',1)" and vals["warmup_exp_beta"] == "kw.get('exp_beta',0.8)"
              and rets[0] == "WarmupBaseline(RolloutBaseline(bl_alpha=bl_alpha),warmup_epochs,warmup_exp_beta)")
        return ok

    ex.probe("trainRolloutKwPassed", "Bool", "true", "baselines.py:get_reinforce_baseline('rollout')  n_epochs / exp_beta are read from the kwargs and passed to WarmupBaseline in this order",
             boolean(rollout_kw))

    ex.probe("trainRolloutBetterCmp", "Cmp", ".gt", "baselines.py:RolloutBaseline.epoch_callback  `candidate_mean - self.mean > 0`",
             ex.cmp_probe(BL, "RolloutBaseline.epoch_callback", "candidate_mean - self.mean", "0"))
    ex.probe("trainRolloutPCmp", "Cmp", ".lt", "baselines.py:RolloutBaseline.epoch_callback  `p_val < self.bl_alpha`",
             ex.cmp_probe(BL, "RolloutBaseline.epoch_callback", "p_val", "self.bl_alpha"))
    ex.probe("trainRolloutPHalf", "Bool", "true", "baselines.py:RolloutBaseline.epoch_callback  `p_val = p / 2` (one-sided test)",
             boolean(classify(BL, "RolloutBaseline.epoch_callback", "p_val", {"p/2": True, "p": False, "p*0.5": True})))
    ex.probe("trainRolloutCandidatePolicy", "Bool", "true", "baselines.py:RolloutBaseline.epoch_callback  the CANDIDATE is rolled out: `self.rollout(policy, env, batch_size, device)`",
             boolean(classify(BL, "RolloutBaseline.epoch_callback", "candidate_vals",
                              {"self.rollout(policy,env,batch_size,device).cpu().numpy()": True,
                               "self.rollout(self.policy,env,batch_size,device).cpu().numpy()": False})))

    # ---------------- ppo.py ----------------
    CR = "self.ppo_cfg['clip_range']"
    clampfull = f"torch.clamp(ratio,1-{CR},1+{CR})"

    def surr():
        fn = fn_of(PPO, "PPO.shared_step")
        if fn is None:
            return None
        a = assigns(fn, "surrogate_loss")
        if len(a) != 1:
            return None
        t = n(a[0][2])
        # the clamp may have been bound to a local name first
        local = None
        for nd in ast.walk(fn):
            if isinstance(nd, ast.Assign) and len(nd.targets) == 1 and isinstance(nd.targets[0], ast.Name) and \
                    isinstance(nd.value, ast.Call) and n(nd.value.func) == "torch.clamp":
                local = nd.targets[0].id
        for c in ([local] if local else []) + [None]:
            if c is None:
                # any inline clamp call
                import re
                t2 = re.sub(r"torch\.clamp\([^()]*(\([^()]*\)[^()]*)*\)", "CLAMP", t)
            else:
                t2 = t.replace(c, "CLAMP")
            if t2 in ("-torch.min(ratio*adv,CLAMP*adv).mean()", "-torch.min(CLAMP*adv,ratio*adv).mean()",
                      "-torch.minimum(ratio*adv,CLAMP*adv).mean()"):
                return 0
            if t2 in ("-(torch.min(ratio,CLAMP)*adv).mean()", "-(adv*torch.min(ratio,CLAMP)).mean()"):
                return 1
            if t2 in ("-torch.max(ratio*adv,CLAMP*adv).mean()",):
                return 2
            if t2 in ("torch.min(ratio*adv,CLAMP*adv).mean()",):
                return 3
        return None

    ex.probe("trainPpoSurrTag", "Nat", "0", "ppo.py  `-torch.min(ratio*adv, clamp(ratio)*adv).mean()` (0) | advantage factored out of the min (1) | max (2) | sign dropped (3)",
             nat(surr))

    def clamp_tag():
        fn = fn_of(PPO, "PPO.shared_step")
        if fn is None:
            return None
        calls = [nd for nd in ast.walk(fn) if isinstance(nd, ast.Call) and n(nd.func) == "torch.clamp"]
        if len(calls) != 1:
            return None
        c = calls[0]
        args = [n(a) for a in c.args]
        kws = {k.arg: n(k.value) for k in c.keywords}
        lo = args[1] if len(args) > 1 else kws.get("min")
        hi = args[2] if len(args) > 2 else kws.get("max")
        if not args or args[0] != "ratio":
            return None
        if lo == f"1-{CR}" and hi == f"1+{CR}":
            return 0
        if lo in (None, "None") and hi == f"1+{CR}":
            return 1
        if lo == f"1-{CR}" and hi in (None, "None"):
            return 2
        return None

    ex.probe("trainPpoClampTag", "Nat", "0", "ppo.py  `torch.clamp(ratio, 1 - eps, 1 + eps)` (0) | upper bound only (1) | lower bound only (2)",
             nat(clamp_tag))
    ex.probe("trainPpoValueTag", "Nat", "0", "ppo.py  `value_loss = F.huber_loss(value_pred, previous_reward)` (0) | F.mse_loss (1)",
             nat(classify(PPO, "PPO.shared_step", "value_loss",
                          {"F.huber_loss(value_pred,previous_reward)": 0, "F.mse_loss(value_pred,previous_reward)": 1})))

    def entropy_minus():
        fn = fn_of(PPO, "PPO.shared_step")
        if fn is None:
            return None
        a = [x for x in assigns(fn, "loss") if x[3] == "="]
        if len(a) != 1:
            return None
        t = n(a[0][2])
        el = "self.ppo_cfg['entropy_lambda']*entropy.mean()"
        if t.endswith("-" + el):
            return True
        if t.endswith("+" + el):
            return False
        return None

    ex.probe("trainPpoEntropyMinus", "Bool", "true", "ppo.py  `… - entropy_lambda * entropy.mean()` (the bonus is subtracted from the loss)",
             boolean(entropy_minus))
    ex.probe("trainPpoAdvTag", "Nat", "0", "ppo.py  `adv = previous_reward - value_pred.detach()` (0) | value not detached (1) | reversed (2)",
             nat(classify(PPO, "PPO.shared_step", "adv",
                          {"previous_reward-value_pred.detach()": 0, "previous_reward-value_pred": 1,
                           "value_pred.detach()-previous_reward": 2})))

    # ---------------- pomo / symnco ----------------
    def unbatch_tuples(rel, qual, subjects):
        fn = fn_of(rel, qual)
        if fn is None:
            return None
        found = {}
        for nd in ast.walk(fn):
            if isinstance(nd, ast.Call) and n(nd.func) == "unbatchify" and len(nd.args) == 2:
                found.setdefault(n(nd.args[0]), set()).add(n(nd.args[1]))
        vals = set()
        for sbj in subjects:
            if sbj not in found or len(found[sbj]) != 1:
                return None
            vals |= found[sbj]
        return vals.pop() if len(vals) == 1 else None

    def pomo_tuple():
        t = unbatch_tuples(POMO, "POMO.shared_step", ["out['reward']", "out['log_likelihood']"])
        return {"(n_aug,n_start)": True, "(n_start,n_aug)": False}.get(t)

    def sym_tuple():
        t = unbatch_tuples(SYM, "SymNCO.shared_step", ["out['reward']", "out['log_likelihood']"])
        return {"(n_start,n_aug)": True, "(n_aug,n_start)": False}.get(t)

    ex.probe("trainPomoTupleAugStart", "Bool", "true", "pomo/model.py  reward and log-likelihood regrouped with `unbatchify(x, (n_aug, n_start))`",
             boolean(pomo_tuple))
    ex.probe("trainSymncoTupleStartAug", "Bool", "true", "symnco/model.py  reward and log-likelihood regrouped with `unbatchify(x, (n_start, n_aug))` (as coded; see the C16 finding)",
             boolean(sym_tuple))

    # ---------------- symnco losses ----------------
    SL = "rl4co/models/zoo/symnco/losses.py"

    def sig_default(rel, qual, arg):
        fn = fn_of(rel, qual)
        if fn is None:
            return None
        names = [a.arg for a in fn.args.args]
        if arg not in names:
            return None
        k = names.index(arg) - (len(names) - len(fn.args.defaults))
        if k < 0:
            return None
        d = fn.args.defaults[k]
        try:
            return ast.literal_eval(d)
        except Exception:
            return None

    def sym_body(qual):
        """tag of the three statements of a symmetricity loss: advantage, loss, return"""
        fn = fn_of(SL, qual)
        if fn is None:
            return None
        adv = assigns(fn, "advantage")
        lo = assigns(fn, "loss")
        rets = [n(nd.value) for nd in ast.walk(fn) if isinstance(nd, ast.Return) and nd.value is not None and n(nd.value) != "0"]
        if len(adv) != 1 or len(lo) != 1 or len(rets) != 1:
            return None
        a = {"reward-reward.mean(dim=dim,keepdim=True)": 0, "reward-reward.mean(dim=dim,keepdims=True)": 0,
             "reward-reward.mean(dim=dim)": 1, "reward.mean(dim=dim,keepdim=True)-reward": 2}.get(n(adv[0][2]))
        l = {"-advantage*log_likelihood": 0, "-(advantage*log_likelihood)": 0, "advantage*log_likelihood": 1}.get(n(lo[0][2]))
        r = {"loss.mean()": 0, "loss.sum()": 1}.get(rets[0])
        if a is None or l is None or r is None:
            return None
        return a * 100 + l * 10 + r

    ex.probe("trainSymPsDim", "Nat", "1", "symnco/losses.py  default axis of problem_symmetricity_loss: `dim=1`",
             nat(lambda: (lambda v: v if isinstance(v, int) and v >= 0 else None)(sig_default(SL, "problem_symmetricity_loss", "dim"))))
    ex.probe("trainSymSsDimLast", "Bool", "true", "symnco/losses.py  default axis of solution_symmetricity_loss: `dim=-1`",
             boolean(lambda: (lambda v: None if v is None else v == -1)(sig_default(SL, "solution_symmetricity_loss", "dim"))))
    ex.probe("trainSymPsBodyTag", "Nat", "0", "symnco/losses.py:problem_symmetricity_loss  `advantage = reward - reward.mean(dim, keepdim=True); loss = -advantage * ll; return loss.mean()` (0); 100·adv + 10·sign + reduction otherwise",
             nat(lambda: sym_body("problem_symmetricity_loss")))
    ex.probe("trainSymSsBodyTag", "Nat", "0", "symnco/losses.py:solution_symmetricity_loss  same three statements (0)",
             nat(lambda: sym_body("solution_symmetricity_loss")))
    ex.probe("trainSymTotalTag", "Nat", "0", "symnco/model.py  `loss = loss_ps + self.beta * loss_ss + self.alpha * loss_inv` (0) | − alpha·inv (1) | inv dropped (2)",
             nat(classify(SYM, "SymNCO.shared_step", "loss",
                          {"loss_ps+self.beta*loss_ss+self.alpha*loss_inv": 0, "loss_ps+self.beta*loss_ss-self.alpha*loss_inv": 1,
                           "loss_ps+self.beta*loss_ss": 2})))

    def sym_guard(target, var):
        def run():
            fn = fn_of(SYM, "SymNCO.shared_step")
            if fn is None:
                return None
            a = assigns(fn, target)
            if len(a) != 1 or not isinstance(a[0][2], ast.IfExp):
                return None
            t = a[0][2].test
            if isinstance(t, ast.Compare) and len(t.ops) == 1 and n(t.left) == var and n(t.comparators[0]) == "1" and type(t.ops[0]) in ex.CMP:
                return "." + ex.CMP[type(t.ops[0])]
            return None

        return run

    ex.probe("trainSymGuardPs", "Cmp", ".gt", "symnco/model.py  `loss_ps = … if n_start > 1 else 0`", sym_guard("loss_ps", "n_start"))
    ex.probe("trainSymGuardSs", "Cmp", ".gt", "symnco/model.py  `loss_ss = … if n_aug > 1 else 0`", sym_guard("loss_ss", "n_aug"))

    def inv_pattern():
        fn = fn_of(SL, "invariance_loss")
        if fn is None:
            return None
        for nd in ast.walk(fn):
            if isinstance(nd, ast.Call) and n(nd.func) == "rearrange" and len(nd.args) >= 2 and isinstance(nd.args[1], ast.Constant):
                pat = str(nd.args[1].value).replace(" ", "")
                return {"(ba)...->ba...": True, "(ab)...->ba...": False}.get(pat)
        return None

    ex.probe("trainSymInvBatchOuter", "Bool", "true", "symnco/losses.py:invariance_loss  `rearrange(proj_embed, '(b a) ... -> b a ...')` (instance-outer, as coded)",
             boolean(inv_pattern))

    # ---------------- n_step_ppo.py ----------------
    NS = "rl4co/models/rl/ppo/n_step_ppo.py"

    def append_arg(target):
        """normalised argument of the single `memory.<target>.append(…)` call in n_step_PPO.shared_step"""
        fn = fn_of(NS, "n_step_PPO.shared_step")
        if fn is None:
            return None
        hits = [n(nd.args[0]) for nd in ast.walk(fn)
                if isinstance(nd, ast.Call) and n(nd.func) == f"memory.{target}.append" and len(nd.args) == 1]
        return hits[0] if len(hits) == 1 else None

    ex.probe("trainNstepMemoryClone", "Bool", "true", "n_step_ppo.py  the rollout memory stores a COPY of the state: `memory.tds.append(td.clone())` (false = the live TensorDict, which the env steps in place)",
             boolean(lambda: {"td.clone()": True, "td.clone().detach()": True, "td": False}.get(append_arg("tds"))))
    ex.probe("trainNstepActionClone", "Bool", "true", "n_step_ppo.py  `memory.actions.append(out['actions'].clone())`",
             boolean(lambda: {"out['actions'].clone()": True, "out['actions']": False}.get(append_arg("actions"))))
    ex.probe("trainNstepLogpClone", "Bool", "true", "n_step_ppo.py  `memory.logprobs.append(out['log_likelihood'].clone())`",
             boolean(lambda: {"out['log_likelihood'].clone()": True, "out['log_likelihood']": False}.get(append_arg("logprobs"))))
    ex.probe("trainNstepRewardClone", "Bool", "true", "n_step_ppo.py  `memory.rewards.append(td['reward'].clone().view(-1, 1))` (after the env step)",
             boolean(lambda: {"td['reward'].clone().view(-1,1)": True, "td['reward'].view(-1,1)": False}.get(append_arg("rewards"))))

    def reeval_clone():
        fn = fn_of(NS, "n_step_PPO.shared_step")
        if fn is None:
            return None
        hits = []
        for nd in ast.walk(fn):
            if isinstance(nd, ast.Call) and n(nd.func) == "self.policy" and any(k.arg == "actions" for k in nd.keywords) and nd.args:
                hits.append(n(nd.args[0]))
        if len(hits) != 1:
            return None
        return {"memory.tds[i].clone()": True, "memory.tds[i]": False}.get(hits[0])

    ex.probe("trainNstepReevalClone", "Bool", "true", "n_step_ppo.py  stored states are re-evaluated on a copy: `self.policy(memory.tds[i].clone(), actions=memory.actions[i], …)`",
             boolean(reeval_clone))
    ex.probe("trainNstepReturnTag", "Nat", "0", "n_step_ppo.py  return recursion `R = R * gamma + reward_reversed[r]` (0) | gamma on the reward (1) | gamma dropped (2)",
             nat(classify(NS, "n_step_PPO.shared_step", "R",
                          {"R*self.ppo_cfg['gamma']+reward_reversed[r]": 0, "reward_reversed[r]+R*self.ppo_cfg['gamma']": 0,
                           "R+self.ppo_cfg['gamma']*reward_reversed[r]": 1, "R+reward_reversed[r]": 2}, which=1)))
    ex.probe("trainNstepAdvTag", "Nat", "0", "n_step_ppo.py  `adv = Reward - bl.detach()` (0) | value not detached (1)",
             nat(classify(NS, "n_step_PPO.shared_step", "adv", {"Reward-bl.detach()": 0, "Reward-bl": 1})))
    ex.probe("trainNstepRatioTag", "Nat", "0", "n_step_ppo.py  `ratio = torch.exp(ll - old_ll.detach())` (0)",
             nat(classify(NS, "n_step_PPO.shared_step", "ratio", {"torch.exp(ll-old_ll.detach())": 0, "torch.exp(ll-old_ll)": 0,
                                                                     "torch.exp(old_ll.detach()-ll)": 1})))

    # ---------------- a2c.py ----------------
    def a2c_default():
        fn = fn_of(A2C, "A2C.__init__")
        if fn is None:
            return None
        a = assigns(fn, "self.critic_optimizer_kwargs")
        if len(a) != 1:
            return None
        return {"critic_optimizer_kwargsifcritic_optimizer_kwargsisnotNoneelseactor_optimizer_kwargs": True}.get(n(a[0][2]))

    ex.probe("trainA2cCriticKwDefault", "Bool", "true", "a2c.py  critic optimizer kwargs default to the actor's when none are given",
             boolean(a2c_default))

    def a2c_groups():
        fn = fn_of(A2C, "A2C.configure_optimizers")
        if fn is None:
            return None
        a = assigns(fn, "parameters")
        if len(a) != 1:
            return None
        return {"[{'params':self.policy.parameters(),**self.actor_optimizer_kwargs}]+[{'params':self.baseline.parameters(),**self.critic_optimizer_kwargs}]": True}.get(n(a[0][2]))

    ex.probe("trainA2cGroups", "Bool", "true", "a2c.py:configure_optimizers  group 0 = policy with the actor kwargs, group 1 = baseline (critic) with the critic kwargs",
             boolean(a2c_groups))

    def a2c_critic():
        fn = fn_of(A2C, "A2C.__init__")
        if fn is None:
            return None
        for nd in ast.walk(fn):
            if isinstance(nd, ast.Call) and n(nd.func) == "super().__init__":
                kws = {k.arg: n(k.value) for k in nd.keywords if k.arg}
                if "baseline" in kws:
                    return kws["baseline"] == "CriticBaseline(critic)"
        return None

    ex.probe("trainA2cCriticBaseline", "Bool", "true", "a2c.py  A2C is REINFORCE with `baseline=CriticBaseline(critic)`", boolean(a2c_critic))
