"""AST probes of the FFSP family: the comparison operators of `FFSPEnv`'s readiness / mask / done tests.
The Lean model (Rl4co/Env/Ffsp.lean) hard-codes these operators; `Rl4co.Ffsp.params_match`
(Props/C02/Ffsp.lean) is the obligation that stops compiling when the source uses another one."""
REL = "rl4co/envs/scheduling/ffsp/env.py"


def cmp_list_probe(ex, rel, func, left, right):
    """operators of ALL comparisons `left <op> right` inside `func`, in source order, as a Lean list"""
    import ast

    L, R = left.replace(" ", "").replace('"', "'"), right.replace(" ", "").replace('"', "'")

    def run():
        tree = ex.parse(rel)
        fn = ex.find_function(tree, func) if tree else None
        if fn is None:
            return None
        hits = []
        for n in ast.walk(fn):
            if isinstance(n, ast.Compare) and len(n.ops) == 1 and type(n.ops[0]) in ex.CMP:
                if ex.norm(n.left) == L and ex.norm(n.comparators[0]) == R:
                    hits.append((n.lineno, n.col_offset, ex.CMP[type(n.ops[0])]))
        if not hits:
            return None
        return "[" + ", ".join("." + h[2] for h in sorted(hits)) + "]"

    return run


def register(ex):
    mv, up, st = "FFSPEnv._move_to_next_machine", "FFSPEnv._update_step_state", "FFSPEnv._step"
    ex.probe("ffspMachineReadyCmp", "Cmp", ".eq", "ffsp/env.py:_move_to_next_machine  `machine_wait_step[idx, new_machine_idx] == 0`",
             ex.cmp_probe(REL, mv, "machine_wait_step[idx, new_machine_idx]", "0"))
    ex.probe("ffspJobReadyWaitCmp", "Cmp", ".eq", "ffsp/env.py:_move_to_next_machine  `job_wait_step[idx, :self.num_job] == 0`",
             ex.cmp_probe(REL, mv, "job_wait_step[idx, :self.num_job]", "0"))
    ex.probe("ffspWrapCmp", "Cmp", ".eq", "ffsp/env.py:_move_to_next_machine  `new_sub_time_idx == self.num_machine_total`",
             ex.cmp_probe(REL, mv, "new_sub_time_idx", "self.num_machine_total"))
    ex.probe("ffspMaskWaitCmps", "List Cmp", "[.eq, .gt]",
             "ffsp/env.py:_update_step_state  `job_wait_time == 0` (job not waiting), `job_wait_time > 0` (waiting in stage)",
             cmp_list_probe(ex, REL, up, "job_wait_time", "0"))
    ex.probe("ffspMaskStageCmps", "List Cmp", "[.eq, .lt]",
             "ffsp/env.py:_update_step_state  `job_loc == stage_idx[:, None]` (in stage), `job_loc < stage_idx[:, None]` (in a previous stage)",
             cmp_list_probe(ex, REL, up, "job_loc", "stage_idx[:, None]"))
    ex.probe("ffspDoneCmp", "Cmp", ".eq", "ffsp/env.py:_step  `td['job_location'][:, :self.num_job] == self.num_stage`",
             ex.cmp_probe(REL, st, "td['job_location'][:, :self.num_job]", "self.num_stage"))
