"""AST probes of the FFSP family: the comparison operators of `FFSPEnv`'s readiness / mask / done tests.
The Lean model (Rl4co/Env/Ffsp.lean) hard-codes these operators; `Rl4co.Ffsp.params_match`
(Props/C02/Ffsp.lean) is the obligation that stops compiling when the source uses another one."""
REL = "rl4co/envs/scheduling/ffsp/env.py"


def cmp_list_probe(ex, rel, func, left, right):
    """operators of ALL comparisons `left <op> right` inside `func`, in source order, as a Lean list"""
    import ast

    L, R = left.replace(" ", "").replace('"', "'"), right.replace(" ", "").replace('"', "'")

    def run():
        tree = ex.parse(rel)
        fn = ex.find_function(tree, func) if tree else None
        if fn is None:
            return None
        hits = []
        for n in ast.walk(fn):
            if isinstance(n, ast.Compare) and len(n.ops) == 1 and type(n.ops[0]) in ex.CMP:
                if ex.norm(n.left) == L and ex.norm(n.comparators[0]) == R:
                    hits.append((n.lineno, n.col_offset, ex.CMP[type(n.ops[0])]))
        if not hits:
            return None
        return "[" + ", ".join("." + h[2] for h in sorted(hits)) + "]"

    return run


GEN = "rl4co/envs/scheduling/ffsp/generator.py"


def _fn(ex, rel, qual):
    tree = ex.parse(rel)
    return ex.find_function(tree, qual) if tree else None


def _b(v):
    return "true" if v else "false"


def sentinel_probe(ex):
    """`schedule = torch.full(..., fill_value=<int>)` in `_reset` → the integer"""
    import ast

    def run():
        fn = _fn(ex, REL, "FFSPEnv._reset")
        if fn is None:
            return None
        for n in ast.walk(fn):
            if (isinstance(n, ast.Assign) and len(n.targets) == 1 and ex.norm(n.targets[0]) == "schedule"
                    and isinstance(n.value, ast.Call) and ex.norm(n.value.func) == "torch.full"):
                for kw in n.value.keywords:
                    if kw.arg == "fill_value":
                        try:
                            v = ast.literal_eval(kw.value)
                        except Exception:
                            return None
                        if isinstance(v, int) and not isinstance(v, bool):
                            return f"({v})"
        return None

    return run


def step_machine_key_probe(ex):
    """`_step` books the operation with `td['machine_idx']` (true) or `td['stage_machine_idx']` (false):
    source key of the local `machine_idx` AND the index expressions of the three uses"""
    import ast

    def run():
        fn = _fn(ex, REL, "FFSPEnv._step")
        if fn is None:
            return None
        src = None
        for n in ast.walk(fn):
            if isinstance(n, ast.Assign) and len(n.targets) == 1 and ex.norm(n.targets[0]) == "machine_idx":
                src = ex.norm(n.value)
        if src is None:
            return None
        uses = {"sched": None, "dur": None, "mwait": None}
        for n in ast.walk(fn):
            if isinstance(n, ast.Subscript):
                t = ex.norm(n)
                if t.startswith("td['schedule'][batch_idx,"):
                    uses["sched"] = t
                elif t.startswith("td['job_duration'][batch_idx,"):
                    uses["dur"] = t
                elif t.startswith("td['machine_wait_step'][batch_idx,"):
                    uses["mwait"] = t
        if None in uses.values():
            return None
        good = (src == "td['machine_idx']" and uses["sched"] == "td['schedule'][batch_idx,machine_idx,job_idx]"
                and uses["dur"] == "td['job_duration'][batch_idx,job_idx,machine_idx]"
                and uses["mwait"] == "td['machine_wait_step'][batch_idx,machine_idx]")
        if good:
            return "true"
        allsm = all("stage_machine_idx" in u or (src == "td['stage_machine_idx']" and "machine_idx" in u) for u in uses.values())
        return "false" if (allsm or "stage_machine_idx" in src + "".join(uses.values())) else None

    return run


def pomo_op_probe(ex):
    """`pomo_idx = idx // self.bs` in `IndexTables.get_machine_index` → true for `//`, false for `%`"""
    import ast

    def run():
        fn = _fn(ex, REL, "IndexTables.get_machine_index")
        if fn is None:
            return None
        for n in ast.walk(fn):
            if (isinstance(n, ast.Assign) and ex.norm(n.targets[0]) == "pomo_idx" and isinstance(n.value, ast.BinOp)
                    and ex.norm(n.value.left) == "idx" and ex.norm(n.value.right) == "self.bs"):
                if isinstance(n.value.op, ast.FloorDiv):
                    return "true"
                if isinstance(n.value.op, ast.Mod):
                    return "false"
        return None

    return run


def reward_slice_probe(ex):
    """`end_schedule[:, :, :self.num_job]` in `_step`: upper bound of the job slice is `self.num_job` (true:
    the dummy column is excluded) or absent / `self.num_job + 1` (false)"""
    import ast

    def run():
        fn = _fn(ex, REL, "FFSPEnv._step")
        if fn is None:
            return None
        for n in ast.walk(fn):
            if isinstance(n, ast.Subscript) and ex.norm(n.value) == "end_schedule":
                t = ex.norm(n.slice).strip("()")
                if t == ":,:,:self.num_job":
                    return "true"
                if t in (":,:,:", ":,:,:self.num_job+1"):
                    return "false"
        return None

    return run


def init_wait_probe(ex):
    """`action_mask[..., -1] = 0` in `_reset` → true (wait masked at reset); `= 1` → false"""
    import ast

    def run():
        fn = _fn(ex, REL, "FFSPEnv._reset")
        if fn is None:
            return None
        for n in ast.walk(fn):
            if isinstance(n, ast.Assign) and ex.norm(n.targets[0]) == "action_mask[...,-1]" and isinstance(n.value, ast.Constant):
                return _b(not bool(n.value.value))
        return None

    return run


def consts_probe(ex):
    """[increment of job_location, increment of sub_time_idx, decrement of machine waits, decrement of job waits]"""
    import ast

    def run():
        st, mv = _fn(ex, REL, "FFSPEnv._step"), _fn(ex, REL, "FFSPEnv._move_to_next_machine")
        if st is None or mv is None:
            return None
        out = [None] * 4
        for n in ast.walk(st):
            if isinstance(n, ast.AugAssign) and ex.norm(n.target) == "td['job_location'][batch_idx,job_idx]" \
                    and isinstance(n.op, ast.Add) and isinstance(n.value, ast.Constant):
                out[0] = n.value.value
        for n in ast.walk(mv):
            if isinstance(n, ast.Assign) and ex.norm(n.targets[0]) == "new_sub_time_idx" and isinstance(n.value, ast.BinOp) \
                    and isinstance(n.value.op, ast.Add) and ex.norm(n.value.left) == "sub_time_idx[idx]" \
                    and isinstance(n.value.right, ast.Constant):
                out[1] = n.value.right.value
            if isinstance(n, ast.AugAssign) and isinstance(n.op, ast.Sub) and isinstance(n.value, ast.Constant):
                t = ex.norm(n.target)
                if t == "machine_wait_steps[step_time_required,:]":
                    out[2] = n.value.value
                if t == "job_wait_steps[step_time_required,:]":
                    out[3] = n.value.value
        if any(not isinstance(v, int) for v in out):
            return None
        return "[" + ", ".join(str(v) for v in out) + "]"

    return run


def shape_flags_probe(ex):
    """[num_machine_total = num_machine * num_stage, stage_table = arange(S).repeat_interleave(M),
        wait_allowed = job_in_previous_stages + job_waiting_in_stage + done, done rows skipped in the loop
        (`ready = flatten(done)`; `idx = idx[~ready]`), time += step_time_required, sub reset to 0 on wrap]"""
    import ast

    def run():
        g = _fn(ex, GEN, "FFSPGenerator.__init__")
        it = _fn(ex, REL, "IndexTables.__init__")
        up = _fn(ex, REL, "FFSPEnv._update_step_state")
        mv = _fn(ex, REL, "FFSPEnv._move_to_next_machine")
        if None in (g, it, up, mv):
            return None
        f = [False] * 6
        for n in ast.walk(g):
            if isinstance(n, ast.Assign) and ex.norm(n.targets[0]) == "self.num_machine_total":
                f[0] = ex.norm(n.value) in ("num_machine*num_stage", "num_stage*num_machine")
        for n in ast.walk(it):
            if isinstance(n, ast.Assign) and ex.norm(n.targets[0]) == "self.stage_table":
                t = ex.norm(n.value)
                f[1] = t.startswith("torch.arange(env.num_stage,") and t.endswith(".repeat_interleave(env.num_machine)")
        for n in ast.walk(up):
            if isinstance(n, ast.Assign) and ex.norm(n.targets[0]) == "wait_allowed":
                f[2] = ex.norm(n.value) == "job_in_previous_stages+job_waiting_in_stage+done"
        txt = [ex.norm(n) for n in ast.walk(mv) if isinstance(n, (ast.Assign, ast.AugAssign))]
        f[3] = "ready=torch.flatten(td['done'])" in txt and "idx=idx[~ready]" in txt
        f[4] = "time_idx[idx]+=step_time_required.long()" in txt
        f[5] = "new_sub_time_idx[step_time_required]=0" in txt
        return "[" + ", ".join(_b(v) for v in f) + "]"

    return run


def reward_shape_probe(ex):
    import ast

    def run():
        fn = _fn(ex, REL, "FFSPEnv._step")
        if fn is None:
            return None
        txt = [ex.norm(n) for n in ast.walk(fn) if isinstance(n, ast.Assign)]
        if not any(t.startswith("end_schedule=") for t in txt):
            return None
        f0 = "end_schedule=td['schedule']+td['job_duration'].permute(0,2,1)" in txt
        f1 = ("end_time_max,_=end_schedule[:,:,:self.num_job].max(dim=-1)" in txt
              and "end_time_max,_=end_time_max.max(dim=-1)" in txt)
        f2 = "reward=-end_time_max.to(torch.float32)" in txt
        return "[" + ", ".join(_b(v) for v in (f0, f1, f2)) + "]"

    return run


def gen_probe(ex):
    """generator: [default num_stage, num_machine, num_job, min_time, max_time] and whether
    `torch.randint(low=self.min_time, high=self.max_time, …)`"""
    import ast

    def defaults():
        fn = _fn(ex, GEN, "FFSPGenerator.__init__")
        if fn is None:
            return None
        names = [a.arg for a in fn.args.args]
        defs = fn.args.defaults
        m = dict(zip(names[len(names) - len(defs):], defs))
        out = []
        for k in ("num_stage", "num_machine", "num_job", "min_time", "max_time"):
            if k not in m or not isinstance(m[k], ast.Constant) or not isinstance(m[k].value, int):
                return None
            out.append(m[k].value)
        return "[" + ", ".join(map(str, out)) + "]"

    def lowhigh():
        fn = _fn(ex, GEN, "FFSPGenerator._generate")
        if fn is None:
            return None
        for n in ast.walk(fn):
            if isinstance(n, ast.Call) and ex.norm(n.func) == "torch.randint":
                kw = {k.arg: ex.norm(k.value) for k in n.keywords}
                if "low" in kw and "high" in kw:
                    return _b(kw["low"] == "self.min_time" and kw["high"] == "self.max_time")
        return None

    return defaults, lowhigh


_TBL_CACHE = {}


def tables_exec(ex):
    """Regenerate the index tables themselves: the source text of the class `IndexTables` (and nothing else) is
    executed with a stub env of 2 stages x 3 machines, once per `flatten_stages` value; the resulting
    `stage_table`, `machine_table`, `stage_machine_table` are emitted as Lean literals.  Any failure (class
    moved, constructor signature changed, torch missing) is a pattern-miss."""
    import ast

    if "v" in _TBL_CACHE:
        return _TBL_CACHE["v"]
    out = None
    try:
        tree = ex.parse(REL)
        cls = ex.find_function(tree, "IndexTables")
        src = ast.get_source_segment(open(ex.os.path.join(ex.REPO, REL)).read(), cls)
        import itertools
        import types

        import torch

        ns = {"torch": torch, "itertools": itertools, "FFSPEnv": object}
        exec(compile(src, "<IndexTables>", "exec"), ns)
        res = {}
        for flat in (False, True):
            env = types.SimpleNamespace(num_stage=2, num_machine=3, device="cpu", flatten_stages=flat)
            tb = ns["IndexTables"](env)
            res[flat] = (tb.stage_table.tolist(), tb.machine_table.tolist(), tb.stage_machine_table.tolist())
        out = res
    except Exception:
        out = None
    _TBL_CACHE["v"] = out
    return out


def _ll(rows):
    return "[" + ", ".join("[" + ", ".join(str(int(v)) for v in r) + "]" for r in rows) + "]"


def register(ex):
    def t_stage():
        r = tables_exec(ex)
        return None if r is None else "[" + ", ".join(str(int(v)) for v in r[False][0]) + "]"

    def t_machine():
        r = tables_exec(ex)
        return None if r is None else _ll(r[False][1])

    def t_sm_unflat():
        r = tables_exec(ex)
        return None if r is None else _ll(r[False][2])

    def t_sm_flat():
        r = tables_exec(ex)
        return None if r is None else _ll(r[True][2])

    ex.probe("ffspTblStage23", "List Nat", "[0, 0, 0, 1, 1, 1]",
             "ffsp/env.py:IndexTables (executed, 2 stages x 3 machines)  stage_table", t_stage)
    ex.probe("ffspTblMachine23", "List (List Nat)",
             "[[0, 1, 2, 3, 4, 5], [0, 2, 1, 3, 5, 4], [1, 0, 2, 4, 3, 5], [1, 2, 0, 4, 5, 3], [2, 0, 1, 5, 3, 4], [2, 1, 0, 5, 4, 3]]",
             "ffsp/env.py:IndexTables (executed)  machine_table", t_machine)
    ex.probe("ffspTblStageMachine23", "List (List Nat)",
             "[[0, 1, 2, 0, 1, 2], [0, 2, 1, 0, 2, 1], [1, 0, 2, 1, 0, 2], [1, 2, 0, 1, 2, 0], [2, 0, 1, 2, 0, 1], [2, 1, 0, 2, 1, 0]]",
             "ffsp/env.py:IndexTables (executed, flatten_stages=False)  stage_machine_table", t_sm_unflat)
    ex.probe("ffspTblStageMachineFlat23", "List (List Nat)",
             "[[0, 1, 2, 3, 4, 5], [0, 2, 1, 3, 5, 4], [1, 0, 2, 4, 3, 5], [1, 2, 0, 4, 5, 3], [2, 0, 1, 5, 3, 4], [2, 1, 0, 5, 4, 3]]",
             "ffsp/env.py:IndexTables (executed, flatten_stages=True)  stage_machine_table", t_sm_flat)
    ex.probe("ffspRewardShape", "List Bool", "[true, true, true]",
             "ffsp/env.py:_step  end_schedule = schedule + job_duration.permute(0, 2, 1); two max(dim=-1); reward = -max",
             reward_shape_probe(ex))
    ex.probe("ffspSentinel", "Int", "(-999999)", "ffsp/env.py:_reset  `schedule = torch.full(..., fill_value=-999999)`",
             sentinel_probe(ex))
    ex.probe("ffspStepUsesMachineIdx", "Bool", "true",
             "ffsp/env.py:_step  books schedule / duration / machine wait with `td['machine_idx']` (not `stage_machine_idx`)",
             step_machine_key_probe(ex))
    ex.probe("ffspPomoFloorDiv", "Bool", "true", "ffsp/env.py:IndexTables.get_machine_index  `pomo_idx = idx // self.bs`",
             pomo_op_probe(ex))
    ex.probe("ffspRewardExcludesDummy", "Bool", "true", "ffsp/env.py:_step  `end_schedule[:, :, : self.num_job]`",
             reward_slice_probe(ex))
    ex.probe("ffspInitWaitMasked", "Bool", "true", "ffsp/env.py:_reset  `action_mask[..., -1] = 0`", init_wait_probe(ex))
    ex.probe("ffspStepConsts", "List Nat", "[1, 1, 1, 1]",
             "ffsp/env.py  `job_location += 1`, `sub_time_idx + 1`, `machine_wait_steps -= 1`, `job_wait_steps -= 1`",
             consts_probe(ex))
    ex.probe("ffspShapeFlags", "List Bool", "[true, true, true, true, true, true]",
             "ffsp  num_machine_total = M*S; stage_table = arange(S).repeat_interleave(M); wait_allowed = prev + waiting + done; "
             "done rows skipped by the loop; time += wrap; sub := 0 on wrap", shape_flags_probe(ex))
    gd, glh = gen_probe(ex)
    ex.probe("ffspGenDefaults", "List Nat", "[2, 3, 4, 2, 10]",
             "ffsp/generator.py:__init__ defaults num_stage, num_machine, num_job, min_time, max_time", gd)
    ex.probe("ffspGenLowHigh", "Bool", "true", "ffsp/generator.py:_generate  `torch.randint(low=self.min_time, high=self.max_time, …)`", glh)
    mv, up, st = "FFSPEnv._move_to_next_machine", "FFSPEnv._update_step_state", "FFSPEnv._step"
    ex.probe("ffspMachineReadyCmp", "Cmp", ".eq", "ffsp/env.py:_move_to_next_machine  `machine_wait_step[idx, new_machine_idx] == 0`",
             ex.cmp_probe(REL, mv, "machine_wait_step[idx, new_machine_idx]", "0"))
    ex.probe("ffspJobReadyWaitCmp", "Cmp", ".eq", "ffsp/env.py:_move_to_next_machine  `job_wait_step[idx, :self.num_job] == 0`",
             ex.cmp_probe(REL, mv, "job_wait_step[idx, :self.num_job]", "0"))
    ex.probe("ffspWrapCmp", "Cmp", ".eq", "ffsp/env.py:_move_to_next_machine  `new_sub_time_idx == self.num_machine_total`",
             ex.cmp_probe(REL, mv, "new_sub_time_idx", "self.num_machine_total"))
    ex.probe("ffspMaskWaitCmps", "List Cmp", "[.eq, .gt]",
             "ffsp/env.py:_update_step_state  `job_wait_time == 0` (job not waiting), `job_wait_time > 0` (waiting in stage)",
             cmp_list_probe(ex, REL, up, "job_wait_time", "0"))
    ex.probe("ffspMaskStageCmps", "List Cmp", "[.eq, .lt]",
             "ffsp/env.py:_update_step_state  `job_loc == stage_idx[:, None]` (in stage), `job_loc < stage_idx[:, None]` (in a previous stage)",
             cmp_list_probe(ex, REL, up, "job_loc", "stage_idx[:, None]"))
    ex.probe("ffspDoneCmp", "Cmp", ".eq", "ffsp/env.py:_step  `td['job_location'][:, :self.num_job] == self.num_stage`",
             ex.cmp_probe(REL, st, "td['job_location'][:, :self.num_job]", "self.num_stage"))
