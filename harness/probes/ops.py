"""AST probes of the `ops` family (C12): decision-critical tokens of rl4co/utils/ops.py.

  opsLoopsReversed        `for s in reversed(shape)` in BOTH `batchify` and `unbatchify` (nesting order)
  opsNumStartsDepotEnvs   the env-name list of `get_num_starts` whose members lose the depot (`num_starts - 1`)
  opsNoDepotStartEnvs     the env-name list of `select_start_nodes` whose members start at index 0 (`% num_loc`)
  opsOpClampMin           the constant of OP's `feasible.sum(-1, keepdim=True).clamp(min=1)` (cycle length floor)
  opsOpArgsortStable      OP's `torch.argsort((~feasible).int(), dim=-1, stable=True)` (feasible nodes ascending)
  opsSampleNReplaceCmp    operator of `n_valid_actions < n` in `sample_n_random_actions`

The Lean model (`Rl4co/Train/{Batchify,Select}.lean`) takes them from `Params`; the C12 theorems unfold the
committed values, so a source edit that changes one of them stops the proofs from compiling.
Anything not recognised is a pattern-miss (committed default + correspondence only).
"""
from __future__ import annotations

import ast

REL = "rl4co/utils/ops.py"


def _lean_str_list(xs) -> str:
    return "[" + ", ".join('"' + x.replace('"', "") + '"' for x in xs) + "]"


def _str_list(node):
    if isinstance(node, (ast.List, ast.Tuple)) and all(isinstance(e, ast.Constant) and isinstance(e.value, str) for e in node.elts):
        vals = [e.value for e in node.elts]
        if all(v.replace("_", "").isalnum() for v in vals):
            return vals
    return None


def _in_lists(fn, subject: str):
    """all string lists L of tests `subject in L` inside fn, in source order"""
    out = []
    for n in ast.walk(fn):
        if (isinstance(n, ast.Compare) and len(n.ops) == 1 and isinstance(n.ops[0], ast.In)
                and ast.unparse(n.left).replace(" ", "") == subject):
            vals = _str_list(n.comparators[0])
            if vals is not None:
                out.append((n.lineno, vals))
    return [v for _, v in sorted(out)]


def register(ex):
    def loops_reversed():
        tree = ex.parse(REL)
        if tree is None:
            return None
        res = []
        for name in ("batchify", "unbatchify"):
            fn = ex.find_function(tree, name)
            if fn is None:
                return None
            loops = [n for n in ast.walk(fn) if isinstance(n, ast.For)]
            if len(loops) != 1:
                return None
            it = ast.unparse(loops[0].iter).replace(" ", "")
            if it == "reversed(shape)":
                res.append(True)
            elif it == "shape":
                res.append(False)
            else:
                return None
        if res[0] != res[1]:
            return None
        return "true" if res[0] else "false"

    def numstarts_list():
        tree = ex.parse(REL)
        fn = ex.find_function(tree, "get_num_starts") if tree else None
        if fn is None:
            return None
        ls = _in_lists(fn, "env_name")
        return _lean_str_list(ls[0]) if len(ls) == 1 else None

    def nodepot_list():
        tree = ex.parse(REL)
        fn = ex.find_function(tree, "select_start_nodes") if tree else None
        if fn is None:
            return None
        ls = _in_lists(fn, "env.name")
        # first list = the no-depot branch, second = the jssp/fjsp NotImplementedError branch
        return _lean_str_list(ls[0]) if len(ls) == 2 and ls[1] == ["jssp", "fjsp"] else None

    ex.probe("opsLoopsReversed", "Bool", "true",
             "utils/ops.py:batchify, unbatchify  `for s in reversed(shape)`", loops_reversed)
    ex.probe("opsNumStartsDepotEnvs", "List String",
             '["cvrp", "cvrptw", "sdvrp", "mtsp", "op", "pctsp", "spctsp"]',
             "utils/ops.py:get_num_starts  `elif env_name in [...]: num_starts - 1`", numstarts_list)
    ex.probe("opsNoDepotStartEnvs", "List String", '["tsp", "atsp", "flp", "mcp"]',
             "utils/ops.py:select_start_nodes  `if env.name in [...]` (no `+ 1`)", nodepot_list)
    def _calls(attr):
        tree = ex.parse(REL)
        fn = ex.find_function(tree, "select_start_nodes") if tree else None
        if fn is None:
            return None
        return [n for n in ast.walk(fn) if isinstance(n, ast.Call) and isinstance(n.func, ast.Attribute) and n.func.attr == attr]

    def clamp_min():
        cs = _calls("clamp")
        if cs is None or len(cs) != 1 or cs[0].args:
            return None
        kws = {k.arg: k.value for k in cs[0].keywords}
        v = kws.get("min")
        if set(kws) != {"min"} or not (isinstance(v, ast.Constant) and type(v.value) is int and v.value >= 0):
            return None
        return str(v.value)

    def argsort_stable():
        cs = _calls("argsort")
        if cs is None or len(cs) != 1:
            return None
        kws = {k.arg: k.value for k in cs[0].keywords}
        if "descending" in kws:
            return None
        v = kws.get("stable")
        if v is None:
            return "false"
        return ("true" if v.value else "false") if isinstance(v, ast.Constant) and isinstance(v.value, bool) else None

    ex.probe("opsOpClampMin", "Nat", "1",
             "utils/ops.py:select_start_nodes (op)  `feasible.sum(-1, keepdim=True).clamp(min=1)`", clamp_min)
    ex.probe("opsOpArgsortStable", "Bool", "true",
             "utils/ops.py:select_start_nodes (op)  `torch.argsort((~feasible).int(), dim=-1, stable=True)`", argsort_stable)
    ex.probe("opsSampleNReplaceCmp", "Cmp", ".lt",
             "utils/ops.py:sample_n_random_actions  `n_valid_actions < n`",
             ex.cmp_probe(REL, "sample_n_random_actions", "n_valid_actions", "n"))
